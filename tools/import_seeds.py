#!/usr/bin/env python3
"""import_seeds.py -- copy confirmed seeded changes from /tmp/seed_out into /verif/seeded/<prop>-<k>/ ."""
import json, os, shutil, sys, glob
V = os.path.dirname(os.path.dirname(os.path.abspath(__file__)))
FIRST_MISSED = {"C06-1", "C06-3", "C07-1", "C08-2", "C17-3", "C10-2", "C15-2", "C15-3", "C19-2", "C13-1", "C04-1", "C11-3", "C05-2", "C05-3", "C05-6", "C06-6", "C07-5", "C10-4", "C10-6", "C13-6", "C20-5", "C09-4", "C11-4", "C12-6", "C15-6", "C19-6", "C05-9", "C06-9", "C07-9", "C11-7", "C20-9", "C07-10"}
ROUNDS = [("/tmp/seed_out", 0), ("/tmp/seed_out2", 3), ("/tmp/seed_out3", 6), ("/tmp/seed_out4", 9)]     # later rounds of independent agents: 4..6, 7..9
for d, off in [(d, off) for root, off in ROUNDS for d in sorted(glob.glob(root + "/C*/*"))]:
    prop, k = d.split("/")[-2], d.split("/")[-1]
    if not k.isdigit():
        continue
    k = str(int(k) + off)
    rp = os.path.join(d, "result.json")
    if not os.path.exists(rp):
        continue
    res = json.load(open(rp))
    if not res.get("applies") or res.get("demo_unchanged", {}).get("rc") != 0 or res.get("demo_changed", {}).get("rc") == 0:
        print("skip (not confirmed)", d, res.get("applies"), res.get("demo_unchanged", {}).get("rc"), res.get("demo_changed", {}).get("rc"))
        mp = os.path.join(V, "seeded", "%s-%s" % (prop, k), "meta.json")
        if os.path.exists(mp) and res.get("applies") is False:
            m = json.load(open(mp))
            m["later_tree"] = {"commit": res.get("base"), "at": res.get("at"),
                               "note": "patch.diff no longer applies: the code it changes was rewritten by a later repair of /repo; the "
                                       "confirmation and the check result above are from the base commit recorded there"}
            json.dump(m, open(mp, "w"), indent=1)
        continue
    out = os.path.join(V, "seeded", "%s-%s" % (prop, k))
    os.makedirs(out, exist_ok=True)
    for f in ("patch.diff", "demo.py"):
        shutil.copy(os.path.join(d, f), os.path.join(out, f))
    meta = json.load(open(os.path.join(d, "meta.json")))
    meta["confirmed_by_coordinator"] = {
        "base_commit": res.get("base"), "at": res.get("at"),
        "demo_on_unchanged_tree": "exit %d" % res["demo_unchanged"]["rc"],
        "demo_with_change": "exit %d" % res["demo_changed"]["rc"],
        "what_i_ran": "tools/seedtest.py %s <dir> <scratch worktree>: git apply patch.diff in a scratch worktree of /repo, demo.py both ways, "
                      "then `VERIF_REPO=<worktree> tools/verif.py check %s --tier quick`" % (prop, prop),
        "existing_suite_with_change": "passes (run by the seeding agent; %s)" % ("re-run by the coordinator" if res.get("tests_rc") == 0 else "not re-run by the coordinator"),
    }
    meta["check_result"] = {"detected": res.get("detected"), "concrete_replay": res.get("concrete_replay"),
                            "lines": res.get("check", {}).get("lines", [])[-4:],
                            "first_violations": [v.get("what", "")[:200] for v in res.get("check", {}).get("violation_summaries", [])[:3]]}
    old = {}
    if os.path.exists(os.path.join(out, "meta.json")):
        old = json.load(open(os.path.join(out, "meta.json")))
    first_missed = old.get("missed_by_first_version") or (old.get("check_result", {}).get("detected") is False) \
        or ("%s-%s" % (prop, k)) in FIRST_MISSED
    if first_missed:
        meta["missed_by_first_version"] = True
        meta["history"] = ("missed by the first version of the check; the check was strengthened (DESIGN.md 10.6) and the result "
                           "below is from the strengthened check")
    json.dump(meta, open(os.path.join(out, "meta.json"), "w"), indent=1)
    print("imported", prop, k, "detected" if res.get("detected") else "MISSED")
