#!/usr/bin/env python3
"""Regenerate MANIFEST.json from tools/manifest_data.py (keeps the file valid at all times)."""
import json
import os
import sys

sys.path.insert(0, os.path.dirname(os.path.abspath(__file__)))
from manifest_data import CHECKS, NOT_APPLICABLE, NOTES  # noqa: E402

V = os.path.dirname(os.path.dirname(os.path.abspath(__file__)))
man = {
    "version": 1,
    "setup_cmd": "/venv/bin/python tools/verif.py setup",
    "hooks": {
        "guard": "PY7ZR_VERIF",
        "enable": "no source hooks: the harness monkey-patches block size, memory limit, RNG, clock and scheduler from outside (PY7ZR_VERIF=1 is set in the environment of every check but the library does not read it)",
        "baseline_off_cmd": "cd /repo && /venv/bin/python -m pytest -ra -q -p no:cacheprovider --timeout=900 --continue-on-collection-errors",
        "source_commits": [],
        "add_only": True,
    },
    "engines": [
        {"name": "coq-model", "path": "coq/", "serves_properties": sorted(CHECKS),
         "kind_free_text": "Coq 8.16.1 development: hand-written models (coq/theories), models regenerated from /repo by tools/translate.py (coq/gen), property theorems (coq/props), extraction to OCaml (ocaml/) for the correspondence check"},
        {"name": "harness", "path": "tools/", "serves_properties": sorted(CHECKS),
         "kind_free_text": "tools/verif.py: translate, build, audit, correspondence model<->implementation, implementation exploration with the model as oracle, evidence"},
    ],
    "checks": [],
    "notes": NOTES,
    "not_applicable": [{"property_id": k, "reason": v} for k, v in sorted(NOT_APPLICABLE.items())],
}
for pid in sorted(CHECKS):
    c = CHECKS[pid]
    man["checks"].append({
        "property_id": pid,
        "quick_cmd": "/venv/bin/python tools/verif.py check %s --tier quick" % pid,
        "thorough_cmd": "/venv/bin/python tools/verif.py check %s --tier thorough" % pid,
        "evidence_file": "/verif/evidence/%s.json" % pid,
        "replay_cmd_template": "/venv/bin/python tools/verif.py replay {path}",
        "engine": "coq-model",
        "level_claimed": {"category": c.get("category", "proof"), "text": c["text"], "design_ref": c.get("design_ref", "DESIGN.md section 5")},
        "level_note": c["note"],
        "technique": c["technique"],
    })
json.dump(man, open(os.path.join(V, "MANIFEST.json"), "w"), indent=1)
print("MANIFEST.json: %d checks, %d not_applicable" % (len(man["checks"]), len(man["not_applicable"])))
