"""C09 -- selective extraction equals the restriction of full extraction.

For every archive of the families below and EVERY subset T of its member names (plus absent names;
given as list / set, with and without trailing '/', reversed, with duplicates), recursive False/True,
output into a fresh directory and into a WriterFactory, the implementation's result is compared with
  (1) the specification computed here in Python from what was put into the archive
      (selected members with their own bytes; directories = selected directory entries, their
      ancestors and the ancestors of the selected members; nothing else),
  (2) the restriction of what extractall() of the same archive delivered (partial theorem: holds
      of every archive),
  (3) the extracted Gallina model of the code (Select.v: sel_impl_extract) -- the correspondence
      that ties the theorems of props/C09.v to py7zr -- and the model's own specification side.
Archive families: hand-assembled Copy archives with an exact header layout (single folder with
directories / empty files in every position, no folder at all, several folders with the empty
entries outside the folders' runs, several folders with an empty entry between two data members of
one folder), archives written by py7zr itself (solid sessions, appended sessions, several filter
chains), opened from memory (sequential worker) and from a file (threaded worker)."""
import io
import itertools
import multiprocessing
import os
import random
import shutil
import signal
import struct
import sys
import tempfile
import zlib

import py7zr

from . import arch

GEN_DEPS = []
LEVEL = "proof"
TRUSTED_BASE = [
    "Coq 8.16.1 kernel, vm_compute for the closed witnesses; no axioms (Print Assumptions: closed)",
    "theories/Select.v as a transcription of SevenZipFile.extract/_extract, ArchiveFileList numbering, "
    "Worker.extract/_extract_single/_check (tied to the code by the correspondence run of this harness: "
    "every explored case is also run through the extracted model)",
    "Worker.decompress = the next `size` bytes of the folder's decoded stream (Decomp.worker_next; "
    "decoding correctness itself is C01)",
    "extraction (ExtrOcamlBasic only) + ocaml/driver.ml for running the model",
    "the hand-assembled archives of this harness are valid 7z archives (they are read back by py7zr and the "
    "full extraction is compared with the bytes put in)",
]
ASSUMPTIONS = [
    "member names are unique, relative, without '.'/'..' components (wf_archive); members are regular files, "
    "empty files and directories (no links, no sockets)",
    "the destination directory is fresh and empty; extraction of one archive object is followed by reset() or reopening",
    "no member name is a proper string prefix of another except along '/' (the property's side condition; checked "
    "per archive); absent target names include string prefixes of member names that are no path prefixes",
    "recursive is exactly False or True (any other value makes _extract skip the filter altogether)",
]

SIG = b"7z\xbc\xaf\x27\x1c"


# ------------------------------------------------------------------ hand-assembled archives
def _num(v):
    """7z NUMBER: n leading one bits in the first byte announce n further bytes (little endian); the remaining
    low bits of the first byte are the most significant bits of the value"""
    for n in range(0, 8):
        if v < (1 << (8 * n + 7 - n)):
            first = ((0xFF << (8 - n)) & 0xFF) | (v >> (8 * n))
            return bytes([first]) + (v & ((1 << (8 * n)) - 1)).to_bytes(n, "little")
    return b"\xff" + v.to_bytes(8, "little")


def _bits(bs):
    out = bytearray((len(bs) + 7) // 8)
    for i, b in enumerate(bs):
        if b:
            out[i // 8] |= 0x80 >> (i % 8)
    return bytes(out)


def craft(entries):
    """entries: list of [name, kind, folder, content-bytes]; kind in data/empty/dir.  Copy-coded folders;
    the header lists the entries exactly in the given order."""
    nf = 1 + max([e[2] for e in entries if e[1] == "data"], default=-1)
    fol = [[e for e in entries if e[1] == "data" and e[2] == k] for k in range(nf)]
    assert all(fol), "every folder needs a data member"
    packed = b"".join(b"".join(e[3] for e in f) for f in fol)
    h = bytearray(b"\x01")
    if nf:
        h += b"\x04"
        h += b"\x06" + _num(0) + _num(nf) + b"\x09" + b"".join(_num(sum(len(e[3]) for e in f)) for f in fol) + b"\x00"
        h += b"\x07\x0b" + _num(nf) + b"\x00" + b"".join(b"\x01\x01\x00" for _ in fol)
        h += b"\x0c" + b"".join(_num(sum(len(e[3]) for e in f)) for f in fol) + b"\x00"
        h += b"\x08\x0d" + b"".join(_num(len(f)) for f in fol)
        if any(len(f) > 1 for f in fol):
            h += b"\x09" + b"".join(_num(len(e[3])) for f in fol for e in f[:-1])
        h += b"\x0a\x01" + b"".join(struct.pack("<L", zlib.crc32(e[3])) for f in fol for e in f)
        h += b"\x00\x00"
    h += b"\x05" + _num(len(entries))
    es = [e[1] != "data" for e in entries]
    if any(es):
        v = _bits(es)
        h += b"\x0e" + _num(len(v)) + v
        ef = [e[1] == "empty" for e in entries if e[1] != "data"]
        if any(ef):
            v = _bits(ef)
            h += b"\x0f" + _num(len(v)) + v
    names = b"".join(e[0].encode("utf-16LE") + b"\x00\x00" for e in entries)
    h += b"\x11" + _num(len(names) + 1) + b"\x00" + names
    h += b"\x14" + _num(2 + 8 * len(entries)) + b"\x01\x00" + b"".join(
        struct.pack("<Q", 116444736000000000 + 10000000 * (86400 * 365 * 40 + 3600 * i)) for i in range(len(entries)))
    h += b"\x15" + _num(2 + 4 * len(entries)) + b"\x01\x00" + b"".join(
        struct.pack("<L", 0x10 if e[1] == "dir" else 0x20) for e in entries)
    h += b"\x00\x00"
    start = struct.pack("<QQL", len(packed), len(h), zlib.crc32(bytes(h)))
    return SIG + b"\x00\x04" + struct.pack("<L", zlib.crc32(start)) + start + packed + bytes(h)


def build_py7zr(sessions, chain):
    """sessions: list of lists of [name, kind, content]; written by py7zr itself: data via writestr, directories
    and zero-length files via write() of a real directory / empty file.  One folder per session."""
    bio = io.BytesIO()
    tmp = tempfile.mkdtemp(prefix="c09w")
    try:
        ed = os.path.join(tmp, "d")
        os.mkdir(ed)
        ef = os.path.join(tmp, "e")
        open(ef, "wb").close()
        for i, ms in enumerate(sessions):
            bio.seek(0)
            with py7zr.SevenZipFile(bio, "w" if i == 0 else "a", filters=arch.CHAINS[chain]) as z:
                for n, kind, content in ms:
                    if kind == "dir":
                        z.write(ed, n)
                    elif kind == "empty":
                        z.write(ef, n)
                    else:
                        z.writestr(content, n)
    finally:
        shutil.rmtree(tmp, ignore_errors=True)
    return bio.getvalue()


def build(spec):
    """-> (archive bytes, contents dict name -> (kind, bytes))"""
    if spec["how"] == "craft":
        ents = [[e[0], e[1], e[2], bytes.fromhex(e[3])] for e in spec["entries"]]
        return craft(ents), {e[0]: (e[1], e[3]) for e in ents}
    sessions = [[[m[0], m[1], bytes.fromhex(m[2])] for m in s] for s in spec["sessions"]]
    return build_py7zr(sessions, spec["chain"]), {m[0]: (m[1], m[2]) for s in sessions for m in s}


# ------------------------------------------------------------------ specification side (independent of the model)
def rts(t):
    return t[:-1] if t.endswith("/") else t


def spec_sel(T, rec, name):
    if T is None:
        return True
    tn = [rts(t) for t in T]
    return name in tn or (rec and any(name.startswith(t + "/") for t in tn))


def impl_sel(T, rec, name):
    if T is None:
        return True
    tn = [rts(t) for t in T]
    return name in tn or (rec and any(name.startswith(t + "/") for t in tn))


def ancestors(name):
    parts = name.split("/")
    return ["/".join(parts[:i]) for i in range(1, len(parts))]


def expected(contents, T, rec, to_dir):
    files = {n: c for n, (k, c) in contents.items() if k != "dir" and spec_sel(T, rec, n)}
    dirs = set()
    if to_dir:
        for n, (k, c) in contents.items():
            if spec_sel(T, rec, n):
                dirs.update(ancestors(n))
                if k == "dir":
                    dirs.add(n)
    return files, dirs


def brief(d):
    if d is None:
        return None
    return {n: "%s..(%d bytes)" % (b[:4].hex(), len(b)) if len(b) > 4 else b.hex() for n, b in sorted(d.items())}


def has_gap(layout):
    """an empty-stream entry between two data members of one folder, in an archive of several folders"""
    fol = [k[1] for n, k in layout if k[0] == "data"]
    if len(set(fol)) < 2:
        return False
    for f in set(fol):
        idx = [i for i, (n, k) in enumerate(layout) if k[0] == "data" and k[1] == f]
        if idx[-1] - idx[0] + 1 != len(idx):
            return True
    return False


# ------------------------------------------------------------------ implementation side
class Hang(Exception):
    pass


def _alarm(signum, frame):
    raise Hang()


def observe_layout(z):
    """the archive as the implementation sees it: [(name, (kind, folder))], and the ids of the folder file lists
    [[(assigned id, real id)...]...]"""
    folders = []
    if z.header.main_streams is not None:
        folders = z.header.main_streams.unpackinfo.folders
    infos = z.files.files_list
    layout = []
    for f in z.files:
        if f.emptystream:
            layout.append((f.filename, ("dir",) if f.is_directory else ("empty",)))
        else:
            k = [i for i, fo in enumerate(folders) if fo is f.folder]
            layout.append((f.filename, ("data", k[0] if k else -1)))
    ids = []
    for fo in folders:
        row = []
        for f in (fo.files or []):
            real = [i for i, inf in enumerate(infos) if inf is f._file_info]
            row.append((f.id, real[0] if real else -1))
        ids.append(row)
    return layout, ids


def run_impl(z, T, rec, mode, timeout=20):
    """-> (files dict, dirs set or None, order list or None, exception or None)"""
    old = signal.signal(signal.SIGALRM, _alarm)
    signal.setitimer(signal.ITIMER_REAL, timeout)
    exc = None
    tmp = None
    try:
        if mode == "factory":
            fac = arch.Collect()
            try:
                if T is None:
                    z.extractall(factory=fac)
                else:
                    z.extract(targets=T, recursive=rec, factory=fac)
            except Hang:
                exc = "Hang"
            except Exception as e:  # noqa
                exc = "%s: %s" % (type(e).__name__, str(e)[:120])
            signal.setitimer(signal.ITIMER_REAL, 0)
            lst = fac.as_list()
            return dict(lst), None, [n for n, _ in lst], exc
        tmp = tempfile.mkdtemp(prefix="c09x")
        dest = os.path.join(tmp, "out")
        os.mkdir(dest)
        try:
            if T is None:
                z.extractall(path=dest)
            else:
                z.extract(path=dest, targets=T, recursive=rec)
        except Hang:
            exc = "Hang"
        except Exception as e:  # noqa
            exc = "%s: %s" % (type(e).__name__, str(e)[:120])
        signal.setitimer(signal.ITIMER_REAL, 0)
        files, dirs = {}, set()
        for dp, dns, fns in os.walk(dest):
            rel = os.path.relpath(dp, dest).replace(os.sep, "/")
            for d in dns:
                dirs.add(d if rel == "." else rel + "/" + d)
            for fn in fns:
                p = os.path.join(dp, fn)
                files[fn if rel == "." else rel + "/" + fn] = open(p, "rb").read() if not os.path.islink(p) else b"<link>"
        stray = sorted(os.listdir(tmp))
        if stray != ["out"]:
            files["<outside destination>"] = repr(stray).encode()
        return files, dirs, None, exc
    finally:
        signal.setitimer(signal.ITIMER_REAL, 0)
        signal.signal(signal.SIGALRM, old)
        if tmp is not None:
            shutil.rmtree(tmp, ignore_errors=True)


# ------------------------------------------------------------------ model side
def S(s):
    return [ord(c) for c in s]


def U(t):
    return "".join(chr(c) for c in t)


def model_archive(layout, contents):
    out = []
    for n, k in layout:
        if k[0] == "data":
            out.append([S(n), [0, k[1], list(contents[n][1])]])
        elif k[0] == "empty":
            out.append([S(n), [1]])
        else:
            out.append([S(n), [2]])
    return out


def merge(pairs):
    """deliveries -> (ordered names, dict); a second delivery to one output appends (arch.Collect) / the first
    of the two is always the empty touch of the empty-entries pass"""
    order, d = [], {}
    for n, b in pairs:
        if n not in d:
            order.append(n)
            d[n] = b""
        d[n] += b
    return order, d


def model_run(model, fn, mar, T, rec, mode, stored):
    t = [] if T is None else [[S(x) for x in T]]
    arg = [1 if mode == "dir" else 0, mar, t, 1 if rec else 0]
    if fn == "sel_impl_extract":
        arg.append(1 if stored else 0)
    r = model.call(fn, arg)
    order, files = merge([(U(n), bytes(b)) for n, b in r[0]])
    dirs = set("/".join(U(c) for c in p) for p in r[2])
    return order, files, dirs


_MODEL = None


def get_model(want):
    global _MODEL
    if not want:
        return None
    if _MODEL is None:
        sys.path.insert(0, os.path.dirname(os.path.dirname(os.path.abspath(__file__))))
        import vlib
        _MODEL = vlib.Model()
    return _MODEL


# ------------------------------------------------------------------ targets
def absent_names(names):
    """names that are neither a member nor a directory above a member; the second one is a string prefix (not a
    path prefix) of a member name where there is one"""
    def absent(c):
        return c and c not in names and not c.endswith("/") and not any(n.startswith(c + "/") for n in names)
    cands = ["nope.txt", "zz/absent.bin", "q", "sub0/none", "été"]
    out = [c for c in cands if absent(c)][:1]
    pref = [n[:k] for n in names for k in (len(n) - 1, 1) if absent(n[:k])]
    out += pref[:1] if pref else [c for c in cands if absent(c)][1:2]
    return out


def present(sub, names, variant):
    """the subset `sub` of the member names handed over in one of several equivalent ways"""
    ab = absent_names(names)
    if variant == 0:
        return list(sub)
    if variant == 1:
        return set(sub)
    if variant == 2:
        return [n + "/" for n in sub]
    if variant == 3:
        return ab[:1] + list(sub) + ab[1:]
    if variant == 4:
        return list(reversed(sub)) + list(sub[:1])
    return set([n + "/" for n in sub[::2]] + list(sub[1::2]) + [a + "/" for a in ab])


NVARIANTS = 6


def jsonable_targets(T):
    if T is None:
        return None
    return {"type": type(T).__name__, "items": sorted(T) if isinstance(T, set) else list(T)}


def targets_from_json(j):
    if j is None:
        return None
    return {"list": list, "set": set}[j["type"]](j["items"])


# ------------------------------------------------------------------ one archive, all its cases
def explore(job):
    """runs in a pool worker; job = {"spec", "tier", "seed", "use_model", "stored", "file"}"""
    spec, tier = job["spec"], job["tier"]
    rng = random.Random(job["seed"])
    model = get_model(job["use_model"])
    out = {"cases": [], "viol": [], "dist": {}, "label": spec.get("label", "")}

    def dist(t, k):
        d = out["dist"].setdefault(t, {})
        d[str(k)] = d.get(str(k), 0) + 1

    def viol(what, replay, mk, concrete=True):
        if len(out["viol"]) < 4:
            out["viol"].append({"what": what, "replay": replay, "match_keys": mk, "concrete": concrete})

    try:
        data, contents = build(spec)
    except Exception as e:  # noqa
        viol("archive construction failed: %s: %s" % (type(e).__name__, e), {"kind": "build", "archive": spec},
             {"kind": "build"})
        return out
    tmpf = None
    try:
        if job.get("file"):
            fd, tmpf = tempfile.mkstemp(prefix="c09a", suffix=".7z")
            os.write(fd, data)
            os.close(fd)

        def opener():
            return py7zr.SevenZipFile(tmpf if tmpf else io.BytesIO(data), "r")

        try:
            z = opener()
            layout, ids = observe_layout(z)
        except Exception as e:  # noqa
            viol("archive cannot be opened: %s: %s" % (type(e).__name__, e), {"kind": "open", "archive": spec},
                 {"kind": "open"})
            return out
        names = [n for n, _ in layout]
        gap = has_gap(layout)
        out["gap"] = gap
        dist("layout", "%d folders, %d members%s%s" % (len(ids), len(names), ", gap" if gap else "",
                                                      ", file" if tmpf else ""))
        if sorted(names) != sorted(contents):
            viol("archive lists %r, written %r" % (names, sorted(contents)), {"kind": "open", "archive": spec},
                 {"kind": "listing"})
            return out
        for n, k in layout:
            want = contents[n][0]
            got = k[0]
            if spec["how"] == "py7zr" and want == "empty":
                want = "data"      # py7zr stores a zero-length file as a sub-stream of length 0
            if got != want:
                viol("member %r stored as %s, read as %s" % (n, want, got), {"kind": "open", "archive": spec},
                     {"kind": "listing"})
                return out
        mar = model_archive(layout, contents)
        stored = job["stored"]
        # correspondence of the numbering of the folder file lists
        py_offset = [[(row[0][1] + j, real) for j, (_, real) in enumerate(row)] for row in ids]
        py_stored = [[(real, real) for _, real in row] for row in ids]
        if ids != (py_stored if stored else py_offset):
            viol("folder file lists numbered %r (offset+index would be %r)" % (ids, py_offset),
                 {"kind": "numbering", "archive": spec}, {"kind": "numbering"})
        if model is not None:
            mi = model.call("sel_folder_ids", [mar, 1 if stored else 0])
            if mi[0] != len(ids) or [[tuple(p) for p in row] for row in mi[1]] != ids:
                viol("folder numbering: implementation %r, model %r" % (ids, mi), {"kind": "numbering", "archive": spec},
                     {"kind": "numbering-model"}, concrete=False)
            cond = model.call("sel_conditions", [mar, 1 if stored else 0])
            if cond[0] != 1 or cond[1] != 1:
                viol("harness archive does not meet wf_archive/prefix_free_names: %r" % (cond,),
                     {"kind": "harness", "archive": spec}, {"kind": "harness"}, concrete=False)
            if (cond[2] == 1) != (not gap or stored):
                viol("ids_consistent of the model (%r) disagrees with the layout (gap=%r)" % (cond[2], gap),
                     {"kind": "harness", "archive": spec}, {"kind": "harness"}, concrete=False)
        # full extraction, both outputs
        full = {}
        for mode in ("factory", "dir"):
            z.reset()
            files, dirs, order, exc = run_impl(z, None, False, mode)
            full[mode] = (files, dirs, order, exc)
        # the cases
        subsets = []
        for r in range(len(names) + 1):
            subsets += [list(c) for c in itertools.combinations(names, r)]
        if tier == "quick":
            nvar = 2 if len(names) <= 5 else 1
        else:
            nvar = NVARIANTS if len(names) <= 6 else 2
        cases = [(None, False, "factory", -1), (None, False, "dir", -1)]
        for si, sub in enumerate(subsets):
            vs = [(si + j * 5) % NVARIANTS for j in range(nvar)] if nvar < NVARIANTS else range(NVARIANTS)
            for v in sorted(set(vs)):
                for rec in (False, True):
                    for mode in ("factory", "dir"):
                        cases.append((present(sub, names, v), rec, mode, v))
        known_reported = False
        ncase = 0
        for T, rec, mode, variant in cases:
            ncase += 1
            if ncase % 16 == 0:
                z.close()
                z = opener()
            else:
                z.reset()
            to_dir = mode == "dir"
            files, dirs, order, exc = run_impl(z, T, rec, mode)
            key = (spec.get("label"), repr(layout), repr(sorted(T) if isinstance(T, set) else T), type(T).__name__,
                   rec, mode)
            nsel = sum(1 for n in names if spec_sel(T, rec, n))
            out["cases"].append((repr(key), 0 < nsel < len(names) or len(names) > 2))
            dist("targets_form", {-1: "None", 0: "list", 1: "set", 2: "list with slashes", 3: "list with absent names",
                                  4: "list reversed with duplicate", 5: "set mixed slashes and absent"}[variant])
            dist("selected_of_members", "%d/%d" % (nsel, len(names)))
            dist("output", mode + (" recursive" if rec else ""))
            replay = {"kind": "case", "archive": spec, "file": bool(tmpf), "targets": jsonable_targets(T),
                      "recursive": rec, "mode": mode}
            want_files, want_dirs = expected(contents, T, rec, to_dir)
            ok_spec = files == want_files and (not to_dir or dirs == want_dirs) and exc is None
            # (3) the model of the code
            model_says = None
            if model is not None:
                mo, mf, md = model_run(model, "sel_impl_extract", mar, T, rec, mode, stored)
                so, sf, sd = model_run(model, "sel_spec_extract", mar, T, rec, mode, stored)
                model_says = (mf, md if to_dir else None)
                agree = files == mf and (not to_dir or dirs == md)
                if agree and not to_dir and not tmpf and order != mo:
                    agree = False
                if (sf, sd if to_dir else set()) != (want_files, want_dirs if to_dir else set()):
                    viol("model specification side disagrees with the harness specification on %r" % (T,), replay,
                         {"kind": "harness"}, concrete=False)
                if not agree:
                    viol("model of the code and implementation disagree: archive %r targets %r recursive %r %s: "
                         "implementation files %r dirs %r order %r exc %r; model files %r dirs %r order %r" % (
                             layout, T, rec, mode, brief(files), dirs, order, exc, brief(mf), md, mo), replay,
                         {"kind": "model-correspondence", "gap": gap}, concrete=not ok_spec)
                elif exc is not None and (mf, md if to_dir else None) == (want_files, want_dirs if to_dir else None):
                    pass  # reported below as an exception
            # (1) the specification
            if not ok_spec:
                predicted = model_says is None or (files == model_says[0] and (not to_dir or dirs == model_says[1]))
                missing_only = exc is None or exc.startswith("FileNotFoundError")
                if gap and not stored and predicted and missing_only:
                    if not known_reported:
                        known_reported = True
                        viol("multi-folder archive with an empty-stream entry between two data members of one folder "
                             "%r: extract(targets=%r, recursive=%r) into %s delivers %r (dirs %r, exception %r), the "
                             "members written are %r" % (layout, T, rec, mode, brief(files), dirs, exc, brief(want_files)), replay,
                             {"kind": "multifolder-empty-entry-id"})
                else:
                    viol("extract(targets=%r, recursive=%r) into %s on %r: delivered %r dirs %r exception %r; "
                         "specified %r dirs %r" % (T, rec, mode, layout, brief(files), dirs, exc, brief(want_files), want_dirs), replay,
                         {"kind": "restriction", "mode": mode, "gap": gap})
            # (2) restriction of what extractall delivered (every archive)
            ff, fd, fo, fexc = full[mode]
            rel = {n: b for n, b in ff.items() if impl_sel(T, rec, n)}
            if files != rel:
                viol("extract(targets=%r, recursive=%r) into %s on %r delivers %r, extractall restricted to the "
                     "targets is %r" % (T, rec, mode, layout, brief(files), brief(rel)), replay,
                     {"kind": "relative-restriction", "mode": mode, "gap": gap})
        try:
            z.close()
        except Exception:  # noqa
            pass
    finally:
        if tmpf:
            try:
                os.remove(tmpf)
            except OSError:
                pass
    return out


# ------------------------------------------------------------------ the archive families
def content(rng, i, n=None):
    n = rng.choice([1, 2, 5, 17, 64, 300]) if n is None else n
    return bytes([65 + i]) * 2 + rng.randbytes(max(0, n - 2))


def name_plan(kinds, rng):
    """names for a list of kinds: directories d<i>; some members placed beneath a directory (also before its
    entry in header order); no name a string prefix of another except along '/'"""
    dirs = ["d%d" % i for i, k in enumerate(kinds) if k == "dir"]
    names = []
    for i, k in enumerate(kinds):
        if k == "dir":
            base = "d%d" % i
            # nested directory below an earlier directory now and then
            prior = [d for d in dirs if d != base and int(d[1:]) < i]
            names.append((rng.choice(prior) + "/" + base) if prior and rng.random() < 0.3 else base)
        else:
            ext = {"data": ".bin", "empty": ".nil"}[k]
            leaf = "f%d%s" % (i, ext if rng.random() < 0.8 else ".")      # a name ending in '.' now and then
            if dirs and rng.random() < 0.6:
                d = rng.choice(dirs)
                leaf = d + "/" + (("sub%d/" % i) if rng.random() < 0.3 else "") + leaf
            names.append(leaf)
    # nested directory names changed the prefix of their children's names: recompute children against final names
    final_dirs = {("d%d" % i): names[i] for i, k in enumerate(kinds) if k == "dir"}
    out = []
    for n, k in zip(names, kinds):
        if k != "dir" and "/" in n:
            head, rest = n.split("/", 1)
            n = final_dirs[head] + "/" + rest
        out.append(n)
    if rng.random() < 0.3:
        out = [n.replace("f", "ä中", 1) if "f" in n else n for n in out]
    return out


def crafted(kinds_folders, rng, label):
    kinds = [k for k, _ in kinds_folders]
    names = name_plan(kinds, rng)
    ents = []
    for i, ((k, f), n) in enumerate(zip(kinds_folders, names)):
        ents.append([n, k, f if k == "data" else 0, content(rng, i).hex() if k == "data" else ""])
    return {"how": "craft", "entries": ents, "label": label}


def families(rng, tier):
    specs = []
    quick = tier == "quick"
    K = ("data", "empty", "dir")
    # A. single folder / no folder, 3 members: every assignment of kinds
    for ks in itertools.product(K, repeat=3):
        specs.append(crafted([(k, 0) for k in ks], rng, "single3"))
    # 4..6 members: an empty entry / directory in every position, plus random assignments
    for n in (4, 5, 6):
        for pos in range(n):
            for k in ("empty", "dir"):
                if quick and n == 6 and k == "empty" and pos % 2:
                    continue
                ks = ["data"] * n
                ks[pos] = k
                if n >= 5:
                    ks[(pos + 2) % n] = "dir" if k == "empty" else "empty"
                specs.append(crafted([(x, 0) for x in ks], rng, "single%d" % n))
        for _ in range(4 if quick else 16):
            ks = [rng.choice(K) for _ in range(n)]
            specs.append(crafted([(x, 0) for x in ks], rng, "single%d-random" % n))
    # B. several folders, empty entries only outside the folders' runs (healthy)
    healthy = [
        [("data", 0), ("data", 0), ("data", 1), ("data", 1)],
        [("data", 0), ("data", 1), ("data", 2)],
        [("dir", 0), ("data", 0), ("data", 0), ("empty", 0), ("data", 1), ("data", 1)],
        [("data", 0), ("dir", 0), ("data", 1), ("data", 1), ("data", 1), ("empty", 0)],
        [("empty", 0), ("data", 0), ("data", 1), ("dir", 0), ("data", 2), ("data", 2)],
        [("data", 0), ("data", 0), ("data", 0), ("dir", 0), ("data", 1), ("dir", 0)],
        [("dir", 0), ("dir", 0), ("data", 0), ("data", 1)],
        [("data", 0), ("empty", 0), ("dir", 0), ("data", 1), ("data", 1)],
    ]
    for lay in healthy:
        specs.append(crafted(lay, rng, "multi-healthy"))
    # C. several folders with an empty-stream entry between two data members of one folder
    gaps = [
        [("data", 0), ("data", 0), ("data", 1), ("dir", 0), ("data", 1), ("data", 1)],     # py7zr's own layout
        [("data", 0), ("data", 1), ("empty", 0), ("data", 1)],                              # data looked up under an empty file
        [("data", 0), ("dir", 0), ("data", 0), ("data", 1)],                                # in the first folder
        [("data", 0), ("data", 1), ("dir", 0), ("empty", 0), ("data", 1), ("data", 1)],
        [("data", 0), ("empty", 0), ("data", 0), ("data", 1), ("dir", 0), ("data", 1)],
    ]
    for lay in gaps:
        specs.append(crafted(lay, rng, "multi-gap"))
    if not quick:
        # larger archives: 7 and 8 members (128 / 256 subsets)
        for n in (7, 8):
            for _ in range(3):
                specs.append(crafted([(rng.choice(K), 0) for _ in range(n)], rng, "single%d-random" % n))
            for gap in (False, False, True):
                nf = rng.choice([2, 3])
                lay = []
                ndata = n - 2
                cuts = sorted(rng.sample(range(1, ndata), nf - 1))
                sizes = [b - a for a, b in zip([0] + cuts, cuts + [ndata])]
                for k, sz in enumerate(sizes):
                    if rng.random() < 0.6:
                        lay.append((rng.choice(("empty", "dir")), 0))
                    lay += [("data", k)] * sz
                while len(lay) < n:
                    lay.append((rng.choice(("empty", "dir")), 0))
                lay = lay[:n] if all(any(x == ("data", k) for x in lay[:n]) for k in range(nf)) else lay
                if gap:
                    big = max(range(nf), key=lambda k: sizes[k])
                    idx = [i for i, x in enumerate(lay) if x == ("data", big)]
                    if len(idx) >= 2:
                        lay.insert(idx[1], (rng.choice(("empty", "dir")), 0))
                specs.append(crafted(lay, rng, "multi-gap" if gap else "multi-healthy"))
    # D. written by py7zr
    def sess(ms):
        return [[n, k, (content(rng, i).hex() if k == "data" else "")] for i, (n, k) in enumerate(ms)]
    chains = ["copy", "lzma2", "deflate", "bzip2", "zstd"] if quick else ["copy", "lzma2", "lzma", "deflate", "bzip2", "zstd",
                                                                          "ppmd", "delta+lzma2", "x86+lzma2"]
    for ch in chains:
        specs.append({"how": "py7zr", "chain": ch, "label": "py7zr-solid-" + ch, "sessions": [sess(
            [("top.txt", "data"), ("dir", "dir"), ("dir/in.bin", "data"), ("zero.dat", "empty"), ("dir/deep/x.bin", "data"),
             ("last.bin", "data")])]})
    specs.append({"how": "py7zr", "chain": "lzma2", "label": "py7zr-sessions", "sessions": [
        sess([("a.txt", "data"), ("b.txt", "data")]), sess([("c.txt", "data"), ("d.txt", "data"), ("e.txt", "data")])]})
    specs.append({"how": "py7zr", "chain": "lzma2", "label": "py7zr-sessions", "sessions": [
        sess([("one.txt", "data")]), sess([("c.txt", "data"), ("sub", "dir"), ("sub/d.txt", "data"), ("e.txt", "data")])]})
    specs.append({"how": "py7zr", "chain": "copy", "label": "py7zr-sessions", "sessions": [
        sess([("s", "dir"), ("s/a.txt", "data"), ("s/b.txt", "data")]), sess([("t", "dir"), ("t/c.txt", "data"), ("t/d.txt", "data")])]})
    specs.append({"how": "py7zr", "chain": "deflate", "label": "py7zr-sessions", "sessions": [
        sess([("a.txt", "data"), ("b.txt", "data")]), sess([("c.txt", "data"), ("d.txt", "data")]),
        sess([("e.txt", "data"), ("f.txt", "data")])]})
    # py7zr's own w(a, b) a(d1; directory; d2 d3)
    specs.append({"how": "py7zr", "chain": "lzma2", "label": "py7zr-sessions-gap", "sessions": [
        sess([("a.txt", "data"), ("b.txt", "data")]),
        sess([("d1/x.txt", "data"), ("d2", "dir"), ("d2/y.txt", "data"), ("d2/z.txt", "data")])]})
    jobs = [{"spec": s, "file": False} for s in specs]
    # E. the same through a file (threaded worker for several folders)
    for s in specs:
        if s["label"] in ("multi-healthy", "multi-gap", "py7zr-sessions", "py7zr-sessions-gap") and (not quick or rng.random() < 0.5):
            jobs.append({"spec": dict(s, label=s["label"] + "-file"), "file": True})
    return jobs


# ------------------------------------------------------------------ probes
GAP_PROBE = {"how": "craft", "label": "probe", "entries": [
    ["a", "data", 0, "41414141"], ["b", "data", 0, "4242"], ["d1", "data", 1, "43434343"], ["e", "dir", 0, ""],
    ["d2", "data", 1, "444444444444"], ["d3", "data", 1, "454545"]]}


def observed_numbering():
    """'offset' (py7zr as it is), 'stored' (repaired), or the ids found"""
    data, _ = build(GAP_PROBE)
    with py7zr.SevenZipFile(io.BytesIO(data)) as z:
        _, ids = observe_layout(z)
    if ids == [[(0, 0), (1, 1)], [(2, 2), (3, 4), (4, 5)]]:
        return "offset"
    if ids == [[(0, 0), (1, 1)], [(2, 2), (4, 4), (5, 5)]]:
        return "stored"
    return ids


PREFIX_PROBE = {"how": "craft", "label": "prefix-probe", "entries": [
    ["sub/x.txt", "data", 0, "5858"], ["sub", "dir", 0, ""], ["other.txt", "data", 0, "4f4f4f"]]}


def run_prefix_case(T, rec):
    data, contents = build(PREFIX_PROBE)
    with py7zr.SevenZipFile(io.BytesIO(data)) as z:
        files, dirs, order, exc = run_impl(z, T, rec, "factory")
    return files, exc, contents


def check_absent_prefix(ctx, rep):
    """an absent target that is a string prefix (not a path prefix) of member names, recursive=True"""
    model = ctx["model"]
    reported = False
    for T, rec in ((["su"], True), (["su"], False), (["sub/x"], True), (["o", "sub/"], True)):
        files, exc, contents = run_prefix_case(T, rec)
        want, _ = expected(contents, T, rec, False)
        rep.count(("prefix", repr(T), rec), nontrivial=True)
        layout = [(e[0], ("data", 0) if e[1] == "data" else (e[1],)) for e in PREFIX_PROBE["entries"]]
        if model is not None:
            mo, mf, md = model_run(model, "sel_impl_extract", model_archive(layout, contents), T, rec, "factory", False)
            if mf != files:
                rep.violation("model of the code and implementation disagree on absent prefix targets %r: %r vs %r" % (
                    T, files, mf), {"kind": "prefix", "targets": T, "recursive": rec}, concrete=False,
                    match_keys={"kind": "model-correspondence"})
        if (files != want or exc is not None) and not reported:
            reported = True
            rep.violation("extract(targets=%r, recursive=%r): %r is not a member name, yet %r delivered (exception %r); "
                          "recursive matching has to go along '/'" % (T, rec, T, sorted(files), exc),
                          {"kind": "prefix", "targets": T, "recursive": rec},
                          match_keys={"kind": "recursive-absent-string-prefix"})


def check_successive_selections(ctx, rep):
    """two selective extractions in ONE read session without reset(), the selections lying in different folders (which works on
    the unchanged tree): each call has to deliver exactly its own targets -- nothing of the earlier selection again"""
    import io
    import random as _r
    import py7zr
    from harness import arch
    rng = _r.Random(ctx["seed"])
    reported = False
    for i in range(6 if ctx["tier"] == "quick" else 60):
        nf = rng.choice([2, 3, 4])
        sessions, contents = [], {}
        for f in range(nf):
            ms = []
            for k in range(rng.choice([1, 2, 3])):
                nm = "f%d/m%d" % (f, k)
                d = arch.pattern_bytes(rng, rng.choice([1, 20, 300]), "text")
                ms.append((nm, d))
                contents[nm] = d
            sessions.append(ms)
        chain = rng.choice(["copy", "lzma2", "deflate"])
        data = arch.make_archive(sessions[0], chain, sessions=[(ms, chain) for ms in sessions[1:]])
        order = list(range(nf))
        rng.shuffle(order)
        picks = [[rng.choice(sessions[f])[0]] if rng.random() < 0.6 else [m[0] for m in sessions[f]] for f in order]
        got, exc = [], None
        try:
            with py7zr.SevenZipFile(io.BytesIO(data), "r") as z:
                for T in picks:
                    fac = arch.Collect()
                    z.extract(targets=list(T), factory=fac)
                    got.append(dict(fac.as_list()))
        except Exception as e:  # noqa
            exc = "%s: %s" % (type(e).__name__, str(e)[:100])
        want = [{n: contents[n] for n in T} for T in picks]
        rep.count(("successive", i, chain, repr(picks)), nontrivial=True)
        if (exc is not None or got != want) and not reported:
            reported = True
            rep.violation("successive extract(targets=...) calls on one session, one folder each %r: delivered %r (exception %r), each call "
                          "has to deliver exactly its targets" % (picks, [sorted(g) for g in got], exc),
                          {"kind": "successive", "archive": data.hex(), "picks": picks}, match_keys={"kind": "successive-selections"})


# ------------------------------------------------------------------ entry points
def run(ctx):
    rep, tier = ctx["rep"], ctx["tier"]
    rng = random.Random(ctx["seed"])
    rep.cov["rule"] = ("exhaustive over targets: every subset of the member names of every archive (3..6 members) x "
                       "recursive x {directory, factory} x forms of passing the targets (list/set, trailing "
                       "slashes, absent names, duplicates; all 6 in the thorough tier); archives: every kind assignment "
                       "of 3 members, an empty file/directory in every position of 4..6 members, several folders with "
                       "and without an empty entry inside a folder's run, py7zr-written sessions; non-trivial = more "
                       "than 2 members or a proper non-empty selection; distinct by (layout, targets, form, flags)")
    num = observed_numbering()
    rep.extra["observed_numbering_of_folder_file_lists"] = num
    if num not in ("offset", "stored"):
        rep.violation("the members of a folder's file list carry ids %r: neither offset+index nor the header index" % (num,),
                      {"kind": "numbering", "archive": GAP_PROBE}, match_keys={"kind": "numbering"})
        num = "offset"
    stored = num == "stored"
    try:
        check_absent_prefix(ctx, rep)
    except Exception as e:  # noqa
        import traceback
        rep.violation("prefix probe raised %s: %s" % (type(e).__name__, e),
                      {"kind": "exception", "trace": traceback.format_exc()[-1500:]}, match_keys={"kind": "exception"})
    jobs = families(rng, tier)
    for i, j in enumerate(jobs):
        j.update({"tier": tier, "seed": ctx["seed"] * 1000 + i, "use_model": ctx["model"] is not None, "stored": stored})
    nproc = min(16, os.cpu_count() or 4)
    gap_found = 0
    with multiprocessing.get_context("fork").Pool(nproc) as pool:
        for res in pool.imap_unordered(explore, jobs, chunksize=1):
            for key, nontrivial in res["cases"]:
                rep.count(key, nontrivial=nontrivial)
            for t, d in res["dist"].items():
                for k, v in d.items():
                    for _ in range(v):
                        rep.dist(t, k)
            for v in res["viol"]:
                if v["match_keys"].get("kind") == "multifolder-empty-entry-id":
                    gap_found += 1
                    if gap_found > 2:
                        continue
                rep.violation(v["what"], v["replay"], concrete=v["concrete"], match_keys=v["match_keys"])
            if res["cases"]:
                rep.sample({"archive": res["label"], "cases": len(res["cases"])})
    rep.extra["archives"] = len(jobs)
    rep.extra["gap_layout_archives_misbehaving"] = gap_found
    try:
        check_successive_selections(ctx, rep)
    except Exception as e:  # noqa
        import traceback
        rep.violation("check_successive_selections raised %s: %s" % (type(e).__name__, e),
                      {"kind": "harness", "trace": traceback.format_exc()[-800:]}, concrete=False, match_keys={"kind": "harness"})


def replay(d):
    r = d["replay"]
    if r.get("kind") == "prefix":
        files, exc, contents = run_prefix_case(r["targets"], r["recursive"])
        want, _ = expected(contents, r["targets"], r["recursive"], False)
        print("delivered", sorted(files), "specified", sorted(want), "exception", exc)
        return 0 if files == want and exc is None else 1
    if r.get("kind") == "numbering":
        print("numbering:", observed_numbering())
        return 0 if observed_numbering() in ("offset", "stored") else 1
    if r.get("kind") == "case":
        data, contents = build(r["archive"])
        T = targets_from_json(r["targets"])
        tmpf = None
        try:
            if r.get("file"):
                fd, tmpf = tempfile.mkstemp(prefix="c09r", suffix=".7z")
                os.write(fd, data)
                os.close(fd)
            with py7zr.SevenZipFile(tmpf if tmpf else io.BytesIO(data)) as z:
                files, dirs, order, exc = run_impl(z, T, r["recursive"], r["mode"])
        finally:
            if tmpf:
                os.remove(tmpf)
        wf, wd = expected(contents, T, r["recursive"], r["mode"] == "dir")
        print("targets", T, "recursive", r["recursive"], "into", r["mode"])
        print("delivered", {k: v[:12] for k, v in files.items()}, "dirs", dirs, "exception", exc)
        print("specified", {k: v[:12] for k, v in wf.items()}, "dirs", wd if r["mode"] == "dir" else None)
        ok = files == wf and (r["mode"] != "dir" or dirs == wd) and exc is None
        return 0 if ok else 1
    print(r)
    return 2
