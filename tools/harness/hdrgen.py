"""hdrgen.py -- translation validation of the header record readers / writers generated from py7zr/archiveinfo.py
(coq/gen/ArchiveinfoRecords.v, extracted into the generated-model executable): each generated function against the
Python method it was generated from, on generated inputs (valid records, truncations, byte flips, random bytes; objects
with inconsistent list lengths and out-of-range values), with the WHOLE object state and the rest of the input compared.

Called from the checks whose theorems are stated over these functions:
  check_readers(ctx, rep, rng, tier)   C06
  check_writers(ctx, rep, rng, tier)   C07
Exceptions: Bad7zFile <-> Err EBad7z (1), UnsupportedCompressionMethodError <-> EUnsupported (4), anything else <-> EOther (6).
"""
import io

import py7zr.archiveinfo as ai
from py7zr.exceptions import Bad7zFile, UnsupportedCompressionMethodError

MAXCOUNT = 20000   # inputs announcing more entries than this are skipped (the Python would allocate / loop for long)


def err_code(e):
    if isinstance(e, Bad7zFile):
        return 1
    if isinstance(e, UnsupportedCompressionMethodError):
        return 4
    return 6


def available(ctx, name):
    import vlib
    return ctx.get("model") is not None and name in vlib.fn_table()


def _violation(rep, what, replay, fn):
    rep.violation(what, dict(replay, kind="translation", fn=fn), concrete=False, match_keys={"kind": "translation", "fn": fn})


# ------------------------------------------------------------------ PackInfo
def packinfo_state(o):
    return [o.packpos, o.numstreams, list(o.packsizes), list(getattr(o, "packpositions", [])), list(o.crcs),
            [bool(x) for x in o.digestdefined], bool(o.enable_digests)]


def packinfo_from_state(st):
    o = ai.PackInfo()
    o.packpos, o.numstreams, o.packsizes, pp, o.crcs, o.digestdefined, o.enable_digests = \
        st[0], st[1], list(st[2]), list(st[3]), list(st[4]), list(st[5]), st[6]
    if pp:
        o.packpositions = pp
    return o


def rnd_u(rng, bits=None):
    bits = bits if bits is not None else rng.choice([0, 1, 7, 8, 14, 21, 32, 56, 63, 64])
    return rng.getrandbits(bits) if bits else 0


def rnd_packinfo(rng, consistent=True):
    n = rng.choice([0, 1, 1, 2, 3, 8, 9, 17])
    sizes = [rnd_u(rng) for _ in range(n)]
    shape = rng.choice(["none", "all", "some", "some"])
    dd = {"none": [False] * n, "all": [True] * n}.get(shape) or [rng.random() < 0.5 for _ in range(n)]
    crcs = [rng.getrandbits(32) if d else 0 for d in dd]
    st = [rnd_u(rng), n, sizes, [], crcs, dd, rng.random() < 0.5]
    if not consistent:
        k = rng.randrange(6)
        if k == 0:
            st[1] = n + rng.choice([-1, 1, 2])
        elif k == 1 and crcs:
            st[4] = crcs[:-1] if rng.random() < 0.5 else crcs + [7]
        elif k == 2:
            st[5] = dd[:-1] if dd and rng.random() < 0.5 else dd + [True]
        elif k == 3 and sizes:
            sizes[rng.randrange(n)] = rng.choice([-1, 1 << 64, (1 << 64) + 5])
        elif k == 4 and crcs:
            i = rng.randrange(n)
            st[4][i] = rng.choice([-1, 1 << 32])
            st[5][i] = True
        else:
            st[0] = rng.choice([-1, 1 << 64])
    return st


def mutate(rng, bs):
    bs = bytearray(bs)
    k = rng.randrange(6)
    if k == 0 and bs:
        return bytes(bs[:rng.randrange(len(bs))])
    if k == 1 and bs:
        bs[rng.randrange(len(bs))] = rng.randrange(256)
    elif k == 2 and bs:
        bs[rng.randrange(len(bs))] ^= 1 << rng.randrange(8)
    elif k == 3:
        bs.insert(rng.randrange(len(bs) + 1), rng.choice([0, 9, 10, 255, rng.randrange(256)]))
    elif k == 4 and bs:
        del bs[rng.randrange(len(bs))]
    else:
        bs += bytes(rng.randrange(256) for _ in range(rng.randrange(1, 5)))
    return bytes(bs)


def _announces_too_many(bs):
    """does a PackInfo body announce more than MAXCOUNT streams (second NUMBER of the record)"""
    try:
        f = io.BytesIO(bs)
        ai.read_uint64(f)
        return ai.read_uint64(f) > MAXCOUNT
    except Exception:  # noqa
        return False


def check_packinfo_read(ctx, rep, rng, tier):
    if not available(ctx, "gen_PackInfo_retrieve"):
        return 0
    model = ctx["model"]
    n = 1500 if tier == "quick" else 40000
    cnt = 0
    inputs = [b"", b"\x00", b"\x00\x00\x00", b"\x05\x00\x00", b"\x00\x01\x09\x07\x00", b"\x00\x01\x09\x07\x0a\x01\x00",
              b"\x00\x02\x09\x07\x08\x0a\x00\x80\x01\x02\x03\x04\x00tail"]
    for i in range(n):
        st = rnd_packinfo(rng)
        buf = io.BytesIO()
        try:
            packinfo_from_state(st).write(buf)
        except Exception:  # noqa
            continue
        body = buf.getvalue()[1:] + bytes(rng.randrange(256) for _ in range(rng.choice([0, 0, 1, 3])))
        inputs.append(body)
        for _ in range(2):
            inputs.append(mutate(rng, body))
        if i % 7 == 0:
            inputs.append(bytes(rng.randrange(256) for _ in range(rng.randrange(0, 12))))
    for bs in inputs:
        if _announces_too_many(bs):
            continue
        f = io.BytesIO(bs)
        try:
            o = ai.PackInfo.retrieve(f)
            want = [0, [packinfo_state(o), list(f.read())]]
        except MemoryError:
            continue
        except Exception as e:  # noqa
            want = [1, err_code(e)]
        got = model.call("gen_PackInfo_retrieve", list(bs))
        if got[0] == 0:
            got = [0, [[got[1][0][0], got[1][0][1], got[1][0][2], got[1][0][3], got[1][0][4], [x == 1 for x in got[1][0][5]],
                       got[1][0][6] == 1], got[1][1]]]
        cnt += 1
        rep.dist("translation_PackInfo_read", "ok" if want[0] == 0 else "err%d" % want[1])
        if got != want:
            _violation(rep, "the function translated from PackInfo._read disagrees with the Python on %s: generated %r, Python %r" % (
                bs.hex(), got, want), {"input": bs.hex()}, "PackInfo._read")
            return cnt
    return cnt


def check_packinfo_write(ctx, rep, rng, tier):
    if not available(ctx, "gen_PackInfo_write"):
        return 0
    model = ctx["model"]
    n = 2500 if tier == "quick" else 60000
    cnt = 0
    for i in range(n):
        st = rnd_packinfo(rng, consistent=(i % 3 != 0))
        o = packinfo_from_state(st)
        buf = io.BytesIO()
        try:
            o.write(buf)
            want = [0, [packinfo_state(o), list(buf.getvalue())]]
        except Exception as e:  # noqa
            want = [1, err_code(e)]
        got = model.call("gen_PackInfo_write", [st[0], st[1], st[2], st[3], st[4], st[5], st[6]])
        if got[0] == 0:
            g = got[1][0]
            got = [0, [[g[0], g[1], g[2], g[3], g[4], [x == 1 for x in g[5]], g[6] == 1], got[1][1]]]
        cnt += 1
        rep.dist("translation_PackInfo_write", "ok" if want[0] == 0 else "err%d" % want[1])
        if got != want:
            _violation(rep, "the function translated from PackInfo.write disagrees with the Python on the object %r: generated %r, "
                            "Python %r" % (st, got, want), {"object": st}, "PackInfo.write")
            return cnt
    return cnt


def check_small_functions(ctx, rep, rng, tier):
    """read_crcs / write_crcs / read_byte / write_byte"""
    if not available(ctx, "gen_read_crcs"):
        return 0
    model = ctx["model"]
    cnt = 0
    for _ in range(300 if tier == "quick" else 5000):
        count = rng.choice([0, 0, 1, 2, 3, 5, 9])
        bs = bytes(rng.randrange(256) for _ in range(rng.choice([4 * count, 4 * count, 4 * count + 2, max(0, 4 * count - 1), rng.randrange(0, 40)])))
        f = io.BytesIO(bs)
        try:
            want = [0, [ai.read_crcs(f, count), list(f.read())]]
        except Exception as e:  # noqa
            want = [1, err_code(e)]
        got = model.call("gen_read_crcs", [list(bs), count])
        cnt += 1
        if got != want:
            _violation(rep, "the function translated from read_crcs disagrees with the Python on (%s, %d): generated %r, Python %r" % (
                bs.hex(), count, got, want), {"input": bs.hex(), "count": count}, "read_crcs")
            return cnt
        crcs = [rng.choice([rng.getrandbits(32), 0, (1 << 32) - 1, -1, 1 << 32]) for _ in range(count)]
        buf = io.BytesIO()
        try:
            ai.write_crcs(buf, crcs)
            want = [0, list(buf.getvalue())]
        except Exception as e:  # noqa
            want = [1, err_code(e)]
        got = model.call("gen_write_crcs", crcs)
        cnt += 1
        if got != want:
            _violation(rep, "the function translated from write_crcs disagrees with the Python on %r: generated %r, Python %r" % (
                crcs, got, want), {"crcs": crcs}, "write_crcs")
            return cnt
        f = io.BytesIO(bs[:3])
        try:
            want = [0, [ai.read_byte(f), list(f.read())]]
        except Exception as e:  # noqa
            want = [1, err_code(e)]
        got = model.call("gen_read_byte", list(bs[:3]))
        data = bs[:rng.choice([0, 1, 1, 2])]
        buf = io.BytesIO()
        try:
            ai.write_byte(buf, data)
            want2 = [0, list(buf.getvalue())]
        except Exception as e:  # noqa
            want2 = [1, err_code(e)]
        got2 = model.call("gen_write_byte", list(data))
        cnt += 2
        if got != want or got2 != want2:
            _violation(rep, "the functions translated from read_byte / write_byte disagree with the Python on %s / %s: generated %r %r, "
                            "Python %r %r" % (bs[:3].hex(), data.hex(), got, got2, want, want2), {"input": bs[:3].hex()}, "read_byte")
            return cnt
    return cnt


# ------------------------------------------------------------------ Folder, UnpackInfo
def coder_state(c):
    return [list(c["method"]), c["numinstreams"], c["numoutstreams"], [] if c["properties"] is None else [list(c["properties"])]]


def folder_state(f):
    return [list(f.unpacksizes), [coder_state(c) for c in f.coders], [[b.incoder, b.outcoder] for b in f.bindpairs],
            list(f.packed_indices), bool(f.solid), bool(f.digestdefined), [] if f.crc is None else [f.crc]]


def folder_from_state(st):
    f = ai.Folder()
    f.unpacksizes = list(st[0])
    f.coders = [{"method": bytes(c[0]), "numinstreams": c[1], "numoutstreams": c[2],
                 "properties": bytes(c[3][0]) if c[3] else None} for c in st[1]]
    f.bindpairs = [ai.Bond(a, b) for a, b in st[2]]
    f.packed_indices = list(st[3])
    f.solid, f.digestdefined, f.crc = st[4], st[5], (st[6][0] if st[6] else None)
    return f


def unpackinfo_state(u):
    return [u.numfolders, [folder_state(f) for f in u.folders], [] if u.datastreamidx is None else [u.datastreamidx]]


def norm_folder_tree(t):
    return [t[0], [[c[0], c[1], c[2], c[3]] for c in t[1]], t[2], t[3], t[4] == 1, t[5] == 1, t[6]]


def rnd_coder(rng, simple=True):
    nin, nout = (1, 1) if simple else (rng.choice([1, 2, 2, 3]), rng.choice([1, 1, 2]))
    method = bytes(rng.randrange(256) for _ in range(rng.choice([1, 1, 3, 4, 15, 16, 17, 0])))
    props = None if rng.random() < 0.4 else bytes(rng.randrange(256) for _ in range(rng.choice([0, 1, 5, 130])))
    return [list(method), nin, nout, [list(props)] if props is not None else []]


def rnd_folder(rng, consistent=True):
    n = rng.choice([1, 1, 1, 2, 3, 4])
    coders = [rnd_coder(rng, simple=rng.random() < 0.8) for _ in range(n)]
    tin, tout = sum(c[1] for c in coders), sum(c[2] for c in coders)
    bonds = [[rng.randrange(0, max(tin, 1)), rng.randrange(0, max(tout, 1))] for _ in range(max(tout - 1, 0))]
    npacked = tin - (tout - 1)
    packed = [rng.randrange(0, max(tin, 1)) for _ in range(max(npacked, 0))]
    us = [rnd_u(rng) for _ in range(tout)]
    st = [us, coders, bonds, packed, False, rng.random() < 0.3, [rng.getrandbits(32)] if rng.random() < 0.5 else []]
    if not consistent:
        k = rng.randrange(4)
        if k == 0 and coders:
            coders[0][1] = rng.choice([-1, 1 << 64, 0])
        elif k == 1 and bonds:
            bonds[0][0] = rng.choice([-1, 1 << 64])
        elif k == 2:
            st[3] = packed + [rng.choice([5, -1, 1 << 64])]
        else:
            st[0] = us + [rng.choice([-3, 1 << 64])]
    return st


class _TooBig(Exception):
    pass


def _num(f, bound=MAXCOUNT):
    v = ai.read_uint64(f)
    if v > bound:
        raise _TooBig()
    return v


def _scan_folder(f):
    """walk a Folder record the way Folder._read does; _TooBig when a number that becomes a loop bound is large (the extracted
    generated code materialises range(n), CPython does not)"""
    nc = _num(f, 2000)
    tin = tout = 0
    for _ in range(nc):
        b = ord(f.read(1))
        f.read(b & 15)
        if b & 0x10:
            tin += _num(f, 5000)
            tout += _num(f, 5000)
        else:
            tin, tout = tin + 1, tout + 1
        if b & 0x20:
            f.read(_num(f, 100000))      # file.read(n): the extracted code computes Z.to_nat n
    for _ in range(tout - 1):
        ai.read_uint64(f)
        ai.read_uint64(f)
    if tin - (tout - 1) != 1:
        for _ in range(tin - (tout - 1)):
            ai.read_uint64(f)
    return tout


def folder_input_ok(bs):
    try:
        _scan_folder(io.BytesIO(bs))
    except _TooBig:
        return False
    except Exception:  # noqa  (the record ends early: so does the real parser, with the counts seen so far below the bound)
        pass
    return True


def unpackinfo_input_ok(bs):
    f = io.BytesIO(bs)
    try:
        if f.read(1) != b"\x0b":
            return True
        nf = _num(f, 300)
        if f.read(1) != b"\x00":
            return True
        for _ in range(nf):
            _scan_folder(f)
    except _TooBig:
        return False
    except Exception:  # noqa
        pass
    return True


def check_folder(ctx, rep, rng, tier):
    if not available(ctx, "gen_Folder_retrieve"):
        return 0
    model = ctx["model"]
    cnt = 0
    inputs = [b"", b"\x00", b"\x01", b"\x01\x00", b"\x01\x01\x21", b"\x01\x21\x21\x01\x18", b"\x02\x01\x00\x01\x03",
              b"\x01\x31\x07\x02\x01\x02\x00\x01\x01\x01", b"\x01\x11\x07\x03\x01\x00\x01\x02"]
    for i in range(700 if tier == "quick" else 20000):
        st = rnd_folder(rng, consistent=(i % 4 != 0))
        f = folder_from_state(st)
        buf = io.BytesIO()
        try:
            f.write(buf)
            want = [0, list(buf.getvalue())]
        except Exception as e:  # noqa
            want = [1, err_code(e)]
        got = model.call("gen_Folder_write", st)
        cnt += 1
        rep.dist("translation_Folder_write", "ok" if want[0] == 0 else "err%d" % want[1])
        if got != want:
            _violation(rep, "the function translated from Folder.write disagrees with the Python on the object %r: generated %r, "
                            "Python %r" % (st, got, want), {"object": st}, "Folder.write")
            return cnt
        if want[0] == 0:
            body = bytes(want[1]) + bytes(rng.randrange(256) for _ in range(rng.choice([0, 0, 2])))
            inputs.append(body)
            inputs.append(mutate(rng, body))
        if i % 9 == 0:
            inputs.append(bytes(rng.randrange(256) for _ in range(rng.randrange(0, 14))))
    for bs in inputs:
        if not folder_input_ok(bs):
            continue
        f = io.BytesIO(bs)
        try:
            o = ai.Folder.retrieve(f)
            want = [0, [folder_state(o), list(f.read())]]
        except (MemoryError, OverflowError):
            continue
        except Exception as e:  # noqa
            want = [1, err_code(e)]
        if want[0] == 0 and (len(want[1][0][2]) > 5000 or len(want[1][0][3]) > 5000):
            continue
        got = model.call("gen_Folder_retrieve", list(bs))
        if got[0] == 0:
            got = [0, [norm_folder_tree(got[1][0]), got[1][1]]]
        cnt += 1
        rep.dist("translation_Folder_read", "ok" if want[0] == 0 else "err%d" % want[1])
        if got != want:
            _violation(rep, "the function translated from Folder._read disagrees with the Python on %s: generated %r, Python %r" % (
                bs.hex(), got, want), {"input": bs.hex()}, "Folder._read")
            return cnt
    return cnt


def rnd_unpackinfo(rng, consistent=True):
    n = rng.choice([0, 1, 1, 2, 3])
    folders = [rnd_folder(rng) for _ in range(n)]
    st = [n, folders, []]
    if not consistent:
        st[0] = n + rng.choice([-1, 1])
    return st


def unpackinfo_from_state(st):
    u = ai.UnpackInfo()
    u.numfolders, u.folders, u.datastreamidx = st[0], [folder_from_state(f) for f in st[1]], (st[2][0] if st[2] else None)
    return u


def check_unpackinfo_write(ctx, rep, rng, tier):
    if not available(ctx, "gen_UnpackInfo_write"):
        return 0
    model = ctx["model"]
    cnt = 0
    for i in range(500 if tier == "quick" else 15000):
        st = rnd_unpackinfo(rng, consistent=(i % 5 != 0))
        with_crcs = rng.random() < 0.4
        buf = io.BytesIO()
        try:
            unpackinfo_from_state(st).write(buf, with_crcs)
            want = [0, list(buf.getvalue())]
        except Exception as e:  # noqa
            want = [1, err_code(e)]
        got = model.call("gen_UnpackInfo_write", [st, with_crcs])
        cnt += 1
        rep.dist("translation_UnpackInfo_write", ("crcs-" if with_crcs else "") + ("ok" if want[0] == 0 else "err%d" % want[1]))
        if got != want:
            _violation(rep, "the function translated from UnpackInfo.write disagrees with the Python on the object %r (with_crcs=%r): "
                            "generated %r, Python %r" % (st, with_crcs, got, want), {"object": st, "with_crcs": with_crcs},
                       "UnpackInfo.write")
            return cnt
    return cnt


def check_unpackinfo_read(ctx, rep, rng, tier):
    if not available(ctx, "gen_UnpackInfo_retrieve"):
        return 0
    model = ctx["model"]
    cnt = 0
    inputs = [b"", b"\x0b", b"\x0b\x00\x00\x0c\x00", b"\x0b\x00\x00\x0c", b"\x0b\x00\x01", b"\x0c", b"\x0b\x01\x00\x01\x01\x21\x0c\x05\x00",
              b"\x0b\x01\x00\x01\x01\x21\x0c\x05\x0a\x01\x78\x56\x34\x12\x00Z", b"\x0b\x01\x00\x01\x01\x21\x0c\x05\x0a\x00\x00\x00"]
    for i in range(500 if tier == "quick" else 15000):
        st = rnd_unpackinfo(rng)
        for f in st[1]:
            f[5] = rng.random() < 0.5
            f[6] = [rng.getrandbits(32)] if f[5] or rng.random() < 0.3 else []
        buf = io.BytesIO()
        try:
            unpackinfo_from_state(st).write(buf, rng.random() < 0.6)
        except Exception:  # noqa
            continue
        body = buf.getvalue()[1:] + bytes(rng.randrange(256) for _ in range(rng.choice([0, 0, 2])))
        inputs.append(body)
        inputs.append(mutate(rng, body))
        inputs.append(mutate(rng, mutate(rng, body)))
    for bs in inputs:
        if not unpackinfo_input_ok(bs):
            continue
        f = io.BytesIO(bs)
        try:
            o = ai.UnpackInfo.retrieve(f)
            want = [0, [unpackinfo_state(o), list(f.read())]]
        except (MemoryError, OverflowError):
            continue
        except Exception as e:  # noqa
            want = [1, err_code(e)]
        if want[0] == 0 and any(len(x[2]) > 3000 or len(x[3]) > 3000 or len(x[0]) > 3000 for x in want[1][0][1]):
            continue
        got = model.call("gen_UnpackInfo_retrieve", list(bs))
        if got == [1, 4]:
            rep.dist("translation_UnpackInfo_read", "external-folder-stream (not translated)")
            continue      # the branch with an external folder stream (file.seek) is not translated: Err EUnsupported
        if got[0] == 0:
            u = got[1][0]
            got = [0, [[u[0], [norm_folder_tree(x) for x in u[1]], u[2]], got[1][1]]]
        cnt += 1
        rep.dist("translation_UnpackInfo_read", "ok" if want[0] == 0 else "err%d" % want[1])
        if got != want:
            _violation(rep, "the function translated from UnpackInfo._read disagrees with the Python on %s: generated %r, Python %r" % (
                bs.hex(), got, want), {"input": bs.hex()}, "UnpackInfo._read")
            return cnt
    return cnt


# ------------------------------------------------------------------ SubstreamsInfo, Folder.get_unpack_size
def sub_state(o):
    return [list(o.digests), [bool(x) for x in o.digestsdefined], [] if o.unpacksizes is None else [list(o.unpacksizes)],
            list(o.num_unpackstreams_folders)]


def sub_from_state(st):
    o = ai.SubstreamsInfo()
    o.digests, o.digestsdefined = list(st[0]), list(st[1])
    o.unpacksizes = list(st[2][0]) if st[2] else None
    o.num_unpackstreams_folders = list(st[3])
    return o


def norm_sub_tree(t):
    return [t[0], [x == 1 for x in t[1]], t[2], t[3]]


def rnd_sub(rng, nfolders, consistent=True):
    nums = [rng.choice([0, 1, 1, 1, 2, 3, 5]) for _ in range(nfolders)]
    if not consistent and nums and rng.random() < 0.3:
        nums[rng.randrange(len(nums))] = rng.choice([-1, -2, 1 << 64])
    total = sum(n for n in nums if 0 < n < 100)
    sizes = [rnd_u(rng) for _ in range(total)]
    dd = [rng.random() < 0.6 for _ in range(total)]
    if rng.random() < 0.2:
        dd = [False] * total
    dg = [rng.getrandbits(32) if d else 0 for d in dd]
    st = [dg, dd, [sizes] if rng.random() < 0.85 else [], nums]
    if not consistent:
        k = rng.randrange(5)
        if k == 0 and sizes:
            st[2] = [sizes[:rng.randrange(len(sizes))]]
        elif k == 1:
            st[0] = dg[:rng.randrange(len(dg) + 1)] + ([rng.choice([-1, 1 << 32])] if rng.random() < 0.5 else [])
        elif k == 2 and sizes:
            sizes[rng.randrange(len(sizes))] = rng.choice([-1, 1 << 64])
        elif k == 3:
            st[1] = dd + [True]
    return st


def check_substreams_write(ctx, rep, rng, tier):
    if not available(ctx, "gen_SubstreamsInfo_write"):
        return 0
    model = ctx["model"]
    cnt = 0
    for i in range(600 if tier == "quick" else 20000):
        st = rnd_sub(rng, rng.choice([0, 1, 1, 2, 3, 4]), consistent=(i % 3 != 0))
        buf = io.BytesIO()
        try:
            sub_from_state(st).write(buf)
            want = [0, list(buf.getvalue())]
        except Exception as e:  # noqa
            want = [1, err_code(e)]
        got = model.call("gen_SubstreamsInfo_write", st)
        cnt += 1
        rep.dist("translation_SubstreamsInfo_write", "ok" if want[0] == 0 else "err%d" % want[1])
        if got != want:
            _violation(rep, "the function translated from SubstreamsInfo.write disagrees with the Python on the object %r: "
                            "generated %r, Python %r" % (st, got, want), {"object": st}, "SubstreamsInfo.write")
            return cnt
    return cnt


def substreams_input_ok(bs, numfolders):
    """counts that become loop bounds in SubstreamsInfo._read stay small"""
    f = io.BytesIO(bs)
    try:
        if f.read(1) == b"\x0d":
            tot = 0
            for _ in range(numfolders):
                tot += _num(f, 3000)
    except _TooBig:
        return False
    except Exception:  # noqa
        pass
    return True


def check_substreams_read(ctx, rep, rng, tier):
    if not available(ctx, "gen_SubstreamsInfo_retrieve"):
        return 0
    model = ctx["model"]
    cnt = 0
    cases = []
    one = rnd_folder(random_fixed(1))
    for bs in [b"", b"\x00", b"\x0d", b"\x09\x00", b"\x0a\x00", b"\x0d\x02\x09\x05\x00", b"\x0d\x02\x09\x05\x0a\x01\x11\x22\x33\x44\x55\x66\x77\x88\x00Z",
               b"\x0d\x00\x00", b"\x0d\x00\x09\x00", b"\x0a\x01\x00", b"\x0a\x00\x80\x01\x02\x03\x04\x00", b"\x01"]:
        cases.append((bs, 1, [one]))
        cases.append((bs, 0, []))
    for i in range(500 if tier == "quick" else 15000):
        nf = rng.choice([0, 1, 1, 2, 3, 4])
        folders = [rnd_folder(rng) for _ in range(nf)]
        for fo in folders:
            fo[5] = rng.random() < 0.5
            fo[6] = [rng.getrandbits(32)] if fo[5] and rng.random() < 0.9 or rng.random() < 0.2 else []
            if rng.random() < 0.05:
                fo[0] = []
        st = rnd_sub(rng, nf)
        buf = io.BytesIO()
        try:
            sub_from_state(st).write(buf)
        except Exception:  # noqa
            continue
        body = buf.getvalue()[1:] + bytes(rng.randrange(256) for _ in range(rng.choice([0, 0, 2])))
        numfolders = nf if rng.random() < 0.9 else nf + rng.choice([-1, 1])
        cases.append((body, numfolders, folders))
        cases.append((mutate(rng, body), numfolders, folders))
        cases.append((mutate(rng, mutate(rng, body)), nf, folders))
    for bs, numfolders, folders in cases:
        if not substreams_input_ok(bs, numfolders):
            continue
        f = io.BytesIO(bs)
        try:
            o = ai.SubstreamsInfo.retrieve(f, numfolders, [folder_from_state(x) for x in folders])
            want = [0, [sub_state(o), list(f.read())]]
        except (MemoryError, OverflowError):
            continue
        except Exception as e:  # noqa
            want = [1, err_code(e)]
        got = model.call("gen_SubstreamsInfo_retrieve", [list(bs), numfolders, folders])
        if got[0] == 0:
            got = [0, [norm_sub_tree(got[1][0]), got[1][1]]]
        cnt += 1
        rep.dist("translation_SubstreamsInfo_read", ("" if numfolders == len(folders) else "count-differs-") + ("ok" if want[0] == 0 else "err%d" % want[1]))
        if got != want:
            _violation(rep, "the function translated from SubstreamsInfo._read disagrees with the Python on %s (numfolders %d, folders %r): "
                            "generated %r, Python %r" % (bs.hex(), numfolders, folders, got, want),
                       {"input": bs.hex(), "numfolders": numfolders, "folders": folders}, "SubstreamsInfo._read")
            return cnt
    return cnt


def random_fixed(seed):
    import random
    return random.Random(seed)


def check_substreams_default(ctx, rep, rng, tier):
    if not available(ctx, "gen_SubstreamsInfo_default"):
        return 0
    model = ctx["model"]
    cnt = 0
    for i in range(300 if tier == "quick" else 8000):
        folders = [rnd_folder(rng, consistent=rng.random() < 0.8) for _ in range(rng.choice([0, 1, 1, 2, 3, 5]))]
        for fo in folders:
            fo[5] = rng.random() < 0.6
            fo[6] = [rng.getrandbits(32)] if rng.random() < 0.7 else []
            if rng.random() < 0.1:
                fo[0] = []
        pf = [folder_from_state(x) for x in folders]
        try:
            want = [0, sub_state(ai.SubstreamsInfo.default(pf))]
        except Exception as e:  # noqa
            want = [1, err_code(e)]
        got = model.call("gen_SubstreamsInfo_default", folders)
        if got[0] == 0:
            got = [0, norm_sub_tree(got[1])]
        cnt += 1
        if got != want:
            _violation(rep, "the function translated from SubstreamsInfo.default disagrees with the Python on the folders %r: "
                            "generated %r, Python %r" % (folders, got, want), {"folders": folders}, "SubstreamsInfo.default")
            return cnt
        for fo, p in zip(folders, pf):
            try:
                want = [0, p.get_unpack_size()]
            except Exception as e:  # noqa
                want = [1, err_code(e)]
            got = model.call("gen_Folder_get_unpack_size", fo)
            cnt += 1
            rep.dist("translation_get_unpack_size", "ok" if want[0] == 0 else "err%d" % want[1])
            if got != want:
                _violation(rep, "the function translated from Folder.get_unpack_size disagrees with the Python on the folder %r: "
                                "generated %r, Python %r" % (fo, got, want), {"folder": fo}, "Folder.get_unpack_size")
                return cnt
    return cnt


# ------------------------------------------------------------------ StreamsInfo
def norm_pack_tree(t):
    return [t[0], t[1], t[2], t[3], t[4], [x == 1 for x in t[5]], t[6] == 1]


def streams_state(o):
    return [[] if o.packinfo is None else [packinfo_state(o.packinfo)],
            [] if o.unpackinfo is None else [unpackinfo_state(o.unpackinfo)],
            [] if o.substreamsinfo is None else [sub_state(o.substreamsinfo)]]


def streams_from_state(st):
    o = ai.StreamsInfo()
    o.packinfo = packinfo_from_state(st[0][0]) if st[0] else None
    o.unpackinfo = unpackinfo_from_state(st[1][0]) if st[1] else None
    o.substreamsinfo = sub_from_state(st[2][0]) if st[2] else None
    return o


def norm_streams_tree(t):
    return [[norm_pack_tree(x) for x in t[0]], [[u[0], [norm_folder_tree(x) for x in u[1]], u[2]] for u in t[1]],
            [norm_sub_tree(x) for x in t[2]]]


def rnd_streams(rng, consistent=True):
    up = rnd_unpackinfo(rng, consistent=consistent or rng.random() < 0.5)
    for f in up[1]:
        f[5] = rng.random() < 0.4
        f[6] = [rng.getrandbits(32)] if f[5] else []
    pk = rnd_packinfo(rng, consistent=consistent or rng.random() < 0.5)
    pk[0] = rnd_u(rng, rng.choice([0, 7, 14]))
    st = [[pk] if rng.random() < 0.85 else [], [up] if rng.random() < 0.85 else [], []]
    if rng.random() < 0.8:
        st[2] = [rnd_sub(rng, len(up[1]), consistent=consistent or rng.random() < 0.5)]
    if rng.random() < 0.8:
        # mostly small sizes: the read check skips inputs in which any NUMBER is large (see with_number_guard)
        small = lambda l: [x % 16384 if x > 0 else x for x in l]
        pk[2] = small(pk[2])
        for f in up[1]:
            f[0] = small(f[0])
        if st[2] and st[2][0][2]:
            st[2][0][2] = [small(st[2][0][2][0])]
    return st


def with_number_guard(fn):
    """run fn(); also the largest NUMBER archiveinfo.read_uint64 returned meanwhile (the extracted generated code
    materialises range(n) and Z.to_nat n for file.read(n); CPython does not)"""
    orig = ai.read_uint64
    seen = [0]

    def w(f):
        v = orig(f)
        seen[0] = max(seen[0], v)
        return v
    ai.read_uint64 = w
    try:
        try:
            r = [0, fn()]
        except (MemoryError, OverflowError):
            r = None
        except Exception as e:  # noqa
            r = [1, err_code(e)]
    finally:
        ai.read_uint64 = orig
    return r, seen[0]


def check_streams_read(ctx, rep, rng, tier):
    if not available(ctx, "gen_StreamsInfo_retrieve"):
        return 0
    model = ctx["model"]
    cnt = 0
    inputs = [b"", b"\x00", b"\x06", b"\x07", b"\x08\x00", b"\x06\x00\x00\x00\x00", b"\x07\x0b\x00\x00\x0c\x00\x00",
              b"\x06\x00\x01\x09\x05\x00\x07\x0b\x01\x00\x01\x01\x21\x0c\x05\x00\x08\x00\x00rest",
              b"\x06\x00\x01\x09\x05\x00\x08\x00\x00", b"\x07\x0b\x01\x00\x01\x01\x21\x0c\x05\x00\x08\x0d\x02\x09\x03\x00\x00",
              b"\x07\x0b\x01\x00\x01\x01\x21\x0c\x05\x0a\x01\x11\x22\x33\x44\x00\x08\x0d\x02\x09\x03\x0a\x00\xc0\x01\x02\x03\x04\x05\x06\x07\x08\x00\x00"]
    for i in range(400 if tier == "quick" else 5000):
        st = rnd_streams(rng)
        buf = io.BytesIO()
        try:
            streams_from_state(st).write(buf)
        except Exception:  # noqa
            continue
        body = buf.getvalue()[1:] + bytes(rng.randrange(256) for _ in range(rng.choice([0, 0, 2])))
        inputs.append(body)
        inputs.append(mutate(rng, body))
        inputs.append(mutate(rng, mutate(rng, body)))
    for k in _iters(len(inputs), 120):       # a mutated count of thousands makes single cases slow
        bs = inputs[k]
        f = io.BytesIO(bs)
        want, big = with_number_guard(lambda: ai.StreamsInfo.retrieve(f))
        if want is None or big > MAXCOUNT:
            continue
        if want[0] == 0:
            want = [0, [streams_state(want[1]), list(f.read())]]
        got = model.call("gen_StreamsInfo_retrieve", list(bs))
        if got == [1, 4]:
            rep.dist("translation_StreamsInfo_read", "external-folder-stream (not translated)")
            continue
        if got[0] == 0:
            got = [0, [norm_streams_tree(got[1][0]), got[1][1]]]
        cnt += 1
        rep.dist("translation_StreamsInfo_read", "ok" if want[0] == 0 else "err%d" % want[1])
        if got != want:
            _violation(rep, "the function translated from StreamsInfo.read disagrees with the Python on %s: generated %r, Python %r" % (
                bs.hex(), got, want), {"input": bs.hex()}, "StreamsInfo.read")
            return cnt
    return cnt


def check_streams_write(ctx, rep, rng, tier):
    if not available(ctx, "gen_StreamsInfo_write"):
        return 0
    model = ctx["model"]
    cnt = 0
    for i in range(400 if tier == "quick" else 12000):
        st = rnd_streams(rng, consistent=(i % 4 != 0))
        o = streams_from_state(st)
        buf = io.BytesIO()
        try:
            o.write(buf)
            want = [0, [streams_state(o), list(buf.getvalue())]]
        except Exception as e:  # noqa
            want = [1, err_code(e)]
        got = model.call("gen_StreamsInfo_write", st)
        if got[0] == 0:
            got = [0, [norm_streams_tree(got[1][0]), got[1][1]]]
        cnt += 1
        rep.dist("translation_StreamsInfo_write", "ok" if want[0] == 0 else "err%d" % want[1])
        if got != want:
            _violation(rep, "the function translated from StreamsInfo.write disagrees with the Python on the object %r: "
                            "generated %r, Python %r" % (st, got, want), {"object": st}, "StreamsInfo.write")
            return cnt
    return cnt


# ------------------------------------------------------------------ FilesInfo pieces (names, times, attributes)
TIME_KEYS = ["creationtime", "lastaccesstime", "lastwritetime"]


def _ooz(d, k):
    return [] if k not in d else [[] if d[k] is None else [int(d[k])]]


def entry_state(d):
    return [bool(d["emptystream"]), [] if "emptyfile" not in d else [bool(d["emptyfile"])],
            [] if "filename" not in d else [[ord(c) for c in d["filename"]]],
            _ooz(d, "creationtime"), _ooz(d, "lastaccesstime"), _ooz(d, "lastwritetime"), _ooz(d, "attributes")]


def entry_from_state(st):
    d = {"emptystream": st[0]}
    if st[1]:
        d["emptyfile"] = st[1][0]
    if st[2]:
        d["filename"] = "".join(chr(c) for c in st[2][0])
    for k, v in zip(TIME_KEYS + ["attributes"], st[3:]):
        if v:
            d[k] = v[0][0] if v[0] else None
    return d


def norm_entry_tree(t):
    return [t[0] == 1, [x == 1 for x in t[1]], t[2], t[3], t[4], t[5], t[6]]


def filesinfo_state(o):
    return [[entry_state(d) for d in o.files], [bool(x) for x in o.emptyfiles]]


def filesinfo_from_state(st):
    o = ai.FilesInfo()
    o.files = [entry_from_state(e) for e in st[0]]
    o.emptyfiles = list(st[1])
    return o


def norm_filesinfo_tree(t):
    return [[norm_entry_tree(e) for e in t[0]], [x == 1 for x in t[1]]]


NAME_CHARS = [0x41, 0x62, 0x2E, 0x5C, 0x2F, 0x20, 0xE9, 0x4E2D, 0xFFFF, 0x10000, 0x1F600, 0x10FFFF]


def rnd_ooz(rng, bits, odd=False):
    r = rng.random()
    if r < 0.2:
        return []
    if r < 0.4:
        return [[]]
    v = rng.getrandbits(rng.choice([1, 8, bits, bits]))
    if odd and rng.random() < 0.3:
        v = rng.choice([-1, 1 << bits, (1 << bits) + 7])
    return [[v]]


def rnd_entry(rng, consistent=True):
    name = [rng.choice(NAME_CHARS) for _ in range(rng.choice([0, 1, 1, 3, 6]))]
    if not consistent and rng.random() < 0.3:
        name.append(rng.choice([0xD800, 0xDC00, 0]))
    return [rng.random() < 0.4, [] if rng.random() < 0.5 else [rng.random() < 0.5], [] if rng.random() < 0.15 else [name],
            rnd_ooz(rng, 64, not consistent), rnd_ooz(rng, 64, not consistent), rnd_ooz(rng, 64, not consistent),
            rnd_ooz(rng, 32, not consistent)]


def rnd_filesinfo(rng, consistent=True):
    n = rng.choice([0, 1, 1, 2, 3, 5, 9])
    st = [[rnd_entry(rng, consistent) for _ in range(n)], [rng.random() < 0.5 for _ in range(rng.choice([0, 0, 1, 3]))]]
    shape = rng.random()
    if shape < 0.25:       # every entry has every value (the "all defined" form of the vectors)
        for e in st[0]:
            for i in (3, 4, 5, 6):
                e[i] = [[rng.getrandbits(32)]]
    elif shape < 0.35:
        for e in st[0]:
            for i in (3, 4, 5, 6):
                e[i] = []
    return st


def check_files_write_pieces(ctx, rep, rng, tier):
    if not available(ctx, "gen_FilesInfo_write_piece"):
        return 0
    model = ctx["model"]
    cnt = 0
    for i in range(500 if tier == "quick" else 15000):
        st = rnd_filesinfo(rng, consistent=(i % 4 != 0))
        for op, nm in enumerate(["_write_names", "_write_attributes", "creationtime", "lastaccesstime", "lastwritetime"]):
            o = filesinfo_from_state(st)
            propid = bytes([rng.choice([18, 19, 20, 0, 255])])
            buf = io.BytesIO()
            try:
                if op < 2:
                    getattr(o, nm)(buf)
                else:
                    o._write_times(buf, propid, nm)
                want = [0, list(buf.getvalue())]
            except Exception as e:  # noqa
                want = [1, err_code(e)]
            got = model.call("gen_FilesInfo_write_piece", [op, st, list(propid)])
            cnt += 1
            rep.dist("translation_FilesInfo_write_pieces", "%s %s" % (nm, "ok" if want[0] == 0 else "err%d" % want[1]))
            if got != want or filesinfo_state(o) != st:
                _violation(rep, "the function translated from FilesInfo.%s disagrees with the Python on the object %r: generated %r, "
                                "Python %r" % (nm if op < 2 else "_write_times(%s)" % nm, st, got, want), {"object": st, "piece": nm},
                           "FilesInfo._write pieces")
                return cnt
        v = [rng.random() < 0.3 for _ in range(rng.randrange(0, 6))]
        got = model.call("gen_FilesInfo_are_there", v)
        cnt += 1
        if got != [0, 1 if ai.FilesInfo._are_there(v) else 0]:
            _violation(rep, "the function translated from FilesInfo._are_there disagrees with the Python on %r: %r" % (v, got),
                       {"vector": v}, "FilesInfo._are_there")
            return cnt
    for i in range(300 if tier == "quick" else 8000):
        cps = [rng.choice(NAME_CHARS + [0xD800, 0xDFFF, 0]) for _ in range(rng.randrange(0, 6))]
        buf = io.BytesIO()
        try:
            ai.write_utf16(buf, "".join(chr(c) for c in cps))
            want = [0, list(buf.getvalue())]
        except Exception as e:  # noqa
            want = [1, err_code(e)]
        got = model.call("gen_write_utf16", cps)
        cnt += 1
        if got != want:
            _violation(rep, "the function translated from write_utf16 disagrees with the Python on %r: generated %r, Python %r" % (
                cps, got, want), {"codepoints": cps}, "write_utf16")
            return cnt
    return cnt


def _iters(n, budget_s):
    """0 .. n-1, cut short once budget_s seconds have gone by: the two FilesInfo reader loops cost 6-25 ms a case (several
    model calls per object), the sizes below keep the thorough tier's translation validation within ~10 minutes and this is the
    safety net on a slow or loaded machine"""
    import time
    t0 = time.time()
    for i in range(n):
        if i % 16 == 0 and time.time() - t0 > budget_s:
            return
        yield i


def check_files_read_pieces(ctx, rep, rng, tier):
    if not available(ctx, "gen_FilesInfo_read_piece"):
        return 0
    model = ctx["model"]
    cnt = 0
    for i in _iters(120 if tier == "quick" else 800, 150):
        st = rnd_filesinfo(rng)
        n = len(st[0])
        # --- names
        buf = io.BytesIO()
        for e in st[0]:
            try:
                ai.write_utf16(buf, "".join(chr(c) for c in (e[2][0] if e[2] else [0x78])))
            except Exception:  # noqa
                pass
        body = buf.getvalue() + bytes(rng.randrange(256) for _ in range(rng.choice([0, 0, 3])))
        for bs in (body, mutate(rng, body), body[:rng.randrange(len(body) + 1)]):
            # read_utf16 alone
            f = io.BytesIO(bs)
            try:
                v = ai.read_utf16(f)
                want = [0, [[ord(c) for c in v], list(f.read())]]
            except Exception as e:  # noqa
                want = [1, err_code(e)]
            got = model.call("gen_read_utf16", list(bs))
            cnt += 1
            if got != want:
                _violation(rep, "the function translated from read_utf16 disagrees with the Python on %s: generated %r, Python %r" % (
                    bs.hex(), got, want), {"input": bs.hex()}, "read_utf16")
                return cnt
            o = filesinfo_from_state(st)
            f = io.BytesIO(bs)
            try:
                o._read_name(f)
                want = [0, [filesinfo_state(o), list(f.read())]]
            except Exception as e:  # noqa
                want = [1, err_code(e)]
            got = model.call("gen_FilesInfo_read_piece", [0, st, list(bs), []])
            if got[0] == 0:
                got = [0, [norm_filesinfo_tree(got[1][0]), got[1][1]]]
            cnt += 1
            rep.dist("translation_FilesInfo_read_pieces", "_read_name %s" % ("ok" if want[0] == 0 else "err%d" % want[1]))
            if got != want:
                _violation(rep, "the function translated from FilesInfo._read_name disagrees with the Python on %s (object %r): "
                                "generated %r, Python %r" % (bs.hex(), st, got, want), {"input": bs.hex(), "object": st}, "FilesInfo._read_name")
                return cnt
        # --- attributes and times
        for op, nm, width in ((1, "attributes", 4), (2, "creationtime", 8), (3, "lastaccesstime", 8), (4, "lastwritetime", 8)):
            defined = [rng.random() < 0.6 for _ in range(n)]
            if rng.random() < 0.25:
                defined = [True] * n
            vals = b"".join(bytes(rng.randrange(256) for _ in range(width)) for d in defined if d)
            if op == 1:
                dl = list(defined) if rng.random() < 0.8 else defined[:-1] if defined else [True]
                inputs = [(vals + b"zz", dl), (vals[:rng.randrange(len(vals) + 1)], dl)]
            else:
                buf = io.BytesIO()
                ai.write_boolean(buf, defined, all_defined=True)
                body = buf.getvalue() + b"\x00" + vals + bytes(rng.randrange(256) for _ in range(rng.choice([0, 2])))
                inputs = [(body, []), (mutate(rng, body), []), (body[:rng.randrange(len(body) + 1)], [])]
            for bs, dl in inputs:
                o = filesinfo_from_state(st)
                f = io.BytesIO(bs)
                try:
                    if op == 1:
                        o._read_attributes(f, dl)
                    else:
                        o._read_times(f, nm)
                    want = [0, [filesinfo_state(o), list(f.read())]]
                except Exception as e:  # noqa
                    want = [1, err_code(e)]
                got = model.call("gen_FilesInfo_read_piece", [op, st, list(bs), dl])
                if got[0] == 0:
                    got = [0, [norm_filesinfo_tree(got[1][0]), got[1][1]]]
                cnt += 1
                rep.dist("translation_FilesInfo_read_pieces", "%s %s" % (nm, "ok" if want[0] == 0 else "err%d" % want[1]))
                if got != want:
                    _violation(rep, "the function translated from FilesInfo._read_%s disagrees with the Python on %s (object %r, defined %r): "
                                    "generated %r, Python %r" % ("attributes" if op == 1 else "times(%s)" % nm, bs.hex(), st, dl, got, want),
                               {"input": bs.hex(), "object": st, "defined": dl, "piece": nm}, "FilesInfo._read pieces")
                    return cnt
    return cnt


def check_files_read(ctx, rep, rng, tier):
    """FilesInfo._read as a whole: real records written by FilesInfo.write, mutated / truncated"""
    if not available(ctx, "gen_FilesInfo_retrieve"):
        return 0
    model = ctx["model"]
    cnt = 0
    inputs = [b"", b"\x00", b"\x00\x00", b"\x01\x00", b"\x02\x0e\x01\x80\x00", b"\x02\x0e\x01\xc0\x0f\x01\x80\x00rest", b"\x01\x19\x02\x00\x00\x00",
              b"\x01\x11\x05\x00\x61\x00\x00\x00\x00", b"\x01\x11\x05\x01\x61\x00\x00\x00\x00", b"\x01\x18\x01\x00\x00", b"\x01\x63\x00\x00",
              b"\x01\x15\x06\x01\x00\x20\x00\x00\x00\x00", b"\x01\x14\x0a\x01\x00\x01\x02\x03\x04\x05\x06\x07\x08\x00", b"\x01\x19\x05\x00"]
    for i in _iters(150 if tier == "quick" else 600, 120):
        st = rnd_filesinfo(rng)
        for e in st[0]:
            e[1] = [rng.random() < 0.5] if e[0] and rng.random() < 0.7 else []
        o = filesinfo_from_state(st)
        buf = io.BytesIO()
        buf.write(bytes(rng.randrange(4)))      # the padding depends on the position
        pos = buf.tell()
        try:
            o.write(buf)
        except Exception:  # noqa
            continue
        body = buf.getvalue()[pos + 1:] + bytes(rng.randrange(256) for _ in range(rng.choice([0, 0, 2])))
        inputs.append(body)
        inputs.append(mutate(rng, body))
        inputs.append(mutate(rng, mutate(rng, body)))
        inputs.append(body[:rng.randrange(len(body) + 1)])
    for bs in inputs:
        try:
            if ai.read_uint64(io.BytesIO(bs)) > MAXCOUNT:      # numfiles: the Python itself would build that many dicts
                continue
        except Exception:  # noqa
            pass
        f = io.BytesIO(bs)
        want, big = with_number_guard(lambda: ai.FilesInfo.retrieve(f))
        if want is None or big > MAXCOUNT:
            continue
        if want[0] == 0:
            want = [0, [filesinfo_state(want[1]), list(f.read())]]
        got = model.call("gen_FilesInfo_retrieve", list(bs))
        if got == [1, 4]:
            rep.dist("translation_FilesInfo_read", "external names / attributes or START_POS (not translated)")
            continue
        if got[0] == 0:
            got = [0, [norm_filesinfo_tree(got[1][0]), got[1][1]]]
        cnt += 1
        rep.dist("translation_FilesInfo_read", "ok" if want[0] == 0 else "err%d" % want[1])
        if got != want:
            _violation(rep, "the function translated from FilesInfo._read disagrees with the Python on %s: generated %r, Python %r" % (
                bs.hex(), got, want), {"input": bs.hex()}, "FilesInfo._read")
            return cnt
    return cnt


def check_files_write(ctx, rep, rng, tier):
    """FilesInfo.write as a whole, at every alignment of the start position"""
    if not available(ctx, "gen_FilesInfo_write"):
        return 0
    model = ctx["model"]
    cnt = 0
    for i in range(600 if tier == "quick" else 20000):
        st = rnd_filesinfo(rng, consistent=(i % 5 != 0))
        for e in st[0]:
            e[1] = [rng.random() < 0.5] if rng.random() < 0.6 else []
        o = filesinfo_from_state(st)
        pos = rng.choice([0, 1, 2, 3, 32, 33, 1000003, rng.getrandbits(20)])
        buf = io.BytesIO()
        buf.write(bytes(pos))
        try:
            o.write(buf)
            want = [0, list(buf.getvalue()[pos:])]
        except Exception as e:  # noqa
            want = [1, err_code(e)]
        got = model.call("gen_FilesInfo_write", [st, pos])
        cnt += 1
        rep.dist("translation_FilesInfo_write", "pos%%4=%d %s" % (pos % 4, "ok" if want[0] == 0 else "err%d" % want[1]))
        if got != want or filesinfo_state(o) != st:
            _violation(rep, "the function translated from FilesInfo.write disagrees with the Python on the object %r at position %d: "
                            "generated %r, Python %r" % (st, pos, got, want), {"object": st, "pos": pos}, "FilesInfo.write")
            return cnt
    return cnt


# ------------------------------------------------------------------ SignatureHeader (writer side)
def sig_state(o):
    return [[list(o.version[0]), list(o.version[1])], o.startheadercrc, o.nextheaderofs, o.nextheadersize, o.nextheadercrc]


def sig_from_state(st):
    o = ai.SignatureHeader()
    o.version = (bytes(st[0][0]), bytes(st[0][1]))
    o.startheadercrc, o.nextheaderofs, o.nextheadersize, o.nextheadercrc = st[1], st[2], st[3], st[4]
    return o


def check_sig_write(ctx, rep, rng, tier):
    if not available(ctx, "gen_SignatureHeader_write"):
        return 0
    model = ctx["model"]
    cnt = 0

    def val(bits):
        r = rng.random()
        if r < 0.1:
            return rng.choice([-1, 0, 1 << bits, (1 << bits) - 1])
        return rng.getrandbits(rng.choice([1, 8, bits]))
    for i in range(500 if tier == "quick" else 15000):
        ver = [[0], [4]] if rng.random() < 0.8 else [[rng.randrange(256) for _ in range(rng.choice([0, 1, 2]))], [rng.randrange(256)]]
        st = [ver, val(32), val(64), val(64), val(32)]
        # calccrc
        o = sig_from_state(st)
        length, hcrc = val(64), val(32)
        try:
            o.calccrc(length, hcrc)
            want = [0, sig_state(o)]
        except Exception as e:  # noqa
            want = [1, err_code(e)]
        got = model.call("gen_SignatureHeader_calccrc", [st, length, hcrc])
        cnt += 1
        rep.dist("translation_SignatureHeader", "calccrc %s" % ("ok" if want[0] == 0 else "err%d" % want[1]))
        if got != want:
            _violation(rep, "the function translated from SignatureHeader.calccrc disagrees with the Python on %r, %r, %r: generated %r, "
                            "Python %r" % (st, length, hcrc, got, want), {"object": st, "length": length, "crc": hcrc}, "SignatureHeader.calccrc")
            return cnt
        # write (after calccrc when that worked: the state a real session has), _write_skeleton
        st2 = want[1] if want[0] == 0 and rng.random() < 0.7 else st
        for fn, meth in (("gen_SignatureHeader_write", "write"), ("gen_SignatureHeader_write_skeleton", "_write_skeleton")):
            o = sig_from_state(st2)
            buf = io.BytesIO(b"\xee" * 40)
            buf.seek(rng.choice([0, 5, 40]))
            try:
                getattr(o, meth)(buf)
                data = buf.getvalue()
                n = buf.tell()
                want = [0, list(data[:n])] if data[n:] == b"\xee" * (40 - n) else [2, "the method did not write from offset 0"]
            except Exception as e:  # noqa
                want = [1, err_code(e)]
            got = model.call(fn, st2)
            cnt += 1
            rep.dist("translation_SignatureHeader", "%s %s" % (meth, "ok" if want[0] == 0 else "err%s" % want[1]))
            if got != want:
                _violation(rep, "the function translated from SignatureHeader.%s disagrees with the Python on %r: generated %r, Python %r" % (
                    meth, st2, got, want), {"object": st2, "method": meth}, "SignatureHeader." + meth)
                return cnt
    return cnt


def check_sig_read(ctx, rep, rng, tier):
    """SignatureHeader._read on whole file images: valid start headers, wrong CRCs, short files; the file object may be
    positioned anywhere (the method seeks to offset 6 itself)"""
    if not available(ctx, "gen_SignatureHeader_retrieve"):
        return 0
    import struct
    import zlib
    model = ctx["model"]
    cnt = 0
    for i in range(600 if tier == "quick" else 20000):
        ofs, size, hcrc = rng.getrandbits(rng.choice([8, 40, 64])), rng.getrandbits(rng.choice([8, 40, 64])), rng.getrandbits(32)
        start = struct.pack("<QQL", ofs, size, hcrc)
        img = bytes(rng.randrange(256) for _ in range(6)) + bytes([rng.randrange(256), rng.randrange(256)]) + \
            struct.pack("<L", zlib.crc32(start)) + start + bytes(rng.randrange(256) for _ in range(rng.choice([0, 0, 5, 100])))
        r = rng.random()
        if r < 0.25:
            img = mutate(rng, img)
        elif r < 0.45:
            img = img[:rng.randrange(len(img) + 1)]
        f = io.BytesIO(img)
        f.seek(rng.choice([0, 0, 3, len(img)]))
        try:
            o = ai.SignatureHeader.retrieve(f)
            want = [0, sig_state(o)]
        except Exception as e:  # noqa
            want = [1, err_code(e)]
        got = model.call("gen_SignatureHeader_retrieve", list(img))
        if got[0] == 0:
            got = [0, got[1][0]]
        cnt += 1
        rep.dist("translation_SignatureHeader_read", ("short " if len(img) < 32 else "") + ("ok" if want[0] == 0 else "err%d" % want[1]))
        if got != want:
            _violation(rep, "the function translated from SignatureHeader._read disagrees with the Python on the file %s: generated %r, "
                            "Python %r" % (img.hex(), got, want), {"input": img.hex()}, "SignatureHeader._read")
            return cnt
    return cnt


def check_hdrstreams_write(ctx, rep, rng, tier):
    """HeaderStreamsInfo.write (the descriptor of an encoded header): PackInfo.write then UnpackInfo.write(with_crcs=True)"""
    if not available(ctx, "gen_HeaderStreamsInfo_write"):
        return 0
    model = ctx["model"]
    cnt = 0
    for i in range(300 if tier == "quick" else 10000):
        st = rnd_streams(rng, consistent=(i % 4 != 0))
        if rng.random() < 0.6:          # the shape Header._encode_header builds: one stream, one folder with its CRC
            pk = rnd_packinfo(rng)
            pk[1], pk[2], pk[4], pk[5], pk[6] = 1, [rnd_u(rng, 20)], [rng.getrandbits(32)], [], False
            fo = rnd_folder(rng)
            fo[5], fo[6] = True, [rng.getrandbits(32)]
            st = [[pk], [[1, [fo], []]], []]
        o = ai.HeaderStreamsInfo()
        o.packinfo = packinfo_from_state(st[0][0]) if st[0] else None
        o.unpackinfo = unpackinfo_from_state(st[1][0]) if st[1] else None
        o.substreamsinfo = sub_from_state(st[2][0]) if st[2] else None
        buf = io.BytesIO()
        try:
            o.write(buf)
            want = [0, [streams_state(o), list(buf.getvalue())]]
        except Exception as e:  # noqa
            want = [1, err_code(e)]
        got = model.call("gen_HeaderStreamsInfo_write", st)
        if got[0] == 0:
            got = [0, [norm_streams_tree(got[1][0]), got[1][1]]]
        cnt += 1
        rep.dist("translation_HeaderStreamsInfo_write", "ok" if want[0] == 0 else "err%d" % want[1])
        if got != want:
            _violation(rep, "the function translated from HeaderStreamsInfo.write disagrees with the Python on the object %r: "
                            "generated %r, Python %r" % (st, got, want), {"object": st}, "HeaderStreamsInfo.write")
            return cnt
    return cnt


READER_PARTS = [check_packinfo_read, check_small_functions, check_folder, check_unpackinfo_read, check_substreams_read,
                check_substreams_default, check_streams_read, check_files_read_pieces, check_files_read, check_sig_read]
WRITER_PARTS = [check_packinfo_write, check_small_functions, check_folder, check_unpackinfo_write, check_substreams_write, check_streams_write, check_files_write_pieces, check_files_write, check_sig_write, check_hdrstreams_write]


def _run(ctx, rep, rng, tier, parts, label):
    import traceback
    from harness import prims
    if ctx.get("model") is None:
        return
    prims.check_prims(ctx, rep)
    total = 0
    import time
    t0 = time.time()
    for part in parts:
        try:
            total += part(ctx, rep, rng, tier)
        except Exception as e:  # noqa
            rep.violation("%s raised %s: %s" % (part.__name__, type(e).__name__, e),
                          {"kind": "exception", "part": part.__name__, "trace": traceback.format_exc()[-1500:]},
                          concrete=False, match_keys={"kind": "exception", "part": part.__name__})
    rep.extra["translation_validation_cases_" + label] = total
    rep.extra["translation_validation_seconds_" + label] = round(time.time() - t0, 1)
    rep.count(("translation", label, total), nontrivial=True, n=total)


def check_readers(ctx, rep, rng, tier):
    _run(ctx, rep, rng, tier, READER_PARTS, "readers")


def check_writers(ctx, rep, rng, tier):
    _run(ctx, rep, rng, tier, WRITER_PARTS, "writers")
