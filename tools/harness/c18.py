"""C18 -- progress callbacks give a complete, well-ordered account.

Tie between coq/theories/Events.v and py7zr/py7zr.py:
  * every case is a real extraction with an ExtractCallback.  The archive object's event queue is replaced by a
    recording queue (SchedQueue) that (a) logs every put with the producing thread in true queue order, (b) can
    force the order in which the folder worker threads enqueue (the `sched` of the model), (c) can hold the reporter
    thread back until close() posts the sentinel;
  * Worker.decompress, SevenZipDecompressor.decompress and the clock read by Worker.decompress are wrapped so that
    the inputs of the update loop (chunk lengths, clock readings) are recorded and can be scripted;
  * the queue contents are compared with the model's `emitted` (exact, under the enforced schedule), the callback
    invocations with the queue contents (FIFO, complete, all before close() returns, none after), and the
    property is checked directly on the recorded invocations (python) and with the model's decision procedure.
"""
import io
import os
import queue
import random
import shutil
import tempfile
import threading
import time as _time
import warnings

import py7zr
import py7zr.compressor
import py7zr.py7zr as P
from py7zr.callbacks import ExtractCallback

from harness import arch

GEN_DEPS = []
LEVEL = "proof"
TRUSTED_BASE = [
    "Coq 8.16.1 kernel, vm_compute; no axioms (Print Assumptions: closed under the global context)",
    "theories/Events.v as a transcription of SevenZipFile._extract/reporter/close and Worker.extract/_extract_single/"
    "decompress (hand model; tied by this harness: exact comparison of the queue contents under enforced schedules)",
    "extraction (ExtrOcamlBasic only) + ocaml/driver.ml for running the model",
    "CPython queue.Queue is FIFO and thread-safe; threading.Thread.join/is_alive",
    "harness instrumentation: z.q replaced by a queue.Queue subclass; class-level wrappers of Worker.decompress and "
    "SevenZipDecompressor.decompress; py7zr.py7zr.time replaced by a scripted clock (no source hooks)",
]
ASSUMPTIONS = [
    "archives are intact (no exception inside a worker); sessions with two extractions are covered by the `accounts` "
    "model and the repeated-extraction scenario",
    "the model takes 'has a registered target' per member as data (the id bookkeeping of ArchiveFileList is not "
    "modelled); archives with directories between the data files of any folder are explored",
    "the decoder honours max_length (chunks_ok) for the per-member statement sum(u) = size; the general statement "
    "sum(u) = bytes decoded needs only that the loop ends",
    "timing statements (all_before_close, close_wait_bounded) are about the timed FIFO model: scheduling latency zero, "
    "handler time the only cost, handlers terminate; the harness bounds its wait for close()",
    "report_start's second argument (compressed size) is taken from the implementation's own listing; the property "
    "does not constrain it",
]

DATA_DIR = os.path.join(os.environ.get("VERIF_REPO", "/repo"), "tests", "data")
CORPUS = ["test_folder.7z", "zerosize.7z", "hidden_linux_file.7z", "copy_2.7z", "github_14_multi.7z", "copy.7z",
          "longpath.7z"]
MODE_NOSTREAMS, MODE_SINGLE, MODE_SEQ, MODE_PAR = 0, 1, 2, 3
SCHED_TIMEOUT = 4.0


# ------------------------------------------------------------------ instrumentation
_UID = threading.local()
_UID_NEXT = [0]
_UID_LOCK = threading.Lock()


def my_tid():
    """a number unique to the calling thread for the life of the process (thread idents are reused)"""
    v = getattr(_UID, "v", None)
    if v is None:
        with _UID_LOCK:
            _UID_NEXT[0] += 1
            v = _UID_NEXT[0]
        _UID.v = v
    return v


class Rec(ExtractCallback):
    """records every invocation: (kind, args, thread id, perf_counter at return)"""

    def __init__(self, delay=0.0):
        self.ev = []
        self.delay = delay

    def _r(self, *a):
        if self.delay:
            _time.sleep(self.delay)
        self.ev.append((a, my_tid(), _time.perf_counter()))

    def report_start_preparation(self):
        self._r("pre")

    def report_start(self, processing_file_path, processing_bytes):
        self._r("s", processing_file_path, processing_bytes)

    def report_update(self, decompressed_bytes):
        self._r("u", decompressed_bytes)

    def report_end(self, processing_file_path, wrote_bytes):
        self._r("e", processing_file_path, wrote_bytes)

    def report_warning(self, message):
        self._r("w", message)

    def report_postprocess(self):
        self._r("post")


class Scheduler:
    """forces the order in which worker threads enqueue: sched[k] = index of the worker that makes the k-th put
    of the concurrent phase.  A worker is recognised by the name in its first event."""

    def __init__(self, sched, first_names):
        self.sched = list(sched)
        self.first = dict(first_names)     # name of first member -> worker index
        self.pos = 0
        self.cond = threading.Condition()
        self.who = {}                      # thread id -> worker index
        self.failed = None

    def before_put(self, item):
        tid = my_tid()
        with self.cond:
            if tid not in self.who:
                w = self.first.get(item[1]) if item and item[0] == "s" else None
                if w is None:
                    self.failed = self.failed or "unexpected first event %r of a worker thread" % (item,)
                    self.cond.notify_all()
                    return
                self.who[tid] = w
            w = self.who[tid]
            deadline = _time.monotonic() + SCHED_TIMEOUT
            while self.failed is None:
                if self.pos >= len(self.sched):
                    self.failed = "worker %d enqueues %r after the predicted schedule is exhausted" % (w, item)
                    break
                if self.sched[self.pos] == w:
                    return
                left = deadline - _time.monotonic()
                if left <= 0:
                    self.failed = "schedule step %d expects worker %d which does not arrive (worker %d waits with %r)" % (
                        self.pos, self.sched[self.pos], w, item)
                    break
                self.cond.wait(left)
            self.cond.notify_all()

    def after_put(self):
        with self.cond:
            self.pos += 1
            self.cond.notify_all()


class SchedQueue(queue.Queue):
    def __init__(self, main_tid, scheduler=None, hold=False):
        super().__init__()
        self.log = []                # (thread id, item) in queue order
        self.main_tid = main_tid
        self.scheduler = scheduler
        self.hold = hold
        self.release = threading.Event()
        self.got = 0

    def _put(self, item):            # called with the queue mutex held: the log IS the queue order
        self.log.append((my_tid(), item))
        super()._put(item)

    def put(self, item, block=True, timeout=None):
        if item is None:
            self.release.set()
        s = self.scheduler
        if s is not None and item is not None and my_tid() != self.main_tid:
            s.before_put(item)
            try:
                return super().put(item, block, timeout)
            finally:
                s.after_put()
        return super().put(item, block, timeout)

    def get(self, block=True, timeout=None):
        if self.hold and not self.release.is_set():
            self.release.wait(20)
        return super().get(block, timeout)


class Clock:
    """replacement of the `time` module inside py7zr.py7zr: time() advances by scripted units of 1/1024 s per call
    and per thread; every reading made inside Worker.decompress is recorded"""

    def __init__(self, pattern=None):
        self.pattern = pattern or [0]
        self.tl = threading.local()

    def time(self):
        k = getattr(self.tl, "k", 0)
        u = getattr(self.tl, "u", 0) + self.pattern[k % len(self.pattern)]
        self.tl.k, self.tl.u = k + 1, u
        cur = getattr(_TL, "cur", None)
        if cur is not None:
            cur["reads"].append(u)
        return 1000.0 + u / 1024.0

    def __getattr__(self, n):
        return getattr(_time, n)


_TL = threading.local()
_CALLS = {}          # thread id -> list of decompress call records
_CALLS_LOCK = threading.Lock()
_installed = {}


def install():
    if _installed:
        return
    _installed["wd"] = P.Worker.decompress
    _installed["dd"] = py7zr.compressor.SevenZipDecompressor.decompress
    _installed["time"] = P.time
    orig_wd, orig_dd = _installed["wd"], _installed["dd"]

    def wd(self, fp, folder, fq, size, compressed_size, src_end, q=None):
        rec = {"size": size, "q": q is not None, "reads": [], "chunks": []}
        _TL.cur = rec
        try:
            return orig_wd(self, fp, folder, fq, size, compressed_size, src_end, q)
        finally:
            _TL.cur = None
            with _CALLS_LOCK:
                _CALLS.setdefault(my_tid(), []).append(rec)

    def dd(self, fp, max_length=-1):
        r = orig_dd(self, fp, max_length)
        cur = getattr(_TL, "cur", None)
        if cur is not None:
            cur["chunks"].append(len(r))
        return r

    P.Worker.decompress = wd
    py7zr.compressor.SevenZipDecompressor.decompress = dd


def uninstall():
    if not _installed:
        return
    P.Worker.decompress = _installed["wd"]
    py7zr.compressor.SevenZipDecompressor.decompress = _installed["dd"]
    P.time = _installed["time"]
    _installed.clear()


# ------------------------------------------------------------------ archives
def data_for(name, size):
    seed = (name.encode("utf-8") + b"\x00\x01\x7f") * 3
    return (seed * (size // len(seed) + 1))[:size]


def build_archive(spec, target):
    """spec = {"sessions": [{"chain": c, "entries": [[name, kind, size], ...]}, ...]}; kind in "file" | "dir" | "link" (then the
    third component is the link target).  Directories anywhere; links only in the first session, before the writestr
    members (they are written from a staging directory)."""
    stage = tempfile.mkdtemp(prefix="c18stage")
    try:
        for si, s in enumerate(spec["sessions"]):
            filters = arch.CHAINS[s["chain"]]
            with py7zr.SevenZipFile(target, "w" if si == 0 else "a", filters=filters) as z:
                for name, kind, size in s["entries"]:
                    if kind == "dir":
                        d = os.path.join(stage, "d%d" % len(os.listdir(stage)))
                        os.mkdir(d)
                        z.write(d, name)
                    elif kind == "link":       # `size` is the link target (relative, inside the archive)
                        d = os.path.join(stage, "l%d" % len(os.listdir(stage)))
                        os.mkdir(d)
                        open(os.path.join(d, size), "wb").close()      # py7zr reads only links whose target exists
                        os.symlink(size, os.path.join(d, "lnk"))
                        z.write(os.path.join(d, "lnk"), name)
                    else:
                        z.writestr(data_for(name, size), name)
    finally:
        shutil.rmtree(stage, ignore_errors=True)


def spec_members(spec):
    """the harness's own account of the archive: members in archive order and the folder partition"""
    members, folders = [], []
    for s in spec["sessions"]:
        fo = []
        for name, kind, size in s["entries"]:
            m = {"id": len(members), "name": name, "empty": kind == "dir", "dir": kind == "dir",
                 "size": 0 if kind == "dir" else len(size.encode("utf-8")) if kind == "link" else size}
            members.append(m)
            if not m["empty"]:
                fo.append(m["id"])
        if fo:
            folders.append(fo)
    return members, folders


def listing_members(path):
    """for corpus archives: the account is taken from the implementation's listing (less independent); returns
    None when the archive triggers the member-numbering defect (ids not contiguous inside a folder)"""
    with py7zr.SevenZipFile(path) as z:
        members = [{"id": f.id, "name": f.filename, "size": f.uncompressed, "empty": bool(f.emptystream),
                    "dir": bool(f.is_directory), "special": bool(f.is_symlink or f.is_socket or f.is_junction)}
                   for f in z.files]
        folders = []
        if z.header.main_streams is not None:
            for fo in z.header.main_streams.unpackinfo.folders:
                ids = []
                for f in (fo.files or []):
                    if f.id >= len(members) or members[f.id]["name"] != f.filename or members[f.id]["empty"]:
                        return None
                    ids.append(f.id)
                if ids:
                    folders.append(ids)
                else:
                    return None
        if any(m["special"] for m in members) or len(set(m["name"] for m in members)) != len(members):
            return None
        return members, folders


def csizes(path):
    with py7zr.SevenZipFile(path) as z:
        return [f.compressed if f.compressed is not None else 0 for f in z.files]


def make_shape(members, folders, source, targets, cs):
    """the model's shape tree (chunks filled in later) + per-member prediction"""
    nf = len(folders)
    mode = MODE_NOSTREAMS if nf == 0 else MODE_SINGLE if nf == 1 else (MODE_PAR if source == "path" else MODE_SEQ)
    ms = []
    for m in members:
        sel = targets is None or m["name"] in targets
        ms.append(dict(m, target=bool(sel and not m["dir"]), csize=cs[m["id"]], chunks=[]))
    return {"mode": mode, "members": ms, "folders": folders}


def shape_tree(sh):
    def mt(m):
        return [m["id"], [ord(c) for c in m["name"]], m["csize"], m["size"], 1 if m["empty"] else 0,
                1 if m["target"] else 0, [list(c) for c in m["chunks"]]]
    return [sh["mode"], [mt(m) for m in sh["members"]], [[mt(sh["members"][i]) for i in fo] for fo in sh["folders"]]]


def walks(sh):
    """python twin of Events.main walk / workers, at member granularity: (main walk, [worker walks])"""
    ms = sh["members"]
    emp = [m for m in ms if m["empty"]]
    sel = [[ms[i] for i in fo] for fo in sh["folders"] if any(ms[i]["target"] for i in fo)]
    if sh["mode"] == MODE_NOSTREAMS:
        return emp, []
    if sh["mode"] == MODE_SINGLE:
        return list(ms), []
    if sh["mode"] == MODE_SEQ:
        return emp + [m for fo in sel for m in fo], []
    return emp, sel


def is_delivered(m):
    return m["target"] and not m["empty"]


def n_events(m):
    """number of events of a member in ordinary runs (clock never ticks): s, e and one u iff decoded bytes > 0"""
    return 2 + (1 if is_delivered(m) and m["size"] > 0 else 0)


def ev_erase(tree_events):
    out = []
    for e in tree_events:
        k = e[0]
        if k == 0:
            out.append(("pre", None, None))
        elif k == 1:
            out.append(("post", None, None))
        elif k == 2:
            out.append(("s", "".join(map(chr, e[2])), str(e[3])))
        elif k == 3:
            out.append(("u", None, str(e[2])))
        else:
            out.append(("e", "".join(map(chr, e[2])), str(e[3])))
    return out


# ------------------------------------------------------------------ one extraction
class GateFactory(arch.Collect):
    """WriterFactory whose products block in their first write until the products ordered before them have been
    written: forces an order of the workers' output writes (a linear extension of the per-folder orders)"""

    def __init__(self, order):
        super().__init__()
        self.order = list(order)
        self.done = set()
        self.cond = threading.Condition()
        self.timed_out = False

    def create(self, filename):
        fac = self

        class B(arch._Buf):
            first = True

            def write(self, s):
                if self.first:
                    self.first = False
                    fac.gate(filename)
                return super().write(s)
        b = B()
        self.products.append((filename, b))
        return b

    def gate(self, filename):
        key = [n for n in self.order if filename == n or filename.endswith("/" + n)]
        if not key:
            return
        k = self.order.index(key[0])
        with self.cond:
            deadline = _time.monotonic() + 2.0
            while not all(n in self.done for n in self.order[:k]):
                left = deadline - _time.monotonic()
                if left <= 0:
                    self.timed_out = True
                    break
                self.cond.wait(left)
            self.done.add(self.order[k])
            self.cond.notify_all()


def run_extraction(apath, case, sh, workdir):
    """performs the extraction described by `case` on the archive file apath; returns the observation"""
    install()
    with _CALLS_LOCK:
        _CALLS.clear()
    clock = Clock(case.get("clock"))
    P.time = clock
    saved = {}
    if case.get("memlimit"):
        saved["ml"] = P.get_memory_limit
        P.get_memory_limit = lambda: case["memlimit"]
    if case.get("blocksize"):
        saved["bs"] = py7zr.compressor.get_default_blocksize
        py7zr.compressor.get_default_blocksize = lambda: case["blocksize"]
    obs = {"exc": None, "close_exc": None}
    main_tid = my_tid()
    sched = None
    if case.get("sched") is not None:
        _, wk = walks(sh)
        sched = Scheduler(case["sched"], {w[0]["name"]: i for i, w in enumerate(wk)})
    cb = Rec(case.get("delay_ms", 0) / 1000.0)
    fac = None
    outdir = None
    try:
        src = apath if case["source"] == "path" else io.BytesIO(open(apath, "rb").read())
        z = py7zr.SevenZipFile(src, "r")
        z.q = SchedQueue(main_tid, scheduler=sched, hold=case.get("handler") == "held")
        q = z.q
        kw = {}
        if case["out"] == "factory":
            fac = GateFactory(case["gate"]) if case.get("gate") else arch.Collect()
            kw["factory"] = fac
        else:
            outdir = tempfile.mkdtemp(prefix="o", dir=workdir)
            kw["path"] = outdir
        try:
            if case.get("targets") is None:
                z.extractall(callback=cb, **kw)
            else:
                z.extract(targets=list(case["targets"]), callback=cb, **kw)
        except Exception as e:  # noqa
            obs["exc"] = "%s: %s" % (type(e).__name__, str(e)[:200])
        rt = z.reporterd
        obs["n_before_close"] = len(cb.ev)
        t0 = _time.perf_counter()
        box = {}

        def do_close():
            try:
                z.close()
            except Exception as e:  # noqa
                box["exc"] = "%s: %s" % (type(e).__name__, str(e)[:200])
            box["t1"] = _time.perf_counter()
        ct = threading.Thread(target=do_close, daemon=True)
        ct.start()
        ct.join(case.get("close_wait", 30.0))        # close() joins without timeout: the test bounds the wait
        if ct.is_alive():
            obs["close_exc"] = "close() did not return within %.0f s" % case.get("close_wait", 30.0)
        else:
            obs["close_exc"] = box.get("exc")
        t1 = box.get("t1", _time.perf_counter())
        obs["n_at_return"] = len(cb.ev)
        obs["alive_after_close"] = bool(rt is not None and rt.is_alive())
        if (obs["close_exc"] is not None or obs["alive_after_close"]) and rt is not None:
            rt.join(30)
            try:
                z.reporterd = None
                z._fpclose()
            except Exception:  # noqa
                pass
        obs["t_close"], obs["t_return"] = t0, t1
        obs["main_tid"] = main_tid
        obs["puts"] = list(q.log)
        obs["cb"] = cb
        obs["sched_failed"] = sched.failed if sched else None
        obs["sched_who"] = dict(sched.who) if sched else {}
        obs["gate_timed_out"] = bool(fac is not None and getattr(fac, "timed_out", False))
        with _CALLS_LOCK:
            obs["calls"] = {k: list(v) for k, v in _CALLS.items()}
        if fac is not None:
            obs["outputs"] = {n: len(b.b) for n, b in fac.products}
        else:
            outs = {}
            for dp, dns, fns in os.walk(outdir):
                for n in fns:
                    p = os.path.join(dp, n)
                    outs[os.path.relpath(p, outdir)] = os.lstat(p).st_size
            obs["outputs"] = outs
    finally:
        P.time = _installed.get("time", _time)
        if "ml" in saved:
            P.get_memory_limit = saved["ml"]
        if "bs" in saved:
            py7zr.compressor.get_default_blocksize = saved["bs"]
        if outdir:
            shutil.rmtree(outdir, ignore_errors=True)
    return obs


# ------------------------------------------------------------------ judging one observation
def check_property(sh, obs, invs):
    """the property as stated, on the recorded invocations (kind, args...) -- no model involved.
    Returns a list of problem strings."""
    bad = []
    kinds = [a[0] for a in invs]
    if not invs or kinds[0] != "pre":
        bad.append("first invocation is %r, not report_start_preparation" % (invs[0] if invs else None,))
    if not invs or kinds[-1] != "post":
        bad.append("last invocation is %r, not report_postprocess" % (invs[-1] if invs else None,))
    if kinds.count("pre") != 1 or kinds.count("post") != 1:
        bad.append("pre reported %d times, post %d times" % (kinds.count("pre"), kinds.count("post")))
    main, wk = walks(sh)
    processed = main + [m for w in wk for m in w]
    names = {m["name"]: m for m in processed}
    for m in processed:
        si = [i for i, a in enumerate(invs) if a[0] == "s" and a[1] == m["name"]]
        ei = [i for i, a in enumerate(invs) if a[0] == "e" and a[1] == m["name"]]
        if len(si) != 1 or len(ei) != 1:
            bad.append("member %r: %d start and %d end events" % (m["name"], len(si), len(ei)))
            continue
        if not si[0] < ei[0]:
            bad.append("member %r: end event before start event" % m["name"])
        if str(invs[ei[0]][2]) != str(m["size"]):
            bad.append("member %r: end event reports %r bytes, size is %d" % (m["name"], invs[ei[0]][2], m["size"]))
    for a in invs:
        if a[0] in ("s", "e") and a[1] not in names:
            bad.append("event %r for a member the extraction does not process" % (a,))
    # delivered = what actually came out
    outs = obs["outputs"]
    deliv = [m for m in processed if not m["dir"] and m["name"] in outs]
    want = sum(m["size"] for m in deliv)
    try:
        got = sum(int(a[1]) for a in invs if a[0] == "u")
    except (TypeError, ValueError):
        got = None
    if got != want:
        bad.append("update events sum to %r, delivered members have %d bytes" % (got, want))
    pred = sorted(m["name"] for m in processed if m["target"])
    if sorted(m["name"] for m in deliv) != pred:
        bad.append("delivered outputs %r differ from the selected members %r" % (sorted(m["name"] for m in deliv), pred))
    return bad


def fill_chunks(sh, obs):
    """put the recorded inputs of the update loop into the shape; returns a problem string or None"""
    main, wk = walks(sh)
    tids = {}
    for tid, item in obs["puts"]:
        if tid != obs["main_tid"] and tid not in tids and item and item[0] == "s":
            for i, w in enumerate(wk):
                if w and w[0]["name"] == item[1]:
                    tids[tid] = i
    obs["worker_tids"] = tids
    plans = [(obs["main_tid"], main)] + [(t, wk[i]) for t, i in tids.items()]
    for tid, walk in plans:
        calls = [c for c in obs["calls"].get(tid, []) if c["q"]]
        want = [m for m in walk if is_delivered(m)]
        if len(calls) != len(want):
            return "thread walking %r made %d decompress calls with the event queue, %d members are delivered there" % (
                [m["name"] for m in walk], len(calls), len(want))
        for c, m in zip(calls, want):
            if c["size"] != m["size"]:
                return "decompress called with size %d for member %r of size %d" % (c["size"], m["name"], m["size"])
            rd = c["reads"]
            if len(rd) != len(c["chunks"]) + 1:
                return "member %r: %d clock readings for %d decoder calls" % (m["name"], len(rd), len(c["chunks"]))
            m["chunks"] = [(n, rd[k + 1] - rd[k]) for k, n in enumerate(c["chunks"])]
    return None


def judge(ctx, case, sh, obs, strict_sched):
    """returns list of (what, kind) problems"""
    model = ctx["model"]
    out = []
    cb = obs["cb"]
    invs = [a for a, _, _ in cb.ev]
    if obs["exc"]:
        out.append(("extraction raised %s" % obs["exc"], "extract-exception"))
        return out
    puts = [it for _, it in obs["puts"]]
    # ---- close(): everything before it returns, nothing after, sentinel last
    if obs["close_exc"]:
        out.append(("close() raised %s with %d of %d events delivered" % (obs["close_exc"], obs["n_at_return"],
                                                                           len(puts) - 1), "close-raised"))
    if obs["alive_after_close"] and not obs["close_exc"]:
        out.append(("reporter thread still alive after close() returned", "reporter-alive"))
    late = [a for a, _, t in cb.ev if t > obs["t_return"]]
    if late or len(cb.ev) != obs["n_at_return"]:
        out.append(("%d callback invocations after close() returned (first %r)" % (
            max(len(late), len(cb.ev) - obs["n_at_return"]), (late or [None])[0]), "events-after-close"))
    if not puts or puts[-1] is not None or None in puts[:-1]:
        out.append(("the sentinel is not the last item put on the queue", "sentinel"))
    evq = [it for it in puts if it is not None]
    # ---- FIFO + complete delivery
    deliv = [(a[0], a[1] if a[0] in ("s", "e") else None, a[2] if a[0] in ("s", "e") else (a[1] if a[0] == "u" else None))
             for a in invs]
    if deliv != [tuple(e) for e in evq]:
        out.append(("callback invocations differ from the queue contents: %d delivered, %d enqueued; first difference at %s" % (
            len(deliv), len(evq), first_diff(deliv, [tuple(e) for e in evq])), "delivery"))
    tids = set(t for _, t, _ in cb.ev)
    if len(tids) > 1 or (tids and (obs["main_tid"] in tids)):
        out.append(("callbacks invoked on threads %r (main %r)" % (sorted(tids), obs["main_tid"]), "callback-threads"))
    # ---- the property, directly
    for b in check_property(sh, obs, invs):
        out.append((b, "wellformed"))
    # ---- the model's prediction of the queue contents
    prob = fill_chunks(sh, obs)
    if prob:
        out.append((prob, "decompress-calls"))
        return out
    if obs["sched_failed"]:
        out.append(("enforced schedule could not be followed: %s" % obs["sched_failed"], "schedule"))
    if model is None:
        return out
    for m in sh["members"]:
        if is_delivered(m) and not model.call("ev_chunks_ok", [m["size"], [list(c) for c in m["chunks"]]]):
            out.append(("decoder did not honour max_length / ended early for %r: chunks %r size %d" % (
                m["name"], m["chunks"][:8], m["size"]), "chunks"))
    tree = shape_tree(sh)
    main_ev, workers_ev = model.call("ev_workers", tree)
    # per-worker subsequences (program order preserved by the FIFO merge)
    by_tid = {}
    for tid, it in obs["puts"]:
        if it is not None:
            by_tid.setdefault(tid, []).append(tuple(it))
    got_main = by_tid.get(obs["main_tid"], [])
    want_main = [("pre", None, None)] + ev_erase(main_ev) + [("post", None, None)]
    if got_main != want_main:
        out.append(("main thread enqueued %s, model predicts %s (first difference at %s)" % (
            brief(got_main), brief(want_main), first_diff(got_main, want_main)), "main-sequence"))
    wt = obs.get("worker_tids", {})
    seen = set()
    for tid, i in wt.items():
        seen.add(i)
        if by_tid.get(tid, []) != ev_erase(workers_ev[i]):
            out.append(("worker %d enqueued %s, model predicts %s (first difference at %s)" % (
                i, brief(by_tid.get(tid, [])), brief(ev_erase(workers_ev[i])),
                first_diff(by_tid.get(tid, []), ev_erase(workers_ev[i]))), "worker-sequence"))
    if len(seen) != len(workers_ev) or len(by_tid) != 1 + len(workers_ev):
        out.append(("%d threads enqueued events, model predicts the main thread and %d workers" % (
            len(by_tid), len(workers_ev)), "worker-count"))
    # exact queue contents under the enforced schedule (or the only possible sequence)
    if strict_sched:
        sc = case.get("sched")
        if sc is None:      # at most one concurrent worker: the only complete schedule
            sc = [0] * len(workers_ev[0]) if workers_ev else []
        comp, em = model.call("ev_emitted", [tree, sc])
        if not comp:
            out.append(("harness schedule is not complete for the model's workers", "harness-schedule"))
        elif ev_erase(em) != [tuple(e) for e in evq]:
            out.append(("queue contents differ from the model's emitted under the schedule: got %s, model %s (first difference at %s)" % (
                brief([tuple(e) for e in evq]), brief(ev_erase(em)), first_diff([tuple(e) for e in evq], ev_erase(em))),
                "emitted"))
    # the model's decision procedure on the recorded invocations (ids by name)
    main, wk = walks(sh)
    processed = main + [m for w in wk for m in w]
    ids = {m["name"]: m["id"] for m in sh["members"]}
    # updates are attributed through the producing thread's s..e bracket
    evs = attribute(obs, ids)
    if evs is not None:
        def mt(m):
            return [m["id"], [ord(c) for c in m["name"]], m["csize"], m["size"], 1 if m["empty"] else 0,
                    1 if m["target"] else 0, [list(c) for c in m["chunks"]]]
        ok = model.call("ev_wellformedb", [[mt(m) for m in processed], evs])
        pyok = not any(k == "wellformed" for _, k in out)
        if bool(ok) != pyok:
            out.append(("model's wellformedb says %r, the direct check says %r" % (bool(ok), pyok), "wellformedb"))
    return out


def attribute(obs, ids):
    """queue contents as model events with ids: s/e by name, u by the enclosing s..e of the producing thread"""
    cur = {}
    evs = []
    for tid, it in obs["puts"]:
        if it is None:
            continue
        k = it[0]
        if k == "pre":
            evs.append([0])
        elif k == "post":
            evs.append([1])
        elif k == "s":
            if it[1] not in ids:
                return None
            cur[tid] = ids[it[1]]
            evs.append([2, ids[it[1]], [ord(c) for c in it[1]], int(it[2])])
        elif k == "u":
            if tid not in cur:
                return None
            evs.append([3, cur[tid], int(it[2])])
        elif k == "e":
            if it[1] not in ids:
                return None
            evs.append([4, ids[it[1]], [ord(c) for c in it[1]], int(it[2])])
        else:
            return None
    return evs


def brief(evs, n=14):
    s = " ".join("%s%s" % (e[0], ("(" + ",".join(str(x) for x in e[1:] if x is not None) + ")") if e[0] in "sue" else "")
                 for e in evs[:n])
    return "[" + s + (" ... %d more" % (len(evs) - n) if len(evs) > n else "") + "]"


def first_diff(a, b):
    for i, (x, y) in enumerate(zip(a, b)):
        if x != y:
            return "%d: %r vs %r" % (i, x, y)
    return "%d: lengths %d vs %d" % (min(len(a), len(b)), len(a), len(b))


# ------------------------------------------------------------------ schedules
def worker_lengths(sh):
    _, wk = walks(sh)
    return [sum(n_events(m) for m in w) for w in wk]


def all_schedules(lengths, limit):
    """every interleaving when there are at most `limit` of them, else None"""
    total = 1
    n = 0
    for ln in lengths:
        for k in range(ln):
            n += 1
            total = total * n // (k + 1)
    if total > limit:
        return None
    out = []

    def go(left, acc):
        if not any(left):
            out.append(tuple(acc))
            return
        for i in range(len(left)):
            if left[i]:
                left[i] -= 1
                acc.append(i)
                go(left, acc)
                acc.pop()
                left[i] += 1
    go(list(lengths), [])
    return out


def sample_schedules(rng, lengths, k):
    out = []
    idx = list(range(len(lengths)))
    out.append([i for i in idx for _ in range(lengths[i])])                     # sequential
    out.append([i for i in reversed(idx) for _ in range(lengths[i])])           # reverse sequential
    rr, left = [], list(lengths)                                               # round robin
    while any(left):
        for i in idx:
            if left[i]:
                rr.append(i)
                left[i] -= 1
    out.append(rr)
    for _ in range(k):
        base = [i for i in idx for _ in range(lengths[i])]
        rng.shuffle(base)
        out.append(base)
    seen, uniq = set(), []
    for s in out:
        if tuple(s) not in seen:
            seen.add(tuple(s))
            uniq.append(s)
    return uniq


# ------------------------------------------------------------------ case generation
def own_specs(rng, tier):
    S = []

    def ses(chain, *entries):
        return {"chain": chain, "entries": [list(e) for e in entries]}
    # the link comes before the writestr members (py7zr cannot write a link after a member without origin)
    S.append({"sessions": [ses("lzma2", ("top", "dir", 0), ("top/lnk", "link", "a.txt"), ("top/a.txt", "file", 700),
                               ("zero.bin", "file", 0), ("top/b.txt", "file", 1500), ("c.dat", "file", 33))]})
    S.append({"sessions": [ses("copy", ("only.txt", "file", 9))]})
    S.append({"sessions": [ses("copy", ("d1", "dir", 0), ("d1/d2", "dir", 0), ("d3", "dir", 0))]})
    S.append({"sessions": [ses("copy", ("r", "dir", 0), ("r/a1", "file", 40), ("r/a2", "file", 50)),
                           ses("lzma2", ("b1", "file", 900), ("b2", "file", 10))]})
    S.append({"sessions": [ses("deflate", ("a1", "file", 300), ("a2", "file", 1), ("a3", "file", 2000)),
                           ses("bzip2", ("b1", "file", 777)),
                           ses("copy", ("c1", "file", 5), ("c2", "file", 6))]})
    S.append({"sessions": [ses("copy", ("x1", "file", 11)), ses("copy", ("y1", "file", 12))]})
    S.append({"sessions": [ses("zstd", ("p1", "file", 100), ("p2", "file", 0), ("p3", "file", 200)),
                           ses("copy", ("q1", "file", 30), ("q2", "file", 31), ("q3", "file", 32))]})
    S.append({"sessions": [ses("copy", ("w%d" % i, "file", 20 + i)) for i in range(4)]})
    # directories between the data files of the first and of later folders, and at the end
    S.append({"sessions": [ses("copy", ("k1", "file", 21), ("kd1", "dir", 0), ("k2", "file", 22)),
                           ses("lzma2", ("kd2", "dir", 0), ("k3", "file", 300), ("kd2/sub", "dir", 0), ("kd2/k4", "file", 44),
                               ("kd3", "dir", 0)),
                           ses("deflate", ("k5", "file", 55), ("kd4", "dir", 0), ("k6", "file", 66))]})
    S.append({"sessions": [ses("copy", ("j1", "file", 10)), ses("copy", ("jd", "dir", 0)), ses("copy", ("j2", "file", 12))]})
    n_rand = 4 if tier == "quick" else 40
    for k in range(n_rand):
        sessions = []
        used = 0
        for si in range(rng.choice([1, 2, 2, 3, 4])):
            ents = []
            for fi in range(rng.choice([1, 1, 2, 3, 4])):
                if rng.random() < 0.3:
                    ents.append(("g%d_s%d_dir%d" % (k, si, fi), "dir", 0))
                ents.append(("g%d_s%d_f%d" % (k, si, fi), "file", rng.choice([0, 1, 7, 100, 1000, 5000, 70000])))
                used += 1
            if rng.random() < 0.2:
                ents.append(("g%d_s%d_dirz" % (k, si), "dir", 0))
            sessions.append(ses(rng.choice(arch.FAST_CHAINS), *ents))
        S.append({"sessions": sessions})
    return S


def target_sets(rng, members, folders, tier):
    names = [m["name"] for m in members]
    files = [m["name"] for m in members if not m["dir"]]
    T = [None]
    if files:
        T.append([files[-1]])                          # earlier members of its folder are only checked
        T.append([files[0]])
    if len(folders) > 1:
        T.append([members[fo[-1]]["name"] for fo in folders[1:]])      # first folder skipped
        T.append([members[folders[0][0]]["name"]])                     # all but the first folder skipped
    T.append(["no-such-member"])
    dirs = [m["name"] for m in members if m["dir"]]
    if dirs:
        T.append([dirs[0]])
    for _ in range(2 if tier == "quick" else 6):
        k = rng.randint(1, max(1, len(names)))
        T.append(sorted(rng.sample(names, min(k, len(names)))))
    seen, out = set(), []
    for t in T:
        key = None if t is None else tuple(t)
        if key not in seen:
            seen.add(key)
            out.append(t)
    return out


def case_key(c):
    return (c["archive"], c["source"], c["out"], None if c.get("targets") is None else tuple(c["targets"]), c.get("handler"),
            c.get("delay_ms", 0), None if c.get("sched") is None else tuple(c["sched"]), tuple(c.get("clock") or ()),
            c.get("memlimit"), c.get("blocksize"), tuple(c.get("gate") or ()))


def report(rep, what, kind, case, spec_or_path):
    replay = {"kind": "extraction", "case": {k: v for k, v in case.items()}, "archive_spec": spec_or_path, "problem": kind}
    mk = {"kind": kind, "mode": case.get("mode"), "handler": case.get("handler", "instant"), "out": case["out"],
          "source": case["source"], "scheduled": case.get("sched") is not None}
    rep.violation("%s [archive %s, %s, targets %r, out %s, handler %s%s]" % (
        what, case["archive"], case["source"], case.get("targets"), case["out"], case.get("handler", "instant"),
        ", schedule %r" % (case["sched"],) if case.get("sched") is not None else ""), replay, match_keys=mk)


def explore(ctx, rep, rng, tier, workdir):
    specs = own_specs(rng, tier)
    archives = []
    for i, spec in enumerate(specs):
        p = os.path.join(workdir, "own%d.7z" % i)
        build_archive(spec, p)
        members, folders = spec_members(spec)
        archives.append(("own%d" % i, p, spec, members, folders))
    for n in CORPUS:
        p = os.path.join(DATA_DIR, n)
        if not os.path.exists(p):
            continue
        lm = listing_members(p)
        if lm is None:
            continue
        q = os.path.join(workdir, n)
        shutil.copy(p, q)
        archives.append((n, q, n, lm[0], lm[1]))
    n_viol = 0
    budget = 75 if tier == "quick" else 900
    t_start = _time.monotonic()
    for aname, apath, spec, members, folders in archives:
        cs = csizes(apath)
        for targets in target_sets(rng, members, folders, tier):
            combos = []
            for source in ("path", "bytes"):
                for out in ("path", "factory"):
                    combos.append((source, out))
            for source, out in combos:
                base = {"archive": aname, "source": source, "out": out, "targets": targets}
                sh0 = make_shape(members, folders, source, targets, cs)
                base["mode"] = sh0["mode"]
                variants = []
                hv = rng.choice([("instant", 0), ("block", 1), ("block", 3), ("held", 0), ("held", 1)])
                variants.append(dict(base, handler=hv[0], delay_ms=hv[1]))
                if hv[0] != "instant":
                    variants.append(dict(base, handler="instant", delay_ms=0))
                lens = worker_lengths(sh0)
                if sh0["mode"] == MODE_PAR and len(lens) >= 2:
                    allsch = all_schedules(lens, 30 if tier == "quick" else 1000)
                    scheds = [list(s) for s in allsch] if allsch is not None else \
                        sample_schedules(rng, lens, 3 if tier == "quick" else 25)
                    for s in scheds:
                        hv = rng.choice([("instant", 0), ("block", 1), ("held", 0)])
                        variants.append(dict(base, handler=hv[0], delay_ms=hv[1], sched=s))
                    if out == "factory":
                        _, wk = walks(sh0)
                        seqs = [[m["name"] for m in w if is_delivered(m) and m["size"] > 0] for w in wk]
                        order = []
                        seqs = [s for s in seqs if s]
                        while seqs:
                            s = rng.choice(seqs)
                            order.append(s.pop(0))
                            seqs = [x for x in seqs if x]
                        variants.append(dict(base, handler="instant", delay_ms=0, gate=order))
                for case in variants:
                    if _time.monotonic() - t_start > budget:
                        rep.extra["exploration_cut_by_time_budget"] = True
                        return
                    sh = make_shape(members, folders, source, targets, cs)
                    obs = run_extraction(apath, case, sh, workdir)
                    strict = sh["mode"] != MODE_PAR or case.get("sched") is not None or len(worker_lengths(sh)) < 2
                    probs = judge(ctx, case, sh, obs, strict)
                    main, wk = walks(sh)
                    rep.count(case_key(case), nontrivial=len(main) + sum(len(w) for w in wk) >= 2)
                    rep.dist("mode", ["no-streams", "single-folder", "multi-sequential", "multi-parallel"][sh["mode"]])
                    rep.dist("handler", "%s/%dms" % (case.get("handler"), case.get("delay_ms", 0)))
                    rep.dist("operation", "extractall" if targets is None else "extract(T)")
                    rep.dist("output", out)
                    rep.dist("workers", len(wk))
                    rep.dist("interleaving", "enforced" if case.get("sched") is not None else
                             "write-gated" if case.get("gate") else "free")
                    rep.dist("events", min(len(obs["puts"]) // 5 * 5, 60))
                    if case.get("sched") is not None:
                        rep.sample({"archive": aname, "targets": targets, "schedule": case["sched"],
                                    "queue": brief([tuple(i) for _, i in obs["puts"] if i is not None], 30)})
                    for what, kind in probs[:2]:
                        report(rep, what, kind, case, spec)
                        n_viol += 1
                    if n_viol > 6:
                        return


# ------------------------------------------------------------------ the update loop in isolation
class _StubDec:
    crc = None

    def __init__(self, script):
        self.script = list(script)
        self.consumed = 0   # Worker.decompress compares it before/after a call (stall guard)
        self.produced = 0   # ... together with the bytes the coders of the chain have put out

    def decompress(self, fp, max_length=-1):
        n = self.script.pop(0) if self.script else max_length
        self.consumed += 1  # every scripted round "reads input": 0-length chunks are not stalls
        return b"\x00" * n


class _StubFolder:
    def __init__(self, script):
        self.d = _StubDec(script)

    def get_decompressor(self, compressed_size):
        return self.d


class _StubFp:
    def tell(self):
        return 0


def loop_case(size, chunks, incs):
    """run the real Worker.decompress on a scripted decoder and clock; returns the "u" values"""
    w = P.Worker.__new__(P.Worker)
    q = queue.Queue()
    seq = list(incs)

    class C:
        u = 0

        def time(self_inner):
            if seq:
                C.u += seq.pop(0)
            return 1000.0 + C.u / 1024.0
    old = P.time
    P.time = C()
    try:
        orig = _installed.get("wd", P.Worker.decompress)
        orig(w, _StubFp(), _StubFolder(chunks), arch._Buf(), size, None, 1, q)
    finally:
        P.time = old
    out = []
    while not q.empty():
        it = q.get()
        out.append((it[0], it[1], it[2]))
    return out


def check_loop(ctx, rep, rng, tier):
    model = ctx["model"]
    if model is None:
        return
    n = 400 if tier == "quick" else 6000
    for k in range(n):
        size = rng.choice([0, 1, 2, 5, 17, 64, 300, 4096])
        honour = rng.random() < 0.8
        chunks, rem = [], size
        while rem > 0 and len(chunks) < 60:
            c = rng.choice([0, 0, 1, 1, 2, 3, 7, 16, 64, rem]) if honour else rng.choice([0, 1, 5, rem, rem + 3, 2 * rem + 1])
            if honour:
                c = min(c, rem)
            chunks.append(c)
            rem -= c
        incs = [0] + [rng.choice([0, 0, 0, 100, 400, 512, 1023, 1024, 1025, 3000]) for _ in chunks]
        # the stub pads with max_length when the script is exhausted, so the loop always ends
        tail = []
        if rem > 0:
            tail = [rem]
        mchunks = [[c, incs[i + 1]] for i, c in enumerate(chunks)] + [[t, 0] for t in tail]
        got = loop_case(size, chunks, incs)
        us, fin = model.call("ev_dec_loop", [size, mchunks])
        want = [("u", None, str(u)) for u in us]
        rep.count(("loop", size, tuple(chunks), tuple(incs)), nontrivial=len(chunks) >= 2)
        rep.dist("update_loop_updates_per_member", min(len(us), 10))
        if got != want:
            rep.violation("update loop: size %d, decoder chunks %r, clock steps %r: implementation puts %r, model %r" % (
                size, chunks, incs, got, want), {"kind": "loop", "size": size, "chunks": chunks, "incs": incs},
                match_keys={"kind": "update-loop"})
            return
        if sum(int(g[2]) for g in got) != size - fin:
            rep.violation("update loop: size %d chunks %r: updates sum to %d, decoded %d" % (
                size, chunks, sum(int(g[2]) for g in got), size - fin), {"kind": "loop", "size": size, "chunks": chunks,
                                                                        "incs": incs}, match_keys={"kind": "update-loop-sum"})
            return


def check_loop_in_extraction(ctx, rep, rng, tier, workdir):
    """whole extractions with small blocks and a ticking clock: several "u" per member"""
    spec = {"sessions": [{"chain": ch, "entries": [["t%d_%d" % (i, j), "file", sz] for j, sz in enumerate(sizes)]}
                         for i, (ch, sizes) in enumerate([("lzma2", [300, 40]), ("copy", [257, 0, 64]),
                                                          ("deflate", [500]), ("bzip2", [90, 91])])]}
    p = os.path.join(workdir, "ticks.7z")
    build_archive(spec, p)
    members, folders = spec_members(spec)
    cs = csizes(p)
    n = 6 if tier == "quick" else 60
    for k in range(n):
        pattern = [rng.choice([0, 0, 300, 512, 1024, 2048]) for _ in range(rng.choice([3, 5, 7]))]
        case = {"archive": "ticks", "source": rng.choice(["path", "bytes"]), "out": rng.choice(["path", "factory"]),
                "targets": None if k % 2 == 0 else sorted(rng.sample([m["name"] for m in members], 4)),
                "handler": "instant", "delay_ms": 0, "clock": pattern,
                "memlimit": rng.choice([7, 16, 64]), "blocksize": rng.choice([16, 32, 64, 8192])}
        sh = make_shape(members, folders, case["source"], case["targets"], cs)
        case["mode"] = sh["mode"]
        obs = run_extraction(p, case, sh, workdir)
        # with a ticking clock the number of events per worker is not known beforehand: no enforced schedule; the
        # per-worker sequences are compared exactly
        probs = judge(ctx, case, sh, obs, strict_sched=sh["mode"] != MODE_PAR)
        nu = sum(1 for _, it in obs["puts"] if it and it[0] == "u")
        rep.count(case_key(case), nontrivial=True)
        rep.dist("ticking_clock_updates_per_extraction", min(nu // 10 * 10, 200))
        for what, kind in probs[:2]:
            report(rep, what, kind, case, spec)
        if probs:
            return


# ------------------------------------------------------------------ close() and slow handlers; repeated extraction; mp
def timing_case(workdir, n_members, delay_ms):
    spec = {"sessions": [{"chain": "copy", "entries": [["m%03d" % i, "file", 50] for i in range(n_members)]}]}
    p = os.path.join(workdir, "timing_%d.7z" % n_members)
    if not os.path.exists(p):
        build_archive(spec, p)
    members, folders = spec_members(spec)
    case = {"archive": "timing_%d" % n_members, "source": "path", "out": "factory", "targets": None,
            "handler": "held", "delay_ms": delay_ms, "close_wait": 10.0 + 4.0 * (3 * n_members + 2) * delay_ms / 1000.0}
    sh = make_shape(members, folders, "path", None, csizes(p))
    case["mode"] = sh["mode"]
    install()
    obs = run_extraction(p, case, sh, workdir)
    cb = obs["cb"]
    total = len(obs["puts"]) - 1
    after = sum(1 for _, _, t in cb.ev if t > obs["t_return"])
    return {"members": n_members, "delay_ms": delay_ms, "events": total, "close_exc": obs["close_exc"],
            "close_s": round(obs["t_return"] - obs["t_close"], 3), "delivered_at_return": obs["n_at_return"],
            "delivered_after": after, "delivered_total": len(cb.ev),
            "kinds_ok": [a[0] for a, _, _ in cb.ev] == [it[0] for _, it in obs["puts"] if it is not None]}


def check_close(ctx, rep, rng, tier):
    """handlers that block briefly; the reporter is held until close() so that the whole account is owed at close():
    close() must return normally with every event delivered, however long the backlog (the wait is bounded by the
    test: close_wait)"""
    model = ctx["model"]
    workdir = ctx["workdir"]
    scen = [(3, 30), (8, 50), (100, 5)] if tier == "quick" else [(3, 30), (5, 20), (8, 50), (100, 5), (300, 2), (12, 100)]
    res = []
    for n, d in scen:
        r = timing_case(workdir, n, d)
        unit = d * 1024 // 1000 + 1
        pred = model.call("ev_close", [0, [[0, unit]] * r["events"], 0]) if model is not None else None
        r["model"] = pred
        owed = r["events"] * d / 1000.0
        r["owed_s"] = owed
        res.append(r)
        rep.count(("close", n, d), nontrivial=True)
        rep.dist("close_backlog", "over 1 s" if owed > 1.0 else "under 1 s")
        if r["close_exc"] is not None or r["delivered_after"] > 0 or r["delivered_at_return"] != r["events"] or not r["kinds_ok"]:
            rep.violation(
                "handlers blocking %d ms each, %d members (%d events, %.2f s of handler time owed at close()): close() %s after "
                "%.2f s with %d of %d events delivered; %d handler calls were made afterwards" % (
                    d, n, r["events"], owed, "raised " + r["close_exc"] if r["close_exc"] else "returned", r["close_s"],
                    r["delivered_at_return"], r["events"], r["delivered_after"]),
                {"kind": "close-timing", "members": n, "delay_ms": d, "result": r},
                match_keys={"kind": "close-incomplete", "backlog_over_1s": owed > 1.0,
                            "raised": r["close_exc"] is not None})
        elif r["close_s"] < 0.9 * owed:
            rep.violation("close() returned after %.2f s although %.2f s of handler time were owed: the harness did not hold "
                          "the reporter back" % (r["close_s"], owed), {"kind": "close-timing", "members": n, "delay_ms": d},
                          concrete=False, match_keys={"kind": "close-harness"})
    rep.extra["close_scenarios"] = res


def repeat_case(workdir, delay_ms, model=None):
    """reset() + a second extraction with its own callback in the same session"""
    spec = {"sessions": [{"chain": "copy", "entries": [["r%d" % i, "file", 40] for i in range(6)]}]}
    p = os.path.join(workdir, "repeat.7z")
    if not os.path.exists(p):
        build_archive(spec, p)
    cb1, cb2 = Rec(delay_ms / 1000.0), Rec(delay_ms / 1000.0)
    z = py7zr.SevenZipFile(p)
    z.q = SchedQueue(my_tid())
    q = z.q
    z.extractall(factory=arch.Collect(), callback=cb1)
    z.reset()
    z.extract(targets=["r1", "r4"], factory=arch.Collect(), callback=cb2)
    n2 = len(cb2.ev)
    box = {}

    def do_close():
        try:
            z.close()
        except Exception as e:  # noqa
            box["exc"] = "%s: %s" % (type(e).__name__, e)
        box["at_return"] = (len(cb1.ev), len(cb2.ev))
    ct = threading.Thread(target=do_close, daemon=True)
    ct.start()
    ct.join(10.0)                 # close() joins without timeout: the test bounds the wait
    exc = "close() did not return within 10 s" if ct.is_alive() else box.get("exc")
    at_return = box.get("at_return", (len(cb1.ev), len(cb2.ev)))
    _time.sleep(0.05)

    def flat(cb):
        return [(a[0], a[1] if a[0] in ("s", "e") else None, a[2] if a[0] in ("s", "e") else (a[1] if a[0] == "u" else None))
                for a, _, _ in cb.ev]
    puts = [it for _, it in q.log]
    cs0 = str(csizes(p)[0])
    want1 = [("pre", None, None)] + [x for i in range(6) for x in (("s", "r%d" % i, cs0 if i == 0 else "0"), ("u", None, "40"),
                                                                    ("e", "r%d" % i, "40"))] + [("post", None, None)]
    want2 = [("pre", None, None)] + [x for i in range(6) for x in
                                     ([("s", "r%d" % i, cs0 if i == 0 else "0")] + ([("u", None, "40")] if i in (1, 4) else [])
                                      + [("e", "r%d" % i, "40")])] + [("post", None, None)]
    res = {"cb1": "".join(k[0][0] for k in flat(cb1)), "cb2": "".join(k[0][0] for k in flat(cb2)), "close_exc": exc,
           "cb1_ok": flat(cb1) == want1, "cb2_ok": flat(cb2) == want2, "late": (len(cb1.ev), len(cb2.ev)) != at_return,
           "sentinels": sum(1 for it in puts if it is None),
           "threads": len(set(t for _, t, _ in cb1.ev + cb2.ev)), "model_ok": None}
    if model is not None:
        # csize of r0 is whatever the implementation listed (second argument of report_start is not constrained)
        def tr(it):
            if it is None:
                return []
            k = {"pre": 0, "post": 1, "s": 2, "u": 3, "e": 4}[it[0]]
            if k < 2:
                return [[k]]
            if k == 3:
                return [[3, 0, int(it[2])]]
            return [[k, 0, [ord(c) for c in it[1]], int(it[2])]]
        acc = model.call("ev_accounts", [tr(it) for it in puts])
        res["model_ok"] = [[tuple(x) for x in ev_erase(a)] for a in acc] == [[tuple(x) for x in flat(cb1)],
                                                                             [tuple(x) for x in flat(cb2)]]
    return res


def check_repeat(ctx, rep, rng, tier):
    """two extractions with callbacks in one session: each callback must receive exactly its own extraction's complete
    account (the model's `accounts` of the recorded queue), close() returns normally"""
    workdir = ctx["workdir"]
    worst = None
    for k in range(3 if tier == "quick" else 10):
        r = repeat_case(workdir, rng.choice([0, 1, 2]), ctx["model"])
        rep.count(("repeat", k), nontrivial=True)
        bad = not r["cb1_ok"] or not r["cb2_ok"] or r["close_exc"] or r["late"] or r["model_ok"] is False
        if bad and worst is None:
            worst = r
    rep.extra["repeat_extraction"] = worst or "each callback received exactly its own extraction's account in every trial"
    if worst:
        rep.violation(
            "second extraction (after reset()) with its own callback in the same session: first callback received %r "
            "(complete own account: %r), second %r (complete own account: %r); close(): %s; agrees with model accounts: %r" % (
                worst["cb1"], worst["cb1_ok"], worst["cb2"], worst["cb2_ok"], worst["close_exc"] or "returned",
                worst["model_ok"]),
            {"kind": "repeat", "result": worst},
            match_keys={"kind": "second-extraction-account", "extractions": 2})


def mp_case(arg):
    """runs in a sandbox child: multi-folder archive, mp=True, callback"""
    warnings.simplefilter("ignore")
    d = tempfile.mkdtemp(prefix="c18mp")
    try:
        p = os.path.join(d, "mp.7z")
        build_archive(arg["spec"], p)
        cb = Rec()
        with py7zr.SevenZipFile(p, mp=arg["mp"]) as z:
            cs = [f.compressed if f.compressed is not None else 0 for f in z.files]
            z.extractall(os.path.join(d, "out"), callback=cb)
        outs = sorted(os.listdir(os.path.join(d, "out")))
        return {"events": [list(a) for a, _, _ in cb.ev], "outputs": outs, "csizes": cs}
    finally:
        shutil.rmtree(d, ignore_errors=True)


MP_SPEC = {"sessions": [{"chain": "lzma2", "entries": [["ma", "file", 1000], ["mb", "file", 2000]]},
                        {"chain": "copy", "entries": [["mc", "file", 300], ["md", "file", 30]]}]}


def check_mp(ctx, rep, rng, tier):
    from harness.sandbox import run_sandboxed
    model = ctx["model"]
    r = run_sandboxed("harness.c18:mp_case", {"spec": MP_SPEC, "mp": True}, timeout=60, mem_mb=0)
    rep.count(("mp",), nontrivial=True)
    if r.get("status") != "ok":
        rep.violation("mp=True extraction with a callback did not finish: %r" % (r,), {"kind": "mp", "spec": MP_SPEC},
                      match_keys={"kind": "mp-run", "status": r.get("status")})
        return
    v = r["value"]
    members, folders = spec_members(MP_SPEC)
    sh = make_shape(members, folders, "path", None, v["csizes"])
    for m in sh["members"]:
        m["chunks"] = [(m["size"], 0)]
    got = [(e[0], e[1] if e[0] in ("s", "e") else None, e[2] if e[0] in ("s", "e") else (e[1] if e[0] == "u" else None))
           for e in v["events"]]
    lost = ev_erase(model.call("ev_emitted_mp", shape_tree(sh))) if model is not None else None
    rep.extra["mp_true"] = {"events": brief(got, 40), "outputs": v["outputs"], "matches_model_of_the_loss": got == lost}
    bad = check_property(sh, {"outputs": {n: 0 for n in v["outputs"]}}, [tuple(e) for e in v["events"]])
    if bad:
        rep.violation("mp=True: all 4 members are extracted but the callback receives only %s: %s" % (brief(got, 10), bad[0]),
                      {"kind": "mp", "spec": MP_SPEC, "events": v["events"]},
                      match_keys={"kind": "mp-events-lost", "mp": True, "lost_exactly_worker_events": got == lost})


# ------------------------------------------------------------------ checker self-test (the oracle is not vacuous)
def check_oracle(ctx, rep, rng, tier):
    """corrupt well-formed sequences: both the python check and the model's wellformedb must reject them"""
    model = ctx["model"]
    if model is None:
        return
    mem = [[1, [97], 0, 10, 0, 1, [[10, 0]]], [2, [98], 0, 20, 0, 0, []], [3, [99], 0, 0, 1, 0, []]]
    good = [[0], [2, 3, [99], 0], [4, 3, [99], 0], [2, 1, [97], 0], [3, 1, 4], [3, 1, 6], [4, 1, [97], 10], [2, 2, [98], 0],
            [4, 2, [98], 20], [1]]
    if not model.call("ev_wellformedb", [mem, good]):
        rep.violation("oracle self-test: model rejects a well-formed sequence", {"kind": "oracle"}, concrete=False)
    muts = 0
    for i in range(len(good)):
        for mut in ("drop", "dup", "swap"):
            evs = [list(e) for e in good]
            if mut == "drop":
                del evs[i]
            elif mut == "dup":
                evs.insert(i, list(good[i]))
            elif i + 1 < len(evs):
                if evs[i] == evs[i + 1] or (evs[i][0] == 3 and evs[i + 1][0] == 3):
                    continue
                # swapping events of different members keeps the sequence well-formed unless pre/post are involved
                if evs[i][0] > 1 and evs[i + 1][0] > 1 and evs[i][1] != evs[i + 1][1]:
                    continue
                evs[i], evs[i + 1] = evs[i + 1], evs[i]
            else:
                continue
            muts += 1
            if model.call("ev_wellformedb", [mem, evs]):
                rep.violation("oracle self-test: model accepts corrupted sequence %r (%s at %d)" % (evs, mut, i),
                              {"kind": "oracle"}, concrete=False)
                return
    bad_size = [list(e) for e in good]
    bad_size[6] = [4, 1, [97], 11]
    bad_sum = [list(e) for e in good]
    bad_sum[5] = [3, 1, 5]
    for evs in (bad_size, bad_sum):
        muts += 1
        if model.call("ev_wellformedb", [mem, evs]):
            rep.violation("oracle self-test: model accepts %r" % (evs,), {"kind": "oracle"}, concrete=False)
    rep.extra["oracle_self_test_mutants_rejected"] = muts


# ------------------------------------------------------------------ entry points
def run(ctx):
    rep, tier = ctx["rep"], ctx["tier"]
    rng = random.Random(ctx["seed"])
    warnings.simplefilter("ignore")
    rep.cov["rule"] = ("one case = (archive, source path|BytesIO, output dir|factory, extractall|extract(T), handler "
                       "instant|blocking 1-3 ms|reporter held until close, enforced worker schedule | write-gated | free, "
                       "clock script); archives: single/multi-folder (1-4 folders), directories, zero-size members, "
                       "skipped members and folders, corpus archives with empty-stream files; non-trivial = at least "
                       "two processed members; plus the update loop on scripted decoders/clocks, close() timing "
                       "scenarios, repeated extraction, mp=True")
    workdir = tempfile.mkdtemp(prefix="c18")
    ctx["workdir"] = workdir
    try:
        for part in (check_oracle, check_loop,
                     lambda c, r, g, t: explore(c, r, g, t, workdir),
                     lambda c, r, g, t: check_loop_in_extraction(c, r, g, t, workdir),
                     check_close, check_repeat, check_mp):
            try:
                part(ctx, rep, rng, tier)
            except Exception as e:  # noqa
                import traceback
                rep.violation("%s raised %s: %s" % (getattr(part, "__name__", "part"), type(e).__name__, e),
                              {"kind": "exception", "trace": traceback.format_exc()[-1500:]},
                              match_keys={"kind": "harness-exception"})
    finally:
        uninstall()
        shutil.rmtree(workdir, ignore_errors=True)


def replay(d):
    import json
    import vlib
    r = d["replay"]
    kind = r.get("kind")
    warnings.simplefilter("ignore")
    workdir = tempfile.mkdtemp(prefix="c18r")
    model = None
    try:
        try:
            model = vlib.Model()
        except Exception:  # noqa
            model = None
        ctx = {"model": model, "workdir": workdir}
        if kind == "extraction":
            case = r["case"]
            spec = r["archive_spec"]
            p = os.path.join(workdir, "a.7z")
            if isinstance(spec, str):
                shutil.copy(os.path.join(DATA_DIR, spec), p)
                members, folders = listing_members(p)
            else:
                build_archive(spec, p)
                members, folders = spec_members(spec)
            sh = make_shape(members, folders, case["source"], case.get("targets"), csizes(p))
            obs = run_extraction(p, case, sh, workdir)
            strict = sh["mode"] != MODE_PAR or case.get("sched") is not None
            probs = judge(ctx, case, sh, obs, strict)
            print("queue:", brief([tuple(i) for _, i in obs["puts"] if i is not None], 60))
            for what, k in probs:
                print("PROBLEM [%s] %s" % (k, what))
            return 1 if probs else 0
        if kind == "close-timing":
            res = timing_case(workdir, r["members"], r["delay_ms"])
            print(json.dumps(res))
            return 1 if (res["close_exc"] or res["delivered_after"] or res["delivered_at_return"] != res["events"]) else 0
        if kind == "repeat":
            for _ in range(5):
                res = repeat_case(workdir, 1, model)
                print(json.dumps(res))
                if not res["cb1_ok"] or not res["cb2_ok"] or res["close_exc"] or res["late"] or res["model_ok"] is False:
                    return 1
            return 0
        if kind == "mp":
            from harness.sandbox import run_sandboxed
            out = run_sandboxed("harness.c18:mp_case", {"spec": r["spec"], "mp": True}, timeout=60, mem_mb=0)
            print(json.dumps(out)[:1500])
            return 1 if out.get("status") != "ok" or len(out["value"]["events"]) != 2 + 3 * 4 else 0
        if kind == "loop":
            install()
            got = loop_case(r["size"], r["chunks"], r["incs"])
            print("implementation puts", got)
            if model is not None:
                mch = [[c, r["incs"][i + 1]] for i, c in enumerate(r["chunks"])]
                rest = r["size"] - sum(r["chunks"])
                if rest > 0:
                    mch.append([rest, 0])
                us, fin = model.call("ev_dec_loop", [r["size"], mch])
                print("model", us, fin)
                return 0 if [int(g[2]) for g in got] == us else 1
            return 2
        print(json.dumps(r, default=str)[:2000])
        return 2
    finally:
        uninstall()
        if model:
            model.close()
        shutil.rmtree(workdir, ignore_errors=True)
