"""Translation validation of compressor.SevenZipCompressor (third wave, stage 9): compress / flush as generated from the
current py7zr/compressor.py (coq/gen/CompChain.v, extracted and run with Toy.v's toy / AES-residue stages and Crc32.v's
CRC) against a real SevenZipCompressor whose chain holds the Python mirrors of those stages (harness/c01.py ToyEnc,
toy_aes_enc), over whole write sessions: compress for every member (sources that return short reads: SchedFd) then flush;
compared: the (insize, foutsize, crc) of every compress call, what flush returned, every byte written, and the object
state (_unpacksizes, digest, packsize, the stage states).  Sessions in which the Python raises (an _unpacksizes list that
is too short: IndexError) are compared on the error."""
import io


def check_compress(ctx, rep, rng, n_cases):
    import vlib
    from harness import c01
    model = ctx.get("model")
    if model is None or "gen_comp_session" not in vlib.fn_table():
        return 0
    cnt = 0
    for case in range(n_cases):
        mixed = rng.random() < 0.4
        stages = c01.rand_stages(rng, mixed, dec=False)
        if rng.random() < 0.03:
            stages = []
        bsz = rng.choice([1, 2, 3, 5, 7, 15, 16, 17, 32, 100, -1])
        members = []
        for _ in range(rng.randrange(0, 4)):
            n = rng.choice([0, 1, 2, 15, 16, 17, 31, 33, 50])
            members.append((bytes(rng.randrange(256) for _ in range(n)),
                            [rng.choice([0, 1, 2, 3, 16, 17, 100]) for _ in range(rng.randrange(0, 6))]))
        fuel = 80
        us = None
        if rng.random() < 0.12:
            # an _unpacksizes list that does not match the chain: too short (IndexError when the entry is needed) or too long
            us = [rng.choice([0, 7]) for _ in range(rng.choice([0, max(0, len(stages) - 1), len(stages) + 1]))]
        got = model.call("gen_comp_session", [fuel, [c01.stage_tree(s) for s in stages], bsz, [[list(m), s] for m, s in members],
                                              [] if us is None else [us]])
        c = c01.make_compressor(stages, bsz)
        if us is not None:
            c._unpacksizes = list(us)
        fp = io.BytesIO()
        infos, err, n = [], None, None
        try:
            for m, s in members:
                infos.append(list(c.compress(c01.SchedFd(m, s), fp)))
            n = c.flush(fp)
        except Exception as e:  # noqa
            err = c01._exc_code(e) or type(e).__name__
        cnt += 1
        rep.count(("gen-comp", tuple(stages), bsz, tuple((m, tuple(s)) for m, s in members)), nontrivial=any(len(m) for m, _ in members))
        bad = None
        if err is not None:
            if got != [1, err]:
                bad = "implementation raises %r, generated %r" % (err, got)
        elif got[0] != 0:
            bad = "generated returns Err %r, implementation does not raise" % (got,)
        else:
            (us, dg, ps, out, sts), ginfos, gn = got[1]
            want_sts = [x.tree() if isinstance(x, c01.ToyEnc) else [9, list(x.cipher.c), list(bytes(x.buf.view))] for x in c.chain]
            if [list(x) for x in ginfos] != infos:
                bad = "(insize, foutsize, crc) per member: implementation %r generated %r" % (infos, ginfos)
            elif gn != n:
                bad = "flush returned %r, generated %r" % (n, gn)
            elif bytes(out) != fp.getvalue():
                bad = "bytes written: implementation %s generated %s" % (fp.getvalue().hex(), bytes(out).hex())
            elif list(us) != list(c._unpacksizes) or dg != c.digest or ps != c.packsize:
                bad = "_unpacksizes/digest/packsize: implementation %r generated %r" % ((c._unpacksizes, c.digest, c.packsize), (us, dg, ps))
            elif [list(map(_norm, x)) for x in sts] != [list(map(_norm, x)) for x in want_sts]:
                bad = "stage states: implementation %r generated %r" % (want_sts, sts)
        if bad:
            rep.violation("SevenZipCompressor with toy stages disagrees with the generated methods: " + bad,
                          {"kind": "gen-compress", "stages": [list(map(c01._js, s)) for s in stages], "bsz": bsz,
                           "members": [[m.hex(), s] for m, s in members]}, concrete=False,
                          match_keys={"kind": "model-mismatch", "what": "generated"})
            return cnt
    rep.extra["gen_compress_cases"] = cnt
    return cnt


def _norm(x):
    return list(x) if isinstance(x, (bytes, bytearray, list, tuple)) else x
