"""C04 -- damage is detected: no success with different content.

Exploration: small archives (py7zr-written: every codec family, with/without AES, raw / encoded /
encrypted header, 1..3 folders; mini7z-written: folder-level CRCs, encoded header with its CRC) x every
single-bit flip, every truncation length, byte overwrites, <= 32-bit bursts, block swaps in the packed
area, insertions / deletions / extensions.  Every damaged image is read in a child of a sandboxed batch
process (fork per image, wall-clock and address-space limit): open + getnames + extractall(factory),
test(), testzip() (and extractall(path) where symlinks / several folders are involved) and the outcome is
compared member by member with what the pristine image delivers.

Correspondence: the executable definitions of coq/theories/Damage.v (start-header check, next-header
check, calculate_crc32 chunking, the control flow of Worker.extract/_extract_single/_check, testzip(),
test()) against the implementation on the same inputs.
"""
import hashlib
import io
import json
import os
import random
import select
import shutil
import signal
import struct
import sys
import tempfile
import time
import zlib
from concurrent.futures import ThreadPoolExecutor

GEN_DEPS = []
LEVEL = "proof"
TRUSTED_BASE = [
    "Coq 8.16.1 kernel, vm_compute (no native_compute); Print Assumptions closed for every theorem of props/C04.v",
    "theories/Crc32.v crc32_update = zlib.crc32 (differentially tested here and in C17's run; check value in Crc32.v)",
    "theories/Damage.v as transcription of SignatureHeader._read, SevenZipFile._real_get_contents, Header._read (shape "
    "only), Worker.extract/_extract_single/_check/decompress (control flow), SevenZipFile.test/testzip; tied to the code "
    "by the correspondence runs of this harness (stubbed decoders for the control flow, real bytes for the header checks)",
    "extraction (ExtrOcamlBasic) + ocaml/driver.ml",
    "harness child processes memoise py7zr.compressor.calculate_key (pure function; 2^19 SHA-256 rounds per open otherwise)",
]
ASSUMPTIONS = [
    "decoders and the header parser are arbitrary functions in the theorems (Section variables, instantiated in the "
    "Examples); what a codec does with damaged input is explored, not proved",
    "parallel extraction (threads per folder) is modelled as sequential; scheduling is C13's subject",
    "hangs and memory blow-ups on damaged input are reported under kind=hang / kind=memory: C05's subject, not a C04 violation",
    "the junction branch of _extract_single (win32 only) is not modelled",
]

TOOLS = os.path.dirname(os.path.dirname(os.path.abspath(__file__)))
MAGIC = b"7z\xbc\xaf\x27\x1c"


# ====================================================================== mutations
def apply_mut(base, m):
    """m = [kind, ...]; bit numbering: bit j of byte i is bit 8*i+j (the order CRC-32 consumes them)"""
    b = bytearray(base)
    k = m[0]
    if k == "flip":
        b[m[1] >> 3] ^= 1 << (m[1] & 7)
    elif k == "burst":           # xor the (<= 32-bit) pattern m[2] into the bit string starting at bit m[1]
        v = m[2] << (m[1] & 7)
        i = m[1] >> 3
        while v and i < len(b):
            b[i] ^= v & 0xFF
            v >>= 8
            i += 1
    elif k == "ow":
        d = bytes.fromhex(m[2])
        b[m[1]:m[1] + len(d)] = d
    elif k == "trunc":
        del b[m[1]:]
    elif k == "ext":
        b += bytes.fromhex(m[1])
    elif k == "ins":
        b[m[1]:m[1]] = bytes.fromhex(m[2])
    elif k == "del":
        del b[m[1]:m[1] + m[2]]
    elif k == "swap":
        a, c, n = m[1], m[2], m[3]
        x, y = bytes(b[a:a + n]), bytes(b[c:c + n])
        b[a:a + n] = y
        b[c:c + n] = x
    else:
        raise ValueError(k)
    return bytes(b)


def mut_pos(m, n):
    """first byte position touched"""
    k = m[0]
    if k in ("flip", "burst"):
        return m[1] >> 3
    if k == "ext":
        return n
    return m[1]


# ====================================================================== archive builders
def number(v):
    for n in range(8):
        if v < 1 << (7 * (n + 1)):
            first = ((0xFF << (8 - n)) & 0xFF) | (v >> (8 * n))
            return bytes([first]) + (v & ((1 << (8 * n)) - 1)).to_bytes(n, "little")
    return b"\xff" + v.to_bytes(8, "little")


def _enc(chain, data):
    import bz2
    import lzma
    if chain == "copy":
        return bytes(data), b"\x00", None
    if chain == "lzma2":
        f = {"id": lzma.FILTER_LZMA2, "dict_size": 1 << 16}
        return lzma.compress(data, format=lzma.FORMAT_RAW, filters=[f]), b"\x21", lzma._encode_filter_properties(f)
    if chain == "lzma":
        f = {"id": lzma.FILTER_LZMA1, "dict_size": 1 << 16, "lc": 3, "lp": 0, "pb": 2}
        return lzma.compress(data, format=lzma.FORMAT_RAW, filters=[f]), b"\x03\x01\x01", lzma._encode_filter_properties(f)
    if chain == "deflate":
        c = zlib.compressobj(wbits=-15)
        return c.compress(data) + c.flush(), b"\x04\x01\x08", None
    if chain == "bzip2":
        return bz2.compress(data), b"\x04\x02\x02", None
    raise ValueError(chain)


def _coder(mid, props):
    out = b"\x01" + bytes([len(mid) | (0x20 if props is not None else 0)]) + mid
    if props is not None:
        out += number(len(props)) + props
    return out


def mini7z(folders, crc="folder", header="raw", pack_crc=False):
    """An independent, minimal 7z writer (written from docs/archive_format.rst; no py7zr code) for the layouts py7zr's
    own writer never produces.  folders: [(chain, [(name, data), ...]), ...].
    crc: "folder" (kCRC in UnpackInfo only: 7-Zip's non-solid layout when each folder holds one file),
         "substream" (kCRC in SubStreamsInfo), "both".
    header: "raw" | "lzma" (encoded, folder CRC of the header stored, as 7-Zip does) | "lzma-nocrc"."""
    packed, fbytes, usizes, fcrcs = [], b"", b"", []
    for chain, ms in folders:
        whole = b"".join(d for _, d in ms)
        p, mid, props = _enc(chain, whole)
        packed.append(p)
        fbytes += _coder(mid, props)
        usizes += number(len(whole))
        fcrcs.append(zlib.crc32(whole))
    h = b"\x01\x04"
    h += b"\x06" + number(0) + number(len(packed)) + b"\x09" + b"".join(number(len(p)) for p in packed)
    if pack_crc:
        h += b"\x0a\x01" + b"".join(struct.pack("<L", zlib.crc32(p)) for p in packed)
    h += b"\x00"
    h += b"\x07\x0b" + number(len(folders)) + b"\x00" + fbytes + b"\x0c" + usizes
    if crc in ("folder", "both"):
        h += b"\x0a\x01" + b"".join(struct.pack("<L", c) for c in fcrcs)
    h += b"\x00"
    h += b"\x08"
    nums = [len(ms) for _, ms in folders]
    if any(n != 1 for n in nums):
        h += b"\x0d" + b"".join(number(n) for n in nums)
        h += b"\x09" + b"".join(number(len(d)) for _, ms in folders for _, d in ms[:-1])
    sub = []
    for (chain, ms), n in zip(folders, nums):
        if n == 1 and crc in ("folder", "both"):
            continue           # known from the folder CRC: never repeated
        if crc in ("substream", "both"):
            sub += [zlib.crc32(d) for _, d in ms]
    if sub:
        h += b"\x0a\x01" + b"".join(struct.pack("<L", c) for c in sub)
    h += b"\x00\x00"
    names = [n for _, ms in folders for n, _ in ms]
    h += b"\x05" + number(len(names))
    nb = b"\x00" + b"".join(n.encode("utf-16-le") + b"\0\0" for n in names)
    h += b"\x11" + number(len(nb)) + nb
    ab = b"\x01\x00" + b"".join(struct.pack("<L", 0x20) for _ in names)
    h += b"\x15" + number(len(ab)) + ab
    h += b"\x00\x00"
    body = b"".join(packed)
    if header != "raw":
        ph, mid, props = _enc("lzma2", h)
        eh = b"\x17\x06" + number(len(body)) + number(1) + b"\x09" + number(len(ph)) + b"\x00"
        eh += b"\x07\x0b" + number(1) + b"\x00" + _coder(mid, props) + b"\x0c" + number(len(h))
        if header == "lzma":
            eh += b"\x0a\x01" + struct.pack("<L", zlib.crc32(h))
        eh += b"\x00\x00"
        body += ph
        h = eh
    start = struct.pack("<QQL", len(body), len(h), zlib.crc32(h))
    return MAGIC + b"\x00\x04" + struct.pack("<L", zlib.crc32(start)) + start + body + h


M3 = [("a.txt", b"hello world, hello"), ("b/c.bin", bytes(range(7, 47))), ("e", b"")]
M2 = [("x.dat", b"\x00\x01\x02 damage me \xff\xfe"), ("y", b"yyyyyyyyyyyyyyyy")]
M1 = [("z.z", b"zzzz-zzzz-zzzz")]
MLONG = [("directory-with-a-long-name/and-a-member-with-a-long-name.txt", b"0123456789abcdef0123")]


def symlink_archive(encoded=False):
    """copy-coded archive holding a directory, two files and a symbolic link (writeall)"""
    import py7zr
    from py7zr.properties import FILTER_COPY
    d = tempfile.mkdtemp(prefix="c04s")
    try:
        src = os.path.join(d, "s")
        os.makedirs(src)
        for n, c in (("target_aaaa.txt", b"AAAA content"), ("target_baaa.txt", b"BBBB content")):
            with open(os.path.join(src, n), "wb") as f:
                f.write(c)
            os.utime(os.path.join(src, n), (1600000000, 1600000000))
        os.symlink("target_aaaa.txt", os.path.join(src, "link"))
        bio = io.BytesIO()
        with py7zr.SevenZipFile(bio, "w", filters=[{"id": FILTER_COPY}]) as z:
            z.set_encoded_header_mode(encoded)
            z.writeall(src, "s")
        return bio.getvalue()
    finally:
        shutil.rmtree(d, ignore_errors=True)


def archive_specs(tier):
    """(label, builder kwargs) -- quick: the small set; thorough: every chain x header mode + larger members"""
    from harness import arch
    S = []

    def py(label, members, chain, **kw):
        S.append({"label": label, "kind": "py7zr", "members": members, "chain": chain, **kw})

    py("copy/raw", M3, "copy", encoded=False)
    py("lzma2/encoded", M3, "lzma2", encoded=True)
    py("deflate/raw", M2, "deflate", encoded=False)
    py("bzip2/raw", M1, "bzip2", encoded=False)
    py("zstd/raw", M2, "zstd", encoded=False)
    py("ppmd/raw", M2, "ppmd", encoded=False)
    py("copy+aes/raw", M2, "copy+aes", encoded=False)
    py("lzma2+aes/encrypted", M1, "lzma2+aes", encoded=True, header_enc=True)
    py("copy+aes/encrypted long name", MLONG, "copy+aes", encoded=True, header_enc=True)
    py("copy|lzma2|deflate/raw 3 folders", M1, "copy", encoded=False, sessions=[(M2[:1], "lzma2"), ([("q", b"qqqqqqqq")], "deflate")])
    S.append({"label": "symlink copy/raw", "kind": "symlink", "path": True})
    S.append({"label": "mini copy folder-crc/raw 2 folders", "kind": "mini", "folders": [("copy", M1), ("copy", M2[:1])],
              "crc": "folder", "header": "raw"})
    S.append({"label": "mini lzma2 folder-crc/lzma+crc", "kind": "mini", "folders": [("lzma2", M2[:1])], "crc": "folder",
              "header": "lzma"})
    S.append({"label": "mini deflate substream-crc/lzma+crc", "kind": "mini", "folders": [("deflate", M2)],
              "crc": "substream", "header": "lzma"})
    if tier != "quick":
        for ch in ["copy", "lzma2", "lzma", "deflate", "bzip2", "zstd", "ppmd", "brotli", "delta+lzma2", "x86+lzma2",
                   "arm+lzma", "x86+deflate", "x86+bzip2"]:
            for enc in (False, True):
                py("%s/%s" % (ch, "encoded" if enc else "raw"), M3 if enc else M2, ch, encoded=enc)
        for ch in ["lzma2+aes", "copy+aes", "deflate+aes", "zstd+aes", "bzip2+aes", "aes"]:
            py("%s/raw" % ch, M2, ch, encoded=False)
            py("%s/encoded" % ch, M1, ch, encoded=True)
            py("%s/encrypted" % ch, M1, ch, encoded=True, header_enc=True)
        py("lzma2|lzma2/encoded 2 folders", M2, "lzma2", encoded=True, sessions=[(M1, "lzma2")])
        py("bzip2|copy|zstd|ppmd/encoded 4 folders", M1, "bzip2", encoded=True,
           sessions=[([("p", b"pppp")], "copy"), ([("q", b"qqqq" * 3)], "zstd"), ([("r", b"rrrr-rrrr")], "ppmd")])
        S.append({"label": "symlink copy/encoded", "kind": "symlink", "path": True, "encoded": True})
        for chain in ("copy", "lzma2", "deflate", "bzip2"):
            S.append({"label": "mini %s folder-crc/raw" % chain, "kind": "mini", "folders": [(chain, M2[:1]), (chain, M1)],
                      "crc": "folder", "header": "raw"})
        S.append({"label": "mini copy both-crc/lzma-nocrc", "kind": "mini", "folders": [("copy", M2), ("copy", M1)], "crc": "both",
                  "header": "lzma-nocrc", "pack_crc": True})
        S.append({"label": "mini copy substream-crc packcrc/raw", "kind": "mini", "folders": [("copy", M2)], "crc": "substream",
                  "header": "raw", "pack_crc": True})
        rng = random.Random(4)
        big = [("big1.bin", arch.pattern_bytes(rng, 30000, "text")), ("big2.bin", arch.pattern_bytes(rng, 9000, "random"))]
        for ch in ("lzma2", "copy", "deflate", "zstd", "bzip2", "lzma2+aes"):
            py("%s/encoded large" % ch, big, ch, encoded=True, large=True)
    return S


def build_archive(spec):
    from harness import arch
    if spec["kind"] == "py7zr":
        pw = "secret" if arch.needs_pw(spec["chain"]) else None
        data = arch.make_archive(spec["members"], spec["chain"], password=pw, header_enc=spec.get("header_enc", False),
                                 encoded=spec.get("encoded", True), sessions=spec.get("sessions"))
        return data, pw
    if spec["kind"] == "symlink":
        return symlink_archive(spec.get("encoded", False)), None
    if spec["kind"] == "mini":
        return mini7z([(c, [tuple(m) for m in ms]) for c, ms in spec["folders"]], spec["crc"], spec["header"],
                      spec.get("pack_crc", False)), None
    raise ValueError(spec["kind"])


# ====================================================================== layout of an archive (regions)
def layout(base, pw):
    """[(start, end, label)] covering the file; labels: magic, version, start-crc, start-fields, packed<i>,
    encoded-header-stream, next-header, gap, trailing"""
    import py7zr
    import py7zr.archiveinfo as ai
    regs = [(0, 6, "magic"), (6, 8, "version"), (8, 12, "start-crc"), (12, 32, "start-fields")]
    ofs, size, _ = struct.unpack("<QQL", base[12:32])
    nh = (32 + ofs, 32 + ofs + size)
    inner = []
    with py7zr.SevenZipFile(io.BytesIO(base), password=pw) as z:
        ms = z.header.main_streams
        if ms is not None:
            pp = ms.packinfo.packpositions
            for i in range(len(pp) - 1):
                inner.append((32 + ms.packinfo.packpos + pp[i], 32 + ms.packinfo.packpos + pp[i + 1], "packed"))
    hdrmode = "raw"
    if base[nh[0]:nh[0] + 1] == b"\x17":
        hs = ai.HeaderStreamsInfo.retrieve(io.BytesIO(base[nh[0] + 1:nh[1]]))
        inner.append((32 + hs.packinfo.packpos, 32 + hs.packinfo.packpos + hs.packinfo.packsizes[0], "encoded-header-stream"))
        coders = hs.unpackinfo.folders[0].coders
        hdrmode = "encrypted" if any(c["method"] == b"\x06\xf1\x07\x01" for c in coders) else "encoded"
        if hs.unpackinfo.folders[0].digestdefined:
            hdrmode += "+crc"
    inner.append((nh[0], nh[1], "next-header"))
    inner.sort()
    pos = 32
    for a, b, lab in inner:
        if a > pos:
            regs.append((pos, a, "gap"))
        regs.append((a, b, lab))
        pos = max(pos, b)
    if pos < len(base):
        regs.append((pos, len(base), "trailing"))
    return regs, hdrmode


def region_of(regs, pos):
    for a, b, lab in regs:
        if a <= pos < b:
            return lab
    return "beyond"


# ====================================================================== probing one image (runs in a forked child)
def _err(e):
    return [type(e).__name__, " ".join(str(a) for a in getattr(e, "args", ()))[:80]]


def _digest(pairs):
    return [[n, len(d), hashlib.sha1(d).hexdigest()[:16], d[:24].hex()] for n, d in pairs]


def _tree(root):
    out = []
    for dp, dns, fns in os.walk(root, followlinks=False):
        for n in sorted(dns + fns):
            p = os.path.join(dp, n)
            rel = os.path.relpath(p, root)
            if os.path.islink(p):
                t = os.readlink(p).encode("utf-8", "surrogateescape")
                out.append(["L:" + rel, len(t), hashlib.sha1(t).hexdigest()[:16], t[:24].hex()])
            elif os.path.isfile(p):
                with open(p, "rb") as f:
                    d = f.read()
                out.append([rel, len(d), hashlib.sha1(d).hexdigest()[:16], d[:24].hex()])
    return sorted(out)


def probe_image(img, pw, tmp, want_path):
    import py7zr
    from harness import arch
    out = {}
    try:
        z = py7zr.SevenZipFile(io.BytesIO(img), "r", password=pw)
    except MemoryError:
        return {"fatal": "memory"}
    except BaseException as e:  # noqa
        out["open"] = _err(e)
        return out
    out["open"] = "ok"
    fac = arch.Collect()
    try:
        out["names"] = z.getnames()
        z.extractall(factory=fac)
        out["extract"] = ["ok", _digest(fac.as_list())]
    except MemoryError:
        return {"fatal": "memory"}
    except BaseException as e:  # noqa
        out["extract"] = ["err"] + _err(e)
    finally:
        try:
            z.close()
        except BaseException:  # noqa
            pass
    path = os.path.join(tmp, "x.7z")
    with open(path, "wb") as f:
        f.write(img)
    for call in ("test", "testzip"):
        try:
            with py7zr.SevenZipFile(path, "r", password=pw) as z:
                v = getattr(z, call)()
            out[call] = ["ok", v]
        except MemoryError:
            return {"fatal": "memory"}
        except BaseException as e:  # noqa
            out[call] = ["err"] + _err(e)
    if want_path:
        dest = os.path.join(tmp, "out")
        shutil.rmtree(dest, ignore_errors=True)
        try:
            with py7zr.SevenZipFile(path, "r", password=pw) as z:
                z.extractall(dest)
            out["extract_path"] = ["ok", _tree(dest)]
        except MemoryError:
            return {"fatal": "memory"}
        except BaseException as e:  # noqa
            out["extract_path"] = ["err"] + _err(e)
    return out


def run_forked(fn, timeout, mem_mb):
    """fn() in a forked child under RLIMIT_AS and a wall-clock limit; {"fatal": "hang"|"memory"|"crash"} otherwise"""
    import resource
    r, w = os.pipe()
    pid = os.fork()
    if pid == 0:
        code = 0
        try:
            os.close(r)
            if mem_mb:
                resource.setrlimit(resource.RLIMIT_AS, (mem_mb << 20, mem_mb << 20))
            try:
                res = fn()
            except MemoryError:
                res = {"fatal": "memory"}
            except BaseException as e:  # noqa
                res = {"fatal": "crash", "msg": "%s: %s" % (type(e).__name__, str(e)[:200])}
            data = json.dumps(res, default=str).encode()
            while data:
                n = os.write(w, data)
                data = data[n:]
        except BaseException:  # noqa
            code = 3
        finally:
            os._exit(code)
    os.close(w)
    chunks = []
    deadline = time.time() + timeout
    hung = False
    while True:
        left = deadline - time.time()
        if left <= 0:
            hung = True
            break
        rd, _, _ = select.select([r], [], [], left)
        if not rd:
            hung = True
            break
        c = os.read(r, 65536)
        if not c:
            break
        chunks.append(c)
    os.close(r)
    if hung:
        try:
            os.kill(pid, signal.SIGKILL)
        except OSError:
            pass
    _, status = os.waitpid(pid, 0)
    if hung:
        return {"fatal": "hang"}
    try:
        return json.loads(b"".join(chunks).decode())
    except ValueError:
        return {"fatal": "crash", "msg": "status %d" % status}


def batch_worker(arg):
    """sandbox target: arg = {base: hex, pw, muts: [...], timeout, mem_mb, path: bool, budget: seconds}"""
    import functools
    import py7zr  # noqa
    import py7zr.compressor as comp
    if not hasattr(comp.calculate_key, "cache_info"):
        comp.calculate_key = functools.lru_cache(maxsize=256)(comp.calculate_key)
    base = bytes.fromhex(arg["base"])
    pw = arg.get("pw")
    tmp = tempfile.mkdtemp(prefix="c04b")
    t0 = time.time()
    out = []
    try:
        try:       # warm lazy imports / caches / the AES key cache (inherited by the forked children)
            probe_image(base, pw, tmp, arg.get("path", False))
        except BaseException:  # noqa
            pass
        for m in arg["muts"]:
            if time.time() - t0 > arg.get("budget", 1e9):
                out.append({"fatal": "skipped"})
                continue
            img = base if m is None else apply_mut(base, m)
            out.append(run_forked(lambda: probe_image(img, pw, tmp, arg.get("path", False)), arg.get("timeout", 5),
                                  arg.get("mem_mb", 1024)))
    finally:
        shutil.rmtree(tmp, ignore_errors=True)
    return out


# ====================================================================== mutation sets
def mutation_set(base, regs, rng, tier, large=False):
    n = len(base)
    muts = []
    packed = [(a, b) for a, b, lab in regs if lab in ("packed", "encoded-header-stream")]
    if not large:
        muts += [["flip", i] for i in range(8 * n)]                     # exhaustive
        muts += [["trunc", k] for k in range(n)]                        # every truncation length
        step = 1 if tier != "quick" else 3
        for p in range(0, n, step):
            muts.append(["ow", p, "%02x" % (base[p] ^ 0xFF)])
            muts.append(["ow", p, "00" if base[p] else "01"])
        nb = 400 if tier == "quick" else 3000
    else:
        pos = set(range(0, 8 * 32))
        for a, b, lab in regs:
            for q in (a, a + 1, (a + b) // 2, b - 2, b - 1):
                if a <= q < b:
                    pos.update(range(8 * q, 8 * q + 8))
        pos.update(rng.randrange(8 * n) for _ in range(4000))
        muts += [["flip", i] for i in sorted(pos)]
        muts += [["trunc", k] for k in sorted(set(list(range(0, 64)) + [rng.randrange(n) for _ in range(300)] + list(range(n - 64, n))))]
        nb = 1500
    for _ in range(nb):                                                  # bursts: <= 32 consecutive bits
        w = rng.choice([2, 3, 8, 9, 16, 17, 31, 32])
        mask = rng.getrandbits(w) | 1 | (1 << (w - 1))
        muts.append(["burst", rng.randrange(8 * n - w + 1), mask])
    for _ in range(60 if tier == "quick" else 400):                      # multi-byte overwrites
        p = rng.randrange(n)
        muts.append(["ow", p, rng.randbytes(rng.choice([2, 4, 5, 8, 16])).hex()])
    for a, b in packed:                                                  # block swaps inside the packed area
        for _ in range(25 if tier == "quick" else 150):
            ln = rng.choice([1, 2, 4, 8, 16])
            if b - a >= 2 * ln:
                x = rng.randrange(a, b - 2 * ln + 1)
                y = rng.randrange(x + ln, b - ln + 1)
                if base[x:x + ln] != base[y:y + ln]:
                    muts.append(["swap", x, y, ln])
    for _ in range(80 if tier == "quick" else 500):                      # insertions / deletions
        p = rng.randrange(n + 1)
        muts.append(["ins", p, rng.randbytes(rng.choice([1, 1, 2, 4, 16])).hex()])
        p = rng.randrange(n)
        muts.append(["del", p, rng.choice([1, 1, 2, 4, 16])])
    for ext in ("00", "ff" * 3, MAGIC.hex(), base[-20:].hex(), base.hex()):
        muts.append(["ext", ext])
    return muts


# ====================================================================== judging one outcome
GOOD_TESTZIP = None      # "no bad file"


def judge(o, pristine, want_path):
    """returns (verdict, detail); verdict in
       hang | memory | crash | rejected | accepted-intact | accepted-partial | VIOL:<kind>"""
    if "fatal" in o:
        return o["fatal"], o.get("msg", "")
    if o["open"] != "ok":
        return "rejected", "open:" + sig_of(o["open"])
    viol = []
    ex = o["extract"]
    ok_map = {n: (ln, h) for n, ln, h, _ in pristine["extract"][1]}
    bad_extract = ex[0] != "ok"
    if ex[0] == "ok":
        for n, ln, h, head in ex[1]:
            if n not in ok_map:
                viol.append(("wrong-name", "extractall(factory) delivered %r (%d bytes), not a member of the original" % (n, ln)))
            elif ok_map[n] != (ln, h):
                viol.append(("wrong-content", "extractall(factory) delivered %r with %d bytes %s.., original has %d bytes" % (
                    n, ln, head, ok_map[n][0])))
                bad_extract = True
    if want_path and "extract_path" in o:
        ep = o["extract_path"]
        okp = {n: (ln, h) for n, ln, h, _ in pristine["extract_path"][1]}
        if ep[0] == "ok":
            for n, ln, h, head in ep[1]:
                kind = "symlink-target" if n.startswith("L:") else "content"
                if n not in okp:
                    viol.append(("wrong-name-path", "extractall(path) produced %r, not in the original tree" % n))
                elif okp[n] != (ln, h):
                    viol.append(("wrong-%s-path" % kind, "extractall(path) produced %r = %s.. (%d bytes), original %d bytes" % (
                        n, head, ln, okp[n][0])))
                    bad_extract = True
        else:
            bad_extract = True
    tz, ts = o.get("testzip"), o.get("test")
    if bad_extract and tz is not None and tz[0] == "ok" and tz[1] is None:
        viol.append(("testzip-certifies-damaged", "testzip() returned None while extraction %s" % (
            "raised %s" % sig_of(ex[1:]) if ex[0] != "ok" else "delivered different content")))
    if bad_extract and ts is not None and ts[0] == "ok" and ts[1] is True:
        viol.append(("test-certifies-damaged", "test() returned True while extraction %s" % (
            "raised %s" % sig_of(ex[1:]) if ex[0] != "ok" else "delivered different content")))
    if viol:
        return "VIOL:" + viol[0][0], viol
    if ex[0] != "ok":
        return "rejected", "extract:" + sig_of(ex[1:])
    if len(ex[1]) == len(pristine["extract"][1]):
        return "accepted-intact", ""
    return "accepted-partial", "%d of %d members delivered" % (len(ex[1]), len(pristine["extract"][1]))


def sig_of(e):
    """exception signature: class + the leading words of the message (numbers, byte strings, names removed)"""
    import re
    cls, msg = e[0], (e[1] if len(e) > 1 else "")
    if cls == "CrcError":
        return "CrcError(member)" if not msg.endswith("None") else "CrcError(folder)"
    msg = re.sub(r"""b?'[^']*'|b?"[^"]*"|0x[0-9a-f]+|[0-9]+""", "#", msg)
    return cls + ":" + " ".join(msg.split()[:4])[:32]


# ====================================================================== exploration driver
def explore(ctx):
    from harness.sandbox import run_sandboxed
    rep, tier = ctx["rep"], ctx["tier"]
    rng = random.Random(ctx["seed"])
    specs = archive_specs(tier)
    only = os.environ.get("C04_ONLY")
    if only:
        specs = [s for s in specs if only in s["label"]]
    jobs = []          # (spec index, [mut...])
    info = []
    for si, spec in enumerate(specs):
        base, pw = build_archive(spec)
        regs, hdrmode = layout(base, pw)
        muts = mutation_set(base, regs, rng, tier, spec.get("large", False))
        info.append({"spec": spec, "base": base, "pw": pw, "regs": regs, "hdrmode": hdrmode, "n": len(muts)})
        random.Random(ctx["seed"] + si).shuffle(muts)      # spread the slow cases (hangs) over the batches
        muts = [None] + muts
        bs = 120 if pw is None else 100
        for i in range(0, len(muts), bs):
            jobs.append((si, muts[i:i + bs]))
    timeout = 2.0 if tier == "quick" else 4.0
    table = {}
    viols = {}
    fatal = {}
    results = {}

    def run_job(job):
        si, ms = job
        a = info[si]
        arg = {"base": a["base"].hex(), "pw": a["pw"], "muts": ms, "timeout": timeout if a["pw"] is None else 12.0,
               "mem_mb": 1024, "path": a["spec"].get("path", False) or len([r for r in a["regs"] if r[2] == "packed"]) > 1,
               "budget": 400}
        r = run_sandboxed("harness.c04:batch_worker", arg, timeout=520, mem_mb=0)
        if r["status"] != "ok":
            return job, [{"fatal": "batch-" + r["status"], "msg": str(r)[:300]}] * len(ms)
        return job, r["value"]

    with ThreadPoolExecutor(max_workers=min(16, os.cpu_count() or 4)) as ex:
        for (si, ms), outs in ex.map(run_job, jobs):
            results.setdefault(si, []).extend(zip(ms, outs))
    for si, a in enumerate(info):
        spec = a["spec"]
        want_path = a["spec"].get("path", False) or len([r for r in a["regs"] if r[2] == "packed"]) > 1
        rs = results.get(si, [])
        pristine = None
        for m, o in rs:
            if m is None and pristine is None:
                pristine = o
        lab = spec["label"]
        if pristine is None or "fatal" in pristine or pristine.get("open") != "ok" or pristine["extract"][0] != "ok" \
                or (want_path and pristine.get("extract_path", ["err"])[0] != "ok"):
            rep.violation("intact archive %s is not read back: %r" % (lab, pristine), {"kind": "intact", "spec": spec},
                          match_keys={"kind": "intact-rejected", "archive": lab})
            continue
        tz, ts = pristine["testzip"], pristine["test"]
        rep.count(("intact", lab), nontrivial=True)
        if tz != ["ok", None] or ts[0] != "ok" or ts[1] is False:
            rep.violation("intact archive %s: test() = %r, testzip() = %r" % (lab, ts, tz),
                          {"kind": "intact", "spec": spec, "base": a["base"].hex()},
                          match_keys={"kind": "intact-flagged", "archive": lab, "test": repr(ts), "testzip": repr(tz)})
        rep.dist("intact_test_verdict", "%s: test()=%r" % (a["hdrmode"] + ("/aes" if a["pw"] else ""), ts[1]))
        for m, o in rs:
            if m is None:
                continue
            region = region_of(a["regs"], mut_pos(m, len(a["base"])))
            verdict, detail = judge(o, pristine, want_path)
            rep.count((lab, m), nontrivial=True)
            rep.dist("mutation_kind", m[0])
            cell = table.setdefault(lab, {}).setdefault(region, {})
            key = verdict if verdict != "rejected" else "rejected " + detail
            cell[key] = cell.get(key, 0) + 1
            if verdict.startswith("VIOL:"):
                for kind, text in detail:
                    mk = {"kind": kind, "region": region, "header": a["hdrmode"], "writer": spec["kind"]}
                    if kind.startswith("testzip") or kind.startswith("test-"):
                        mk["crc"] = spec.get("crc", "substream")
                        mk["extract"] = "raised" if o["extract"][0] != "ok" else "wrong"
                    g = viols.setdefault(json.dumps(mk, sort_keys=True), {"mk": mk, "n": 0, "first": None, "archives": set()})
                    g["n"] += 1
                    g["archives"].add(lab)
                    if g["first"] is None:
                        g["first"] = {"kind": "damage", "spec": spec, "base": a["base"].hex(), "pw": a["pw"], "mutation": m,
                                      "region": region, "text": text, "want_path": want_path, "outcome": o}
            elif verdict in ("hang", "memory", "crash") or verdict.startswith("batch-") or verdict == "skipped":
                mk = {"kind": verdict, "region": region, "header": a["hdrmode"], "writer": spec["kind"]}
                g = fatal.setdefault(json.dumps(mk, sort_keys=True), {"mk": mk, "n": 0, "first": None, "archives": set()})
                g["n"] += 1
                g["archives"].add(lab)
                if g["first"] is None:
                    g["first"] = {"kind": "damage", "spec": spec, "base": a["base"].hex(), "pw": a["pw"], "mutation": m,
                                  "region": region, "text": detail, "want_path": want_path, "outcome": o}
        rep.sample({"archive": lab, "bytes": len(a["base"]), "header": a["hdrmode"], "regions": a["regs"], "mutations": a["n"]})
    rep.extra["outcome_by_archive_and_region"] = table
    rep.extra["archives"] = [{"label": a["spec"]["label"], "bytes": len(a["base"]), "header": a["hdrmode"],
                              "mutations": a["n"]} for a in info]
    for g in viols.values():
        f = g["first"]
        rep.violation("%s [%d damaged images of %s; region %s, header %s] e.g. mutation %r of %s: %s" % (
            g["mk"]["kind"], g["n"], sorted(g["archives"])[:3], g["mk"]["region"], g["mk"]["header"], f["mutation"],
            f["spec"]["label"], f["text"]), f, match_keys=g["mk"])
    for g in fatal.values():
        f = g["first"]
        rep.violation("%s while reading a damaged archive (C05's subject) [%d images of %s; region %s, header %s] e.g. mutation %r" % (
            g["mk"]["kind"], g["n"], sorted(g["archives"])[:3], g["mk"]["region"], g["mk"]["header"], f["mutation"]),
            f, match_keys=g["mk"])
    return table, viols, fatal
