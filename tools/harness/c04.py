"""C04 -- damage is detected: no success with different content.

Exploration: small archives (py7zr-written: every codec family, with/without AES, raw / encoded /
encrypted header, 1..3 folders; mini7z-written: folder-level CRCs, encoded header with its CRC) x every
single-bit flip, every truncation length, byte overwrites, <= 32-bit bursts, block swaps in the packed
area, insertions / deletions / extensions.  Every damaged image is read in a child of a sandboxed batch
process (fork per image, wall-clock and address-space limit): open + getnames + extractall(factory),
test(), testzip() (and extractall(path) where symlinks / several folders are involved) and the outcome is
compared member by member with what the pristine image delivers.

Correspondence: the executable definitions of coq/theories/Damage.v (start-header check, next-header
check, calculate_crc32 chunking, the control flow of Worker.extract/_extract_single/_check, testzip(),
test()) against the implementation on the same inputs.
"""
import hashlib
import io
import json
import os
import random
import select
import shutil
import signal
import struct
import sys
import tempfile
import time
import zlib
from concurrent.futures import ThreadPoolExecutor

GEN_DEPS = []
LEVEL = "proof"
TRUSTED_BASE = [
    "Coq 8.16.1 kernel, vm_compute (no native_compute); Print Assumptions closed for every theorem of props/C04.v",
    "theories/Crc32.v crc32_update = zlib.crc32 (differentially tested here and in C17's run; check value in Crc32.v)",
    "theories/Damage.v as transcription of SignatureHeader._read, SevenZipFile._real_get_contents, Header._read (shape "
    "only), Worker.extract/_extract_single/_check/decompress (control flow), SevenZipFile.test/testzip; tied to the code "
    "by the correspondence runs of this harness (stubbed decoders for the control flow, real bytes for the header checks)",
    "extraction (ExtrOcamlBasic) + ocaml/driver.ml",
    "harness child processes memoise py7zr.compressor.calculate_key (pure function; 2^19 SHA-256 rounds per open otherwise)",
]
ASSUMPTIONS = [
    "decoders and the header parser are arbitrary functions in the theorems (Section variables, instantiated in the "
    "Examples); what a codec does with damaged input is explored, not proved",
    "parallel extraction (threads per folder) is modelled as sequential; scheduling is C13's subject",
    "hangs and memory blow-ups on damaged input are reported under kind=hang / kind=memory: C05's subject, not a C04 violation",
    "the junction branch of _extract_single (win32 only) is not modelled",
]

TOOLS = os.path.dirname(os.path.dirname(os.path.abspath(__file__)))
MAGIC = b"7z\xbc\xaf\x27\x1c"


# ====================================================================== mutations
def apply_mut(base, m):
    """m = [kind, ...]; bit numbering: bit j of byte i is bit 8*i+j (the order CRC-32 consumes them)"""
    b = bytearray(base)
    k = m[0]
    if k == "flip":
        b[m[1] >> 3] ^= 1 << (m[1] & 7)
    elif k == "burst":           # xor the (<= 32-bit) pattern m[2] into the bit string starting at bit m[1]
        v = m[2] << (m[1] & 7)
        i = m[1] >> 3
        while v and i < len(b):
            b[i] ^= v & 0xFF
            v >>= 8
            i += 1
    elif k == "ow":
        d = bytes.fromhex(m[2])
        b[m[1]:m[1] + len(d)] = d
    elif k == "trunc":
        del b[m[1]:]
    elif k == "ext":
        b += bytes.fromhex(m[1])
    elif k == "ins":
        b[m[1]:m[1]] = bytes.fromhex(m[2])
    elif k == "del":
        del b[m[1]:m[1] + m[2]]
    elif k == "swap":
        a, c, n = m[1], m[2], m[3]
        x, y = bytes(b[a:a + n]), bytes(b[c:c + n])
        b[a:a + n] = y
        b[c:c + n] = x
    else:
        raise ValueError(k)
    return bytes(b)


def mut_pos(m, n):
    """first byte position touched"""
    k = m[0]
    if k in ("flip", "burst"):
        return m[1] >> 3
    if k == "ext":
        return n
    return m[1]


# ====================================================================== archive builders
def number(v):
    for n in range(8):
        if v < 1 << (7 * (n + 1)):
            first = ((0xFF << (8 - n)) & 0xFF) | (v >> (8 * n))
            return bytes([first]) + (v & ((1 << (8 * n)) - 1)).to_bytes(n, "little")
    return b"\xff" + v.to_bytes(8, "little")


def _enc(chain, data):
    import bz2
    import lzma
    if chain == "copy":
        return bytes(data), b"\x00", None
    if chain == "lzma2":
        f = {"id": lzma.FILTER_LZMA2, "dict_size": 1 << 16}
        return lzma.compress(data, format=lzma.FORMAT_RAW, filters=[f]), b"\x21", lzma._encode_filter_properties(f)
    if chain == "lzma":
        f = {"id": lzma.FILTER_LZMA1, "dict_size": 1 << 16, "lc": 3, "lp": 0, "pb": 2}
        return lzma.compress(data, format=lzma.FORMAT_RAW, filters=[f]), b"\x03\x01\x01", lzma._encode_filter_properties(f)
    if chain == "deflate":
        c = zlib.compressobj(wbits=-15)
        return c.compress(data) + c.flush(), b"\x04\x01\x08", None
    if chain == "bzip2":
        return bz2.compress(data), b"\x04\x02\x02", None
    raise ValueError(chain)


def _coder(mid, props):
    out = b"\x01" + bytes([len(mid) | (0x20 if props is not None else 0)]) + mid
    if props is not None:
        out += number(len(props)) + props
    return out


def mini7z(folders, crc="folder", header="raw", pack_crc=False):
    """An independent, minimal 7z writer (written from docs/archive_format.rst; no py7zr code) for the layouts py7zr's
    own writer never produces.  folders: [(chain, [(name, data), ...]), ...].
    crc: "folder" (kCRC in UnpackInfo only: 7-Zip's non-solid layout when each folder holds one file),
         "substream" (kCRC in SubStreamsInfo), "both".
    header: "raw" | "lzma" (encoded, folder CRC of the header stored, as 7-Zip does) | "lzma-nocrc" |
            "copy" (encoded with the Copy coder, CRC stored: only that CRC stands between damage and the parser)."""
    packed, fbytes, usizes, fcrcs = [], b"", b"", []
    for chain, ms in folders:
        whole = b"".join(d for _, d in ms)
        p, mid, props = _enc(chain, whole)
        packed.append(p)
        fbytes += _coder(mid, props)
        usizes += number(len(whole))
        fcrcs.append(zlib.crc32(whole))
    h = b"\x01\x04"
    h += b"\x06" + number(0) + number(len(packed)) + b"\x09" + b"".join(number(len(p)) for p in packed)
    if pack_crc:
        h += b"\x0a\x01" + b"".join(struct.pack("<L", zlib.crc32(p)) for p in packed)
    h += b"\x00"
    h += b"\x07\x0b" + number(len(folders)) + b"\x00" + fbytes + b"\x0c" + usizes
    if crc in ("folder", "both"):
        h += b"\x0a\x01" + b"".join(struct.pack("<L", c) for c in fcrcs)
    h += b"\x00"
    h += b"\x08"
    nums = [len(ms) for _, ms in folders]
    if any(n != 1 for n in nums):
        h += b"\x0d" + b"".join(number(n) for n in nums)
        h += b"\x09" + b"".join(number(len(d)) for _, ms in folders for _, d in ms[:-1])
    sub = []
    for (chain, ms), n in zip(folders, nums):
        if n == 1 and crc in ("folder", "both"):
            continue           # known from the folder CRC: never repeated
        if crc in ("substream", "both"):
            sub += [zlib.crc32(d) for _, d in ms]
    if sub:
        h += b"\x0a\x01" + b"".join(struct.pack("<L", c) for c in sub)
    h += b"\x00\x00"
    names = [n for _, ms in folders for n, _ in ms]
    h += b"\x05" + number(len(names))
    nb = b"\x00" + b"".join(n.encode("utf-16-le") + b"\0\0" for n in names)
    h += b"\x11" + number(len(nb)) + nb
    ab = b"\x01\x00" + b"".join(struct.pack("<L", 0x20) for _ in names)
    h += b"\x15" + number(len(ab)) + ab
    h += b"\x00\x00"
    body = b"".join(packed)
    if header != "raw":
        ph, mid, props = _enc("copy" if header == "copy" else "lzma2", h)
        eh = b"\x17\x06" + number(len(body)) + number(1) + b"\x09" + number(len(ph)) + b"\x00"
        eh += b"\x07\x0b" + number(1) + b"\x00" + _coder(mid, props) + b"\x0c" + number(len(h))
        if header in ("lzma", "copy"):
            eh += b"\x0a\x01" + struct.pack("<L", zlib.crc32(h))
        eh += b"\x00\x00"
        body += ph
        h = eh
    start = struct.pack("<QQL", len(body), len(h), zlib.crc32(h))
    return MAGIC + b"\x00\x04" + struct.pack("<L", zlib.crc32(start)) + start + body + h


M3 = [("a.txt", b"hello world, hello"), ("b/c.bin", bytes(range(7, 47))), ("e", b"")]
M2 = [("x.dat", b"\x00\x01\x02 damage me \xff\xfe"), ("y", b"yyyyyyyyyyyyyyyy")]
M1 = [("z.z", b"zzzz-zzzz-zzzz")]
MLONG = [("directory-with-a-long-name/and-a-member-with-a-long-name.txt", b"0123456789abcdef0123")]


def forge_crc(prefix, target):
    """prefix + 4 bytes whose CRC-32 is `target` (the stored digest then takes a boundary value: 0 is falsy in Python)"""
    T = []
    for i in range(256):
        c = i
        for _ in range(8):
            c = (c >> 1) ^ 0xEDB88320 if c & 1 else c >> 1
        T.append(c)
    rev = {T[i] >> 24: i for i in range(256)}
    x, idx = target ^ 0xFFFFFFFF, []
    for _ in range(4):
        i = rev[x >> 24]
        idx.append(i)
        x = ((x ^ T[i]) << 8) & 0xFFFFFFFF
    c, out = zlib.crc32(prefix) ^ 0xFFFFFFFF, bytearray()
    for i in reversed(idx):
        b = (c ^ i) & 0xFF
        out.append(b)
        c = (c >> 8) ^ T[(c ^ b) & 0xFF]
    data = bytes(prefix) + bytes(out)
    assert zlib.crc32(data) == target, (zlib.crc32(data), target)
    return data


MCRC = [("crc0.bin", forge_crc(b"member whose CRC-32 is zero ", 0)), ("crcf.bin", forge_crc(b"all ones ", 0xFFFFFFFF))]


def symlink_archive(encoded=False):
    """copy-coded archive holding a directory, two files and a symbolic link (writeall)"""
    import py7zr
    from py7zr.properties import FILTER_COPY
    d = tempfile.mkdtemp(prefix="c04s")
    try:
        src = os.path.join(d, "s")
        os.makedirs(src)
        for n, c in (("target_aaaa.txt", b"AAAA content"), ("target_baaa.txt", b"BBBB content")):
            with open(os.path.join(src, n), "wb") as f:
                f.write(c)
            os.utime(os.path.join(src, n), (1600000000, 1600000000))
        os.symlink("target_aaaa.txt", os.path.join(src, "link"))
        bio = io.BytesIO()
        with py7zr.SevenZipFile(bio, "w", filters=[{"id": FILTER_COPY}]) as z:
            z.set_encoded_header_mode(encoded)
            z.writeall(src, "s")
        return bio.getvalue()
    finally:
        shutil.rmtree(d, ignore_errors=True)


def archive_specs(tier):
    """(label, builder kwargs) -- quick: the small set; thorough: every chain x header mode + larger members"""
    from harness import arch
    S = []

    def py(label, members, chain, **kw):
        S.append({"label": label, "kind": "py7zr", "members": members, "chain": chain, **kw})

    py("copy/raw", M3, "copy", encoded=False)
    py("lzma2/encoded", M3, "lzma2", encoded=True)
    py("deflate/raw", M2, "deflate", encoded=False, reduced=True)
    py("bzip2/raw", M1, "bzip2", encoded=False, reduced=True)
    py("zstd/raw", M2, "zstd", encoded=False, reduced=True)
    py("ppmd/raw", M2, "ppmd", encoded=False, reduced=True)
    py("copy+aes/raw", M2, "copy+aes", encoded=False)
    py("lzma2+aes/encrypted", M1, "lzma2+aes", encoded=True, header_enc=True, reduced=True)
    py("copy+aes/encrypted long name", MLONG, "copy+aes", encoded=True, header_enc=True, reduced=True)
    py("copy/raw stored CRCs 0 and ffffffff", MCRC, "copy", encoded=False, reduced=True)
    py("copy+aes/raw stored CRCs 0 and ffffffff", MCRC, "copy+aes", encoded=False, reduced=True)
    py("copy|lzma2|deflate/raw 3 folders", M1, "copy", encoded=False, sessions=[(M2[:1], "lzma2"), ([("q", b"qqqqqqqq")], "deflate")])
    S.append({"label": "symlink copy/raw", "kind": "symlink", "path": True})
    S.append({"label": "mini copy folder-crc/raw 2 folders", "kind": "mini", "folders": [("copy", M1), ("copy", M2[:1])],
              "crc": "folder", "header": "raw"})
    S.append({"label": "mini lzma2 folder-crc/lzma+crc", "kind": "mini", "folders": [("lzma2", M2[:1])], "crc": "folder",
              "header": "lzma", "reduced": True})
    S.append({"label": "mini deflate substream-crc/lzma+crc", "kind": "mini", "folders": [("deflate", M2)],
              "crc": "substream", "header": "lzma", "reduced": True})
    S.append({"label": "mini copy substream-crc/copy+crc", "kind": "mini", "folders": [("copy", M2)],
              "crc": "substream", "header": "copy", "reduced": True})
    # two members in one folder, only the folder CRC stored: nothing but Worker.decompress's end-of-folder check guards them
    S.append({"label": "mini copy solid folder-crc only/raw", "kind": "mini", "folders": [("copy", M2)],
              "crc": "folder", "header": "raw", "reduced": True})
    if tier != "quick":
        for ch in ["copy", "lzma2", "lzma", "deflate", "bzip2", "zstd", "ppmd", "brotli", "delta+lzma2", "x86+lzma2",
                   "arm+lzma", "x86+deflate", "x86+bzip2"]:
            for enc in (False, True):
                py("%s/%s" % (ch, "encoded" if enc else "raw"), M3 if enc else M2, ch, encoded=enc)
        for ch in ["lzma2+aes", "copy+aes", "deflate+aes", "zstd+aes", "bzip2+aes", "aes"]:
            py("%s/raw" % ch, M2, ch, encoded=False)
            py("%s/encoded" % ch, M1, ch, encoded=True)
            py("%s/encrypted" % ch, M1, ch, encoded=True, header_enc=True)
        py("lzma2|lzma2/encoded 2 folders", M2, "lzma2", encoded=True, sessions=[(M1, "lzma2")])
        py("bzip2|copy|zstd|ppmd/encoded 4 folders", M1, "bzip2", encoded=True,
           sessions=[([("p", b"pppp")], "copy"), ([("q", b"qqqq" * 3)], "zstd"), ([("r", b"rrrr-rrrr")], "ppmd")])
        S.append({"label": "symlink copy/encoded", "kind": "symlink", "path": True, "encoded": True})
        for chain in ("copy", "lzma2", "deflate", "bzip2"):
            S.append({"label": "mini %s folder-crc/raw" % chain, "kind": "mini", "folders": [(chain, M2[:1]), (chain, M1)],
                      "crc": "folder", "header": "raw"})
        S.append({"label": "mini copy both-crc/lzma+crc packcrc", "kind": "mini", "folders": [("copy", M2), ("copy", M1)], "crc": "both",
                  "header": "lzma", "pack_crc": True})
        S.append({"label": "mini copy substream-crc packcrc/raw", "kind": "mini", "folders": [("copy", M2)], "crc": "substream",
                  "header": "raw", "pack_crc": True})
        rng = random.Random(4)
        big = [("big1.bin", arch.pattern_bytes(rng, 30000, "text")), ("big2.bin", arch.pattern_bytes(rng, 9000, "random"))]
        for ch in ("lzma2", "copy", "deflate", "zstd", "bzip2", "lzma2+aes"):
            py("%s/encoded large" % ch, big, ch, encoded=True, large=True)
    return S


def build_archive(spec):
    from harness import arch
    import py7zr.compressor as comp
    if spec["kind"] == "py7zr":
        pw = "secret" if arch.needs_pw(spec["chain"]) else None
        ivs = random.Random(spec["label"])                 # AES IVs: reproducible archives (documented patch point)
        saved = comp.get_random_bytes
        comp.get_random_bytes = lambda n: ivs.randbytes(n)
        try:
            data = arch.make_archive(spec["members"], spec["chain"], password=pw, header_enc=spec.get("header_enc", False),
                                     encoded=spec.get("encoded", True), sessions=spec.get("sessions"))
        finally:
            comp.get_random_bytes = saved
        return data, pw
    if spec["kind"] == "symlink":
        return symlink_archive(spec.get("encoded", False)), None
    if spec["kind"] == "mini":
        return mini7z([(c, [tuple(m) for m in ms]) for c, ms in spec["folders"]], spec["crc"], spec["header"],
                      spec.get("pack_crc", False)), None
    raise ValueError(spec["kind"])


# ====================================================================== layout of an archive (regions)
def layout(base, pw):
    """[(start, end, label)] covering the file; labels: magic, version, start-crc, start-fields, packed<i>,
    encoded-header-stream, next-header, gap, trailing"""
    import py7zr
    import py7zr.archiveinfo as ai
    regs = [(0, 6, "magic"), (6, 8, "version"), (8, 12, "start-crc"), (12, 32, "start-fields")]
    ofs, size, _ = struct.unpack("<QQL", base[12:32])
    nh = (32 + ofs, 32 + ofs + size)
    inner = []
    with py7zr.SevenZipFile(io.BytesIO(base), password=pw) as z:
        ms = z.header.main_streams
        if ms is not None:
            pp = ms.packinfo.packpositions
            for i in range(len(pp) - 1):
                inner.append((32 + ms.packinfo.packpos + pp[i], 32 + ms.packinfo.packpos + pp[i + 1], "packed"))
    hdrmode = "raw"
    if base[nh[0]:nh[0] + 1] == b"\x17":
        hs = ai.HeaderStreamsInfo.retrieve(io.BytesIO(base[nh[0] + 1:nh[1]]))
        inner.append((32 + hs.packinfo.packpos, 32 + hs.packinfo.packpos + hs.packinfo.packsizes[0], "encoded-header-stream"))
        coders = hs.unpackinfo.folders[0].coders
        hdrmode = "encrypted" if any(c["method"] == b"\x06\xf1\x07\x01" for c in coders) else "encoded"
        if hs.unpackinfo.folders[0].digestdefined:
            hdrmode += "+crc"
    inner.append((nh[0], nh[1], "next-header"))
    inner.sort()
    pos = 32
    for a, b, lab in inner:
        if a > pos:
            regs.append((pos, a, "gap"))
        regs.append((a, b, lab))
        pos = max(pos, b)
    if pos < len(base):
        regs.append((pos, len(base), "trailing"))
    return regs, hdrmode


def region_of(regs, pos):
    for a, b, lab in regs:
        if a <= pos < b:
            return lab
    return "beyond"


# ====================================================================== probing one image (runs in a forked child)
def _err(e):
    return [type(e).__name__, " ".join(str(a) for a in getattr(e, "args", ()))[:80]]


def _digest(pairs):
    return [[n, len(d), hashlib.sha1(d).hexdigest()[:16], d[:24].hex()] for n, d in pairs]


def _tree(root):
    out = []
    for dp, dns, fns in os.walk(root, followlinks=False):
        for n in sorted(dns + fns):
            p = os.path.join(dp, n)
            rel = os.path.relpath(p, root)
            if os.path.islink(p):
                t = os.readlink(p).encode("utf-8", "surrogateescape")
                out.append(["L:" + rel, len(t), hashlib.sha1(t).hexdigest()[:16], t[:24].hex()])
            elif os.path.isfile(p):
                with open(p, "rb") as f:
                    d = f.read()
                out.append([rel, len(d), hashlib.sha1(d).hexdigest()[:16], d[:24].hex()])
    return sorted(out)


class _Timeout(BaseException):
    pass


def _blown(e):
    """a MemoryError after the process really grew (high-water mark above 400 MiB) is a memory blow-up; a MemoryError
    raised up front by a decoder that refuses an absurd request is an ordinary error: the read fails cleanly"""
    import resource
    return isinstance(e, MemoryError) and resource.getrusage(resource.RUSAGE_SELF).ru_maxrss > 400 * 1024


def probe_image(img, pw, tmp, want_path):
    import py7zr
    from harness import arch
    out = {}
    try:
        z = py7zr.SevenZipFile(io.BytesIO(img), "r", password=pw)
    except _Timeout:
        raise
    except BaseException as e:  # noqa
        if _blown(e):
            return {"fatal": "memory"}
        out["open"] = _err(e)
        return out
    out["open"] = "ok"
    fac = arch.Collect()
    try:
        out["names"] = z.getnames()
        z.extractall(factory=fac)
        out["extract"] = ["ok", _digest(fac.as_list())]
    except _Timeout:
        raise
    except BaseException as e:  # noqa
        if _blown(e):
            return {"fatal": "memory"}
        out["extract"] = ["err"] + _err(e)
    finally:
        try:
            z.close()
        except _Timeout:
            raise
        except BaseException:  # noqa
            pass
    path = os.path.join(tmp, "x.7z")
    if want_path:
        with open(path, "wb") as f:
            f.write(img)
    # test() and testzip() on one session (both start from a reset worker); from a file when the archive is also
    # extracted to a directory (several folders: py7zr then uses one thread per folder), else from memory
    try:
        z = py7zr.SevenZipFile(path if want_path else io.BytesIO(img), "r", password=pw)
    except _Timeout:
        raise
    except BaseException as e:  # noqa
        if _blown(e):
            return {"fatal": "memory"}
        out["test"] = out["testzip"] = ["err"] + _err(e)
        z = None
    if z is not None:
        try:
            for call in ("test", "testzip"):
                try:
                    v = getattr(z, call)()
                    out[call] = ["ok", v]
                except _Timeout:
                    raise
                except BaseException as e:  # noqa
                    if _blown(e):
                        return {"fatal": "memory"}
                    out[call] = ["err"] + _err(e)
        finally:
            try:
                z.close()
            except _Timeout:
                raise
            except BaseException:  # noqa
                pass
    if want_path:
        # opened from a stream py7zr walks the folders one after the other (no threads): a different branch of Worker.extract
        try:
            with py7zr.SevenZipFile(io.BytesIO(img), "r", password=pw) as z:
                out["testzip_stream"] = ["ok", z.testzip()]
        except _Timeout:
            raise
        except BaseException as e:  # noqa
            if _blown(e):
                return {"fatal": "memory"}
            out["testzip_stream"] = ["err"] + _err(e)
        dest = os.path.join(tmp, "out")
        shutil.rmtree(dest, ignore_errors=True)
        try:
            with py7zr.SevenZipFile(path, "r", password=pw) as z:
                z.extractall(dest)
            out["extract_path"] = ["ok", _tree(dest)]
        except _Timeout:
            raise
        except BaseException as e:  # noqa
            if _blown(e):
                return {"fatal": "memory"}
            out["extract_path"] = ["err"] + _err(e)
    return out


def run_forked(fn, timeout, mem_mb):
    """fn() in a forked child under RLIMIT_AS and a wall-clock limit; {"fatal": "hang"|"memory"|"crash"} otherwise"""
    import resource
    r, w = os.pipe()
    pid = os.fork()
    if pid == 0:
        code = 0
        try:
            os.close(r)
            if mem_mb:
                resource.setrlimit(resource.RLIMIT_AS, (mem_mb << 20, mem_mb << 20))
            try:
                res = fn()
            except MemoryError:
                res = {"fatal": "memory"}
            except BaseException as e:  # noqa
                res = {"fatal": "crash", "msg": "%s: %s" % (type(e).__name__, str(e)[:200])}
            data = json.dumps(res, default=str).encode()
            while data:
                n = os.write(w, data)
                data = data[n:]
        except BaseException:  # noqa
            code = 3
        finally:
            os._exit(code)
    os.close(w)
    chunks = []
    deadline = time.time() + timeout
    hung = False
    while True:
        left = deadline - time.time()
        if left <= 0:
            hung = True
            break
        rd, _, _ = select.select([r], [], [], left)
        if not rd:
            hung = True
            break
        c = os.read(r, 65536)
        if not c:
            break
        chunks.append(c)
    os.close(r)
    if hung:
        try:
            os.kill(pid, signal.SIGKILL)
        except OSError:
            pass
    _, status = os.waitpid(pid, 0)
    if hung:
        return {"fatal": "hang"}
    try:
        return json.loads(b"".join(chunks).decode())
    except ValueError:
        return {"fatal": "crash", "msg": "status %d" % status}


def run_inproc(fn, timeout):
    """fn() in this process under an interval timer (the spinning loops of the code under test are Python loops)"""
    def on_alarm(signum, frame):
        raise _Timeout()
    old = signal.signal(signal.SIGALRM, on_alarm)
    signal.setitimer(signal.ITIMER_REAL, timeout)
    try:
        return fn()
    except _Timeout:
        return {"fatal": "hang"}
    except MemoryError:
        return {"fatal": "memory"}
    finally:
        signal.setitimer(signal.ITIMER_REAL, 0)
        signal.signal(signal.SIGALRM, old)


def batch_worker(arg):
    """sandbox target: arg = {base: hex, pw, muts: [...], timeout, mem_mb, path: bool, budget: seconds,
    mode: "inproc" (fast; one process, interval timer per image) | "fork" (one child per image: full isolation)}"""
    import functools
    import resource
    import threading
    import py7zr  # noqa
    import py7zr.compressor as comp
    if not hasattr(comp.calculate_key, "cache_info"):
        comp.calculate_key = functools.lru_cache(maxsize=256)(comp.calculate_key)
    base = bytes.fromhex(arg["base"])
    pw = arg.get("pw")
    tmp = tempfile.mkdtemp(prefix="c04b")
    t0 = time.time()
    out = []
    limited = False
    try:
        try:       # warm lazy imports / caches / the AES key cache (inherited by the forked children)
            probe_image(base, pw, tmp, arg.get("path", False))
        except BaseException:  # noqa
            pass
        for m in arg["muts"]:
            if time.time() - t0 > arg.get("budget", 1e9):
                out.append({"fatal": "skipped"})
                continue
            img = base if m is None else apply_mut(base, m)
            if arg.get("mode", "fork") == "fork":
                out.append(run_forked(lambda: probe_image(img, pw, tmp, arg.get("path", False)), arg.get("timeout", 5),
                                      arg.get("mem_mb", 1024)))
            elif threading.active_count() > 1:
                out.append({"fatal": "skipped"})            # a worker thread of an interrupted call is still alive
            else:
                if not limited and arg.get("mem_mb"):
                    resource.setrlimit(resource.RLIMIT_AS, (arg["mem_mb"] << 20, arg["mem_mb"] << 20))
                    limited = True
                out.append(run_inproc(lambda: probe_image(img, pw, tmp, arg.get("path", False)), arg.get("timeout", 5)))
    finally:
        shutil.rmtree(tmp, ignore_errors=True)
    return out


# ====================================================================== mutation sets
def mutation_set(base, regs, rng, tier, large=False, reduced=False):
    """full: every bit, every truncation length, overwrites everywhere.  reduced (quick tier, second half of the
    archives): every bit of the start header and of the packed streams (the regions only decoders and member CRCs
    guard), every 8th bit of the next header (one CRC guards all of it), every 4th truncation length."""
    n = len(base)
    muts = []
    packed = [(a, b) for a, b, lab in regs if lab in ("packed", "encoded-header-stream")]
    if reduced:
        dense = [False] * n
        for a, b, lab in regs:
            if lab != "next-header":
                for i in range(a, min(b, n)):
                    dense[i] = True
        muts += [["flip", i] for i in range(8 * n) if dense[i >> 3] or i % 8 == 1]
        muts += [["trunc", k] for k in range(0, n, 4)]
        nb = 60
    elif not large:
        muts += [["flip", i] for i in range(8 * n)]                     # exhaustive
        muts += [["trunc", k] for k in range(n)]                        # every truncation length
        step = 2 if tier != "quick" else 5
        for p in range(0, n, step):
            muts.append(["ow", p, "%02x" % (base[p] ^ 0xFF)])
            muts.append(["ow", p, "00" if base[p] else "01"])
        nb = 150 if tier == "quick" else 800
    else:
        pos = set(range(0, 8 * 32))
        for a, b, lab in regs:
            for q in (a, a + 1, (a + b) // 2, b - 2, b - 1):
                if a <= q < b:
                    pos.update(range(8 * q, 8 * q + 8))
        pos.update(rng.randrange(8 * n) for _ in range(4000))
        muts += [["flip", i] for i in sorted(pos)]
        muts += [["trunc", k] for k in sorted(set(list(range(0, 64)) + [rng.randrange(n) for _ in range(300)] + list(range(n - 64, n))))]
        nb = 1500
    for _ in range(nb):                                                  # bursts: <= 32 consecutive bits
        w = rng.choice([2, 3, 8, 9, 16, 17, 31, 32])
        mask = rng.getrandbits(w) | 1 | (1 << (w - 1))
        muts.append(["burst", rng.randrange(8 * n - w + 1), mask])
    for _ in range((20 if reduced else 60) if tier == "quick" else 400):  # multi-byte overwrites
        p = rng.randrange(n)
        muts.append(["ow", p, rng.randbytes(rng.choice([2, 4, 5, 8, 16])).hex()])
    for a, b in packed:                                                  # block swaps inside the packed area
        for _ in range(25 if tier == "quick" else 150):
            ln = rng.choice([1, 2, 4, 8, 16])
            if b - a >= 2 * ln:
                x = rng.randrange(a, b - 2 * ln + 1)
                y = rng.randrange(x + ln, b - ln + 1)
                if base[x:x + ln] != base[y:y + ln]:
                    muts.append(["swap", x, y, ln])
    for _ in range((20 if reduced else 50) if tier == "quick" else 300):  # insertions / deletions
        p = rng.randrange(n + 1)
        muts.append(["ins", p, rng.randbytes(rng.choice([1, 1, 2, 4, 16])).hex()])
        p = rng.randrange(n)
        muts.append(["del", p, rng.choice([1, 1, 2, 4, 16])])
    for ext in ("00", "ff" * 3, MAGIC.hex(), base[-20:].hex(), base.hex()):
        muts.append(["ext", ext])
    return muts


# ====================================================================== judging one outcome
GOOD_TESTZIP = None      # "no bad file"


def judge(o, pristine, want_path):
    """returns (verdict, detail); verdict in
       hang | memory | crash | rejected | accepted-intact | accepted-partial | VIOL:<kind>"""
    if "fatal" in o:
        return o["fatal"], o.get("msg", "")
    if o["open"] != "ok":
        return "rejected", "open:" + sig_of(o["open"])
    viol = []
    ex = o["extract"]
    ok_map = {n: (ln, h) for n, ln, h, _ in pristine["extract"][1]}
    bad_extract = ex[0] != "ok"
    if ex[0] == "ok":
        for n, ln, h, head in ex[1]:
            if n not in ok_map:
                viol.append(("wrong-name", "extractall(factory) delivered %r (%d bytes), not a member of the original" % (n, ln)))
            elif ok_map[n] != (ln, h):
                viol.append(("wrong-content", "extractall(factory) delivered %r with %d bytes %s.., original has %d bytes" % (
                    n, ln, head, ok_map[n][0])))
                bad_extract = True
    if want_path and "extract_path" in o:
        ep = o["extract_path"]
        okp = {n: (ln, h) for n, ln, h, _ in pristine["extract_path"][1]}
        if ep[0] == "ok":
            for n, ln, h, head in ep[1]:
                kind = "symlink-target" if n.startswith("L:") else "content"
                if n not in okp:
                    viol.append(("wrong-name-path", "extractall(path) produced %r, not in the original tree" % n))
                elif okp[n] != (ln, h):
                    viol.append(("wrong-%s-path" % kind, "extractall(path) produced %r = %s.. (%d bytes), original %d bytes" % (
                        n, head, ln, okp[n][0])))
                    bad_extract = True
        else:
            bad_extract = True
    tz, ts = o.get("testzip"), o.get("test")
    for key, how in (("testzip", ""), ("testzip_stream", " (archive opened from a stream)")):
        v = o.get(key)
        if bad_extract and v is not None and v[0] == "ok" and v[1] is None:
            viol.append(("testzip-certifies-damaged", "testzip()%s returned None while extraction %s" % (
                how, "raised %s" % sig_of(ex[1:]) if ex[0] != "ok" else "delivered different content")))
            break
    if bad_extract and ts is not None and ts[0] == "ok" and ts[1] is True:
        viol.append(("test-certifies-damaged", "test() returned True while extraction %s" % (
            "raised %s" % sig_of(ex[1:]) if ex[0] != "ok" else "delivered different content")))
    if viol:
        return "VIOL:" + viol[0][0], viol
    if ex[0] != "ok":
        return "rejected", "extract:" + sig_of(ex[1:])
    if len(ex[1]) == len(pristine["extract"][1]):
        return "accepted-intact", ""
    return "accepted-partial", "%d of %d members delivered" % (len(ex[1]), len(pristine["extract"][1]))


def sig_of(e):
    """exception signature: class + the leading words of the message (numbers, byte strings, names removed)"""
    import re
    cls, msg = e[0], (e[1] if len(e) > 1 else "")
    if cls == "CrcError":
        return "CrcError(member)" if not msg.endswith("None") else "CrcError(folder)"
    msg = re.sub(r"""b?'[^']*'|b?"[^"]*"|0x[0-9a-f]+|[0-9]+""", "#", msg)
    return cls + ":" + " ".join(msg.split()[:4])[:32]


# ====================================================================== exploration driver
def explore(ctx):
    from harness.sandbox import run_sandboxed
    rep, tier = ctx["rep"], ctx["tier"]
    rng = random.Random(ctx["seed"])
    specs = archive_specs(tier)
    only = os.environ.get("C04_ONLY")
    if only:
        specs = [s for s in specs if only in s["label"]]
    jobs = []          # (spec index, [mut...])
    info = []
    for si, spec in enumerate(specs):
        base, pw = build_archive(spec)
        regs, hdrmode = layout(base, pw)
        muts = mutation_set(base, regs, rng, tier, spec.get("large", False), reduced=(tier == "quick" and spec.get("reduced", False)))
        info.append({"spec": spec, "base": base, "pw": pw, "regs": regs, "hdrmode": hdrmode, "n": len(muts)})
        random.Random(ctx["seed"] + si).shuffle(muts)      # spread the slow cases (hangs) over the batches
        muts = [None] + muts
        bs = 250 if pw is None else 200
        for i in range(0, len(muts), bs):
            jobs.append((si, muts[i:i + bs]))
    timeout = 2.0 if tier == "quick" else 3.0
    table = {}
    viols = {}
    fatal = {}
    results = {}

    def threaded(a):
        # several folders + opened by path + no password: py7zr extracts with one thread per folder
        return a["pw"] is None and len([r for r in a["regs"] if r[2] == "packed"]) > 1

    def run_job(job, mode=None, tmo=None):
        si, ms = job
        a = info[si]
        mode = mode or ("fork" if threaded(a) else "inproc")
        arg = {"base": a["base"].hex(), "pw": a["pw"], "muts": ms, "timeout": tmo or (timeout if a["pw"] is None else 12.0),
               "mem_mb": 1024, "path": a["spec"].get("path", False) or len([r for r in a["regs"] if r[2] == "packed"]) > 1,
               "budget": 400, "mode": mode}
        r = run_sandboxed("harness.c04:batch_worker", arg, timeout=520 if mode == "fork" else 60 + 3 * len(ms), mem_mb=0)
        if r["status"] != "ok":
            return job, [{"fatal": "batch-" + r["status"], "msg": str(r)[:300]}] * len(ms)
        return job, r["value"]

    t_explore = time.time()
    with ThreadPoolExecutor(max_workers=min(16, os.cpu_count() or 4)) as ex:
        for (si, ms), outs in ex.map(run_job, jobs):
            results.setdefault(si, []).extend(zip(ms, outs))
        # second pass, full isolation and a longer limit: everything that did not produce an outcome
        redo = {}
        for si, rs in results.items():
            for idx, (m, o) in enumerate(rs):
                if o.get("fatal") in ("hang", "crash", "skipped", "memory") or str(o.get("fatal", "")).startswith("batch-"):
                    redo.setdefault(si, []).append(idx)
        jobs2 = []
        for si, idxs in redo.items():
            if tier != "quick" and len(idxs) > 80:          # confirm a sample; the rest keep their first-pass verdict
                random.Random(ctx["seed"] + si).shuffle(idxs)
                idxs = sorted(idxs[:80])
            for i in range(0, len(idxs), 4):
                jobs2.append((si, idxs[i:i + 4]))
        rep.extra["second_pass_images"] = sum(len(v) for v in redo.values())

        def run_job2(j):
            si, idxs = j
            _, outs = run_job((si, [results[si][i][0] for i in idxs]), mode="fork", tmo=(10.0 if tier == "quick" else 15.0) if info[si]["pw"] is None else 30.0)
            return si, idxs, outs
        for si, idxs, outs in ex.map(run_job2, jobs2):
            for i, o in zip(idxs, outs):
                results[si][i] = (results[si][i][0], o)
    rep.extra["exploration_seconds"] = round(time.time() - t_explore, 1)
    for si, a in enumerate(info):
        spec = a["spec"]
        want_path = a["spec"].get("path", False) or len([r for r in a["regs"] if r[2] == "packed"]) > 1
        rs = results.get(si, [])
        pristine = None
        for m, o in rs:
            if m is None and pristine is None:
                pristine = o
        lab = spec["label"]
        if pristine is None or "fatal" in pristine or pristine.get("open") != "ok" or pristine["extract"][0] != "ok" \
                or (want_path and pristine.get("extract_path", ["err"])[0] != "ok"):
            rep.violation("intact archive %s is not read back: %r" % (lab, pristine), {"kind": "intact", "spec": spec},
                          match_keys={"kind": "intact-rejected", "archive": lab})
            continue
        tz, ts = pristine["testzip"], pristine["test"]
        rep.count(("intact", lab), nontrivial=True)
        if tz != ["ok", None] or ts[0] != "ok" or ts[1] is False or pristine.get("testzip_stream", ["ok", None]) != ["ok", None]:
            rep.violation("intact archive %s: test() = %r, testzip() = %r" % (lab, ts, tz),
                          {"kind": "intact", "spec": spec, "base": a["base"].hex()},
                          match_keys={"kind": "intact-flagged", "archive": lab, "test": repr(ts), "testzip": repr(tz)})
        rep.dist("intact_test_verdict", "%s: test()=%r" % (a["hdrmode"] + ("/aes" if a["pw"] else ""), ts[1]))
        for m, o in rs:
            if m is None:
                continue
            region = region_of(a["regs"], mut_pos(m, len(a["base"])))
            verdict, detail = judge(o, pristine, want_path)
            rep.count((lab, m), nontrivial=True)
            rep.dist("mutation_kind", m[0])
            cell = table.setdefault(lab, {}).setdefault(region, {})
            key = verdict if verdict != "rejected" else "rejected " + detail
            cell[key] = cell.get(key, 0) + 1
            if verdict.startswith("VIOL:"):
                for kind, text in detail:
                    mk = {"kind": kind, "region": region, "header": a["hdrmode"], "writer": spec["kind"]}
                    if kind.startswith("testzip") or kind.startswith("test-"):
                        ex = o["extract"]
                        if ex[0] == "ok" and "extract_path" in o and o["extract_path"][0] != "ok":
                            ex = o["extract_path"]
                        # what extraction did with the same image: "CrcError(folder)", "CrcError(member)", "<class>:...", "wrong"
                        mk["extract"] = sig_of(ex[1:]).split(":")[0] if ex[0] != "ok" else "wrong"
                    g = viols.setdefault(json.dumps(mk, sort_keys=True), {"mk": mk, "n": 0, "first": None, "archives": set()})
                    g["n"] += 1
                    g["archives"].add(lab)
                    if g["first"] is None:
                        g["first"] = {"kind": "damage", "spec": spec, "base": a["base"].hex(), "pw": a["pw"], "mutation": m,
                                      "region": region, "text": text, "want_path": want_path, "outcome": o}
            elif verdict in ("hang", "memory", "crash") or verdict.startswith("batch-") or verdict == "skipped":
                mk = {"kind": verdict, "region": region, "header": a["hdrmode"], "writer": spec["kind"]}
                g = fatal.setdefault(json.dumps(mk, sort_keys=True), {"mk": mk, "n": 0, "first": None, "archives": set()})
                g["n"] += 1
                g["archives"].add(lab)
                if g["first"] is None:
                    g["first"] = {"kind": "damage", "spec": spec, "base": a["base"].hex(), "pw": a["pw"], "mutation": m,
                                  "region": region, "text": detail, "want_path": want_path, "outcome": o}
        rep.sample({"archive": lab, "bytes": len(a["base"]), "header": a["hdrmode"], "regions": a["regs"], "mutations": a["n"]})
    rep.extra["outcome_by_archive_and_region"] = table
    rep.extra["archives"] = [{"label": a["spec"]["label"], "bytes": len(a["base"]), "header": a["hdrmode"],
                              "mutations": a["n"]} for a in info]
    for g in viols.values():
        f = g["first"]
        rep.violation("%s [%d damaged images of %s; region %s, header %s] e.g. mutation %r of %s: %s" % (
            g["mk"]["kind"], g["n"], sorted(g["archives"])[:3], g["mk"]["region"], g["mk"]["header"], f["mutation"],
            f["spec"]["label"], f["text"]), f, match_keys=g["mk"])
    for g in fatal.values():
        f = g["first"]
        rep.violation("%s while reading a damaged archive (C05's subject) [%d images of %s; region %s, header %s] e.g. mutation %r" % (
            g["mk"]["kind"], g["n"], sorted(g["archives"])[:3], g["mk"]["region"], g["mk"]["header"], f["mutation"]),
            f, match_keys=g["mk"])
    if ctx.get("model") is not None and "dmg_sig_read" in __import__("vlib").fn_table():
        corr_open(ctx, rng, info, results)
    return table, viols, fatal


# ====================================================================== correspondence: model vs implementation
ERR_CODE = {"Bad7z": 1, "Crc": 2, "Password": 3, "Unsupported": 4, "Eof": 5, "Other": 6, "Fuel": 7}


def err_code(e):
    from harness import arch
    if isinstance(e, struct.error):          # class name "error", like zlib.error
        return ERR_CODE["Other"]
    return ERR_CODE[arch.exc_class(e)]


def impl_sig(img):
    """_check_7zfile + SignatureHeader._read, as SevenZipFile._real_get_contents calls them"""
    import py7zr
    from py7zr.archiveinfo import SignatureHeader
    from py7zr.exceptions import Bad7zFile
    from harness import arch
    fp = io.BytesIO(img)
    try:
        if not py7zr.SevenZipFile._check_7zfile(fp):
            raise Bad7zFile("not a 7z file")
        s = SignatureHeader.retrieve(fp)
        return [0, [s.nextheaderofs, s.nextheadersize, s.nextheadercrc]]
    except Exception as e:  # noqa
        return [1, err_code(e)]


def start_header(ofs, size, crc):
    f = struct.pack("<QQL", ofs, size, crc)
    return MAGIC + b"\x00\x04" + struct.pack("<L", zlib.crc32(f)) + f


def corr_headers(ctx, rng):
    """calculate_crc32, start header, next header: model vs implementation"""
    from py7zr.helpers import calculate_crc32
    rep, model, tier = ctx["rep"], ctx["model"], ctx["tier"]
    n = 0
    for _ in range(150 if tier == "quick" else 1500):
        data = rng.randbytes(rng.choice([0, 1, 2, 7, 8, 9, 63, 64, 65, 200]))
        v = rng.choice([0, 1, 0xFFFFFFFF, rng.getrandbits(32)])
        bs = rng.choice([1, 2, 3, 8, 64, 1000])
        got = calculate_crc32(data, v, bs)
        want = model.call("dmg_calculate_crc32", [list(data), v, bs])
        n += 1
        rep.count(("crc", data, v, bs), nontrivial=len(data) > bs)
        if not (got == want == zlib.crc32(data, v)):
            rep.violation("calculate_crc32(%d bytes, %d, blocksize=%d) = %d, model %d, zlib %d" % (
                len(data), v, bs, got, want, zlib.crc32(data, v)),
                {"kind": "calc-crc", "data": data.hex(), "value": v, "blocksize": bs}, match_keys={"kind": "calc-crc"})
            return
    # start header: every bit of a valid one, bursts, truncations, arbitrary field values
    images = []
    for ofs, size, crc in [(0x51, 0x7B, 0xDEADBEEF), (0, 0, 0), (1 << 40, 5, 1), (rng.getrandbits(62), rng.getrandbits(62), rng.getrandbits(32))]:
        good = start_header(ofs, size, crc) + b"tail-bytes"
        images.append(good)
        images += [apply_mut(good, ["flip", i]) for i in range(8 * 32)]
        images += [good[:k] for k in range(0, 42)]
        for _ in range(60 if tier == "quick" else 600):
            w = rng.choice([2, 8, 17, 32])
            images.append(apply_mut(good, ["burst", rng.randrange(8 * 32 - w), rng.getrandbits(w) | 1 | (1 << (w - 1))]))
    for _ in range(200 if tier == "quick" else 3000):
        images.append(start_header(rng.getrandbits(rng.choice([3, 16, 40, 62])), rng.getrandbits(rng.choice([3, 16, 62])),
                                   rng.getrandbits(32)) + rng.randbytes(rng.choice([0, 3])))
    for img in images:
        got = impl_sig(img)
        want = model.call("dmg_sig_read", list(img[:40]))
        n += 1
        rep.count(("sig", img), nontrivial=True)
        rep.dist("start_header_model_verdict", "accept" if want[0] == 0 else "reject-%d" % want[1])
        if got != want:
            rep.violation("start header %s: implementation %r, model %r" % (img[:32].hex(), got, want),
                          {"kind": "sig", "image": img.hex()}, match_keys={"kind": "start-header-check"})
            return
    rep.extra["correspondence_header_cases"] = n


def model_open_verdict(model, img):
    """(accept?, stage) of sig_read + hdr_read on an image"""
    s = model.call("dmg_sig_read", list(img[:40]))
    if s[0] != 0:
        return False, "start-header"
    ofs, size, crc = s[1]
    body = img[32:]
    h = model.call("dmg_hdr_read", [list(body[ofs:ofs + size]) if ofs < len(body) else [], 0, size, crc])
    return (h[0] == 0), "next-header"


# ---------------------------------------------------------------------- control flow with scripted decoders
class _FakeFp:
    def seek(self, *a):
        return 0

    def tell(self):
        return 0                     # = src_end of every scripted folder: the packed stream is exactly consumed


class _FakeDecomp:
    def __init__(self, script):
        self.script = script
        self.i = 0
        self.crc = 0x1234 if script[0] == "foldercrc" else None
        self.digest = 0
        self.consumed = 0            # packed bytes taken so far: grows on every call, an empty chunk is not a stall
        self.produced = 0            # bytes put out by the coders of the chain (the stall guard compares it, too)

    def decompress(self, fp, max_length=-1):
        if self.script[0] == "err":
            raise self.script[1]("scripted decoder error")
        c = self.script[1][self.i]
        self.i += 1
        self.consumed += 1
        return c

    def check_crc(self):
        return False

    def is_complete(self):          # the scripted folder-level error belongs to the folder's last member
        return True


class _FakeFolder:
    def __init__(self, script):
        self.script = script

    def get_decompressor(self, compressed_size, reset=False):
        return _FakeDecomp(self.script)


class _FakeFile:
    is_junction = False
    compressed = 0

    def __init__(self, d):
        self.__dict__.update(d)


def _bare_archive(**attrs):
    """a SevenZipFile in read mode that was never opened: the real methods over scripted state"""
    import py7zr
    me = py7zr.SevenZipFile.__new__(py7zr.SevenZipFile)
    base = {"mode": "r", "mp": False, "_filePassed": True, "password_protected": False, "filename": None,
            "reporterd": None, "_block_size": 1 << 20}
    base.update(attrs)
    for k, v in base.items():
        setattr(me, k, v)
    return me


def gen_flow_case(rng):
    """(shape tree, decs tree, python description)"""
    import lzma
    n = rng.choice([0, 1, 2, 3, 4, 5, 6])
    files, decs = [], []
    for i in range(n):
        empty = rng.random() < 0.25
        data = bytes(rng.choice(b"abcdefgh") for _ in range(rng.choice([0, 1, 2, 5, 9])))
        symlink = rng.random() < 0.25
        if symlink and not data:
            data = b"t"                       # an empty link target is observed as "." (pathlib), not as ""
        tgt = rng.choice([0, 0, 1, 1, 1, 2, 2])
        r = rng.random()
        crc = [] if r < 0.2 else [zlib.crc32(data)] if r < 0.8 else [zlib.crc32(data) ^ 0x10] if r < 0.93 else \
            [rng.choice([0, 0, 0xFFFFFFFF])]                   # boundary digests: a stored 0 is a digest like any other
        files.append([i, 1 if empty else 0, crc, 1 if symlink else 0, tgt])
        r = rng.random()
        if r < 0.82:
            chunks, rest = [], data
            while rest or rng.random() < 0.2:
                k = rng.randrange(0, len(rest) + 1) if rest else 0
                if rng.random() < 0.3:
                    k = len(rest)
                chunks.append(rest[:k])
                rest = rest[k:]
                if len(chunks) > 8:
                    chunks.append(rest)
                    break
            if sum(len(c) for c in chunks) != len(data):
                chunks.append(data[sum(len(c) for c in chunks):])
            decs.append([i, 0, [list(c) for c in chunks]])
        elif r < 0.91:
            code = rng.choice([1, 5, 6])
            decs.append([i, 1, code])
        else:
            decs.append([i, 2, []])
    kind = rng.choice([0, 1, 1, 2, 2])
    folders = []
    if kind == 2:
        k = rng.choice([2, 2, 3])
        data_files = [f for f in files if not f[1]]      # a folder lists its data members only
        cuts = sorted(rng.randrange(0, len(data_files) + 1) for _ in range(k - 1))
        prev = 0
        for c in cuts + [len(data_files)]:
            folders.append(data_files[prev:c])
            prev = c
    if kind == 0:
        for f in files:
            pass
    return [kind, files, folders], decs


def run_flow_impl(shape, decs, skip, tmp, call):
    """the real Worker.extract / SevenZipFile.testzip over scripted decoders; returns the model's outcome encoding"""
    import lzma
    import pathlib
    import types
    import py7zr
    from py7zr.exceptions import Bad7zFile, CrcError
    from py7zr.io import MemIO
    from py7zr.py7zr import Worker
    from harness import arch
    exc_of = {1: Bad7zFile, 5: lzma.LZMAError, 6: OSError}
    dmap = {d[0]: d for d in decs}
    objs = {}

    def mk(f):
        i, empty, crc, symlink, tgt = f
        if i in objs:
            return objs[i]
        d = dmap[i]
        if d[1] == 0:
            script = ("ok", [bytes(c) for c in d[2]])
            size = sum(len(c) for c in script[1])
        elif d[1] == 1:
            script = ("err", exc_of[d[2]])
            size = 3
        else:
            script = ("foldercrc", [b"xyz"])
            size = 3
        objs[i] = _FakeFile({"id": i, "filename": "f%d" % i, "emptystream": bool(empty), "crc32": crc[0] if crc else None,
                             "is_symlink": bool(symlink), "folder": _FakeFolder(script), "uncompressed": size})
        return objs[i]

    kind, files, folders = shape
    flist = [mk(f) for f in files]
    if kind == 0:
        header = types.SimpleNamespace(main_streams=None)
    else:
        fl = [types.SimpleNamespace(files=flist)] if kind == 1 else [types.SimpleNamespace(files=[mk(f) for f in fo]) for fo in folders]
        header = types.SimpleNamespace(main_streams=types.SimpleNamespace(
            packinfo=types.SimpleNamespace(packpos=0, packpositions=[0] * (len(fl) + 1)),
            unpackinfo=types.SimpleNamespace(numfolders=len(fl), folders=fl)))
    name_to_id = {"f%d" % f[0]: f[0] for f in files}
    root = pathlib.Path(tempfile.mkdtemp(dir=tmp))
    fac = arch.Collect()
    try:
        if call == "testzip":
            me = _bare_archive(fp=_FakeFp(), afterheader=0, files=flist, header=header, password_protected=True)
            try:
                r = me.testzip()
            except Exception as e:  # noqa
                return [2, err_code(e)]
            if r is None:
                return [0, []]
            if r in name_to_id:
                return [0, [name_to_id[r]]]
            return [3]
        w = Worker(flist, 0, header, False)
        tg = {}
        for f in files:
            if f[4] == 1:
                tg[f[0]] = MemIO("f%d" % f[0], fac)
            elif f[4] == 2:
                tg[f[0]] = root.joinpath("f%d" % f[0])
            w.register_filelike(f[0], tg.get(f[0]))
        try:
            w.extract(_FakeFp(), root, parallel=False, skip_notarget=skip)
        except CrcError as e:
            return [1, [] if e.args[2] is None else [name_to_id[e.args[2]]]]
        except Exception as e:  # noqa
            return [2, err_code(e)]
        out = []
        mem = {n: b for n, b in fac.as_list()}
        for f in files:
            if f[4] == 1 and "f%d" % f[0] in mem:
                out.append([f[0], list(mem["f%d" % f[0]])])
            elif f[4] == 2:
                p = root.joinpath("f%d" % f[0])
                if p.is_symlink():
                    out.append([f[0], list(os.readlink(p).encode())])
                elif p.exists():
                    out.append([f[0], list(p.read_bytes())])
        return [0, sorted(out)]
    finally:
        shutil.rmtree(root, ignore_errors=True)


def corr_flow(ctx, rng):
    """Worker.extract/_extract_single/_check/decompress and testzip() against the model, for both variants
    of the two modelled switches; records which variant the implementation is"""
    rep, model, tier = ctx["rep"], ctx["model"], ctx["tier"]
    tmp = tempfile.mkdtemp(prefix="c04f")
    variant = {"symcheck": None, "tzfolder": None}
    n = 0
    try:
        for _ in range(700 if tier == "quick" else 8000):
            shape, decs = gen_flow_case(rng)
            skip = rng.random() < 0.6
            got = run_flow_impl(shape, decs, skip, tmp, "extract")
            wants = []
            for sc in (0, 1):
                w = model.call("dmg_extract", [sc, 1 if skip else 0, shape, decs])
                if w[0] == 0:
                    w = [0, sorted(w[1])]
                wants.append(w)
            n += 1
            rep.count(("flow", json.dumps([shape, decs, skip])), nontrivial=len(shape[1]) > 1)
            rep.dist("flow_outcome", {0: "done", 1: "CrcError", 2: "other error"}[got[0]])
            if wants[0] != wants[1]:
                variant["symcheck"] = (got == wants[1]) if variant["symcheck"] in (None, True) else False
            if got != wants[1]:
                what = "Worker.extract over scripted decoders: implementation %r, model %r" % (got, wants[1])
                if got == wants[0]:
                    what = ("REGRESSION a symbolic link is created from bytes whose CRC was not compared (the behaviour before "
                            "commit c33fe91): implementation %r, model %r" % (got, wants[1]))
                rep.violation(what + "; shape %r decoders %r skip_notarget=%s" % (shape, decs, skip),
                              {"kind": "flow", "shape": shape, "decs": decs, "skip": skip, "call": "extract"},
                              concrete=False, match_keys={"kind": "flow-mismatch", "call": "extract"})
                break
            got = run_flow_impl(shape, decs, skip, tmp, "testzip")
            want = model.call("dmg_testzip", [1, shape, decs])            # testzip_impl: the code as it is
            old = model.call("dmg_testzip", [0, shape, decs])             # before commit 065e810
            rep.dist("testzip_outcome", {0: "returned", 2: "raised", 3: "flagged"}[got[0]] + ("" if got[0] != 0 else (" None" if got[1] == [] else " name")))
            if want != old:
                variant["tzfolder"] = (got == want) if variant["tzfolder"] in (None, True) else False
            if got != want:
                what = "testzip() over scripted decoders: implementation %r, model %r" % (got, want)
                if got == old and want != old:
                    what = ("REGRESSION testzip() returns None for a folder-level CrcError (the behaviour before commit 065e810): "
                            "implementation %r, model %r" % (got, want))
                rep.violation(what + "; shape %r decoders %r" % (shape, decs),
                              {"kind": "flow", "shape": shape, "decs": decs, "skip": False, "call": "testzip"},
                              concrete=False, match_keys={"kind": "flow-mismatch", "call": "testzip"})
                break
    finally:
        shutil.rmtree(tmp, ignore_errors=True)
    rep.extra["implementation_variant"] = {
        "symcheck (symbolic-link branch compares the CRC)": variant["symcheck"],
        "tzfolder (testzip reports a folder-level CRC error)": variant["tzfolder"],
        "meaning": "true/true = extract_impl and testzip_impl, the models the headline theorems are about; false = a return to "
                   "the behaviour of the regression examples (reported as a violation)"}
    rep.extra["correspondence_flow_cases"] = n
    return variant


def corr_test(ctx, rng):
    """SevenZipFile.test() against test_model"""
    import types
    import py7zr
    rep, model, tier = ctx["rep"], ctx["model"], ctx["tier"]
    n = 0
    for _ in range(300 if tier == "quick" else 4000):
        k = rng.choice([0, 1, 2, 3, 4])
        sizes = [rng.choice([0, 1, 2, 5, 9, 20]) for _ in range(k)]
        packpos = rng.choice([0, 0, 1, 3])
        body = rng.randbytes(packpos + sum(sizes) + rng.choice([0, 2]))
        if rng.random() < 0.15 and body:
            body = body[:rng.randrange(len(body))]          # truncated file: short reads
        defs = [rng.random() < 0.7 for _ in range(k)]
        crcs, pos = [], packpos                           # one entry per stream, 0 where undefined (PackInfo._read)
        for d, sz in zip(defs, sizes):
            c = zlib.crc32(body[pos:pos + sz]) if d else 0
            crcs.append(c ^ (0x400 if d and rng.random() < 0.12 else 0))
            pos += sz
        if rng.random() < 0.08 and crcs:
            crcs.pop()
        if rng.random() < 0.05 and sizes:
            sizes.pop()
        me = _bare_archive(fp=io.BytesIO(bytes(32) + body), afterheader=32, files=[], _block_size=rng.choice([1, 3, 7, 1 << 20]),
                           header=types.SimpleNamespace(main_streams=types.SimpleNamespace(
                               packinfo=types.SimpleNamespace(crcs=crcs, packpos=packpos, packsizes=sizes, digestdefined=defs),
                               unpackinfo=types.SimpleNamespace(numfolders=0, folders=[]))))
        try:
            r = me.test()
            got = [0, [] if r is None else [1 if r else 0]]
        except IndexError:
            got = [1, 6]
        want = model.call("dmg_test", [packpos, [1 if d else 0 for d in defs], sizes, crcs, list(body)])
        n += 1
        rep.count(("test", packpos, tuple(defs), tuple(sizes), tuple(crcs), body), nontrivial=k > 0)
        rep.dist("test_outcome", repr(got))
        if got != want:
            rep.violation("test(): implementation %r, model %r on packpos=%d defined=%r sizes=%r crcs=%r body=%s" % (
                got, want, packpos, defs, sizes, crcs, body.hex()),
                {"kind": "test-flow", "packpos": packpos, "defs": defs, "sizes": sizes, "crcs": crcs, "body": body.hex()},
                concrete=False, match_keys={"kind": "flow-mismatch", "call": "test"})
            return
    rep.extra["correspondence_test_cases"] = n


def corr_open(ctx, rng, info, results):
    """the model's verdict on start header + next header against what open did, on explored images"""
    rep, model, tier = ctx["rep"], ctx["model"], ctx["tier"]
    per = 500 if tier == "quick" else 4000
    n = 0
    for si, a in enumerate(info):
        rs = [(m, o) for m, o in results.get(si, []) if m is not None and "fatal" not in o]
        rng.shuffle(rs)
        for m, o in rs[:per]:
            img = apply_mut(a["base"], m)
            acc, stage = model_open_verdict(model, img)
            opened = o["open"] == "ok"
            n += 1
            bad = None
            if not acc and opened:
                bad = "the model rejects at the %s check, the implementation opened the archive" % stage
            elif not acc and o["open"][0] not in ("Bad7zFile", "error"):
                bad = "the model rejects at the %s check, the implementation raised %r" % (stage, o["open"])
            elif acc and not opened and a["hdrmode"] == "raw":
                bad = "start header and next header pass their CRCs (model), the implementation raised %r" % (o["open"],)
            if bad:
                rep.violation("open(): %s; archive %s mutation %r" % (bad, a["spec"]["label"], m),
                              {"kind": "damage", "spec": a["spec"], "base": a["base"].hex(), "pw": a["pw"], "mutation": m,
                               "want_path": False, "text": bad}, match_keys={"kind": "open-verdict-mismatch", "stage": stage})
                return
    rep.extra["correspondence_open_verdicts"] = n


def run(ctx):
    rep = ctx["rep"]
    rng = random.Random(ctx["seed"])
    rep.cov["rule"] = ("archives: py7zr-written (codec families copy/lzma2/deflate/bzip2/zstd/ppmd, +AES, raw/encoded/encrypted header, "
                       "1 and 3 folders, a symbolic link) and mini7z-written (folder-level CRCs, encoded header with its CRC); per archive: "
                       "every single-bit flip, every truncation length, byte overwrites, <= 32-bit bursts, packed-area block swaps, "
                       "insertions/deletions/extensions; each image: open+getnames+extractall(factory)+test()+testzip() (+extractall(path)); "
                       "distinct by (archive, mutation); plus correspondence cases of the model (headers, control flow, test)")
    if ctx.get("model") is not None and "dmg_sig_read" in __import__("vlib").fn_table():
        for part in (corr_headers, corr_flow, corr_test):
            try:
                part(ctx, rng)
            except Exception as e:  # noqa
                import traceback
                rep.violation("%s raised %s: %s" % (part.__name__, type(e).__name__, e),
                              {"kind": "exception", "part": part.__name__, "trace": traceback.format_exc()[-1500:]},
                              concrete=False, match_keys={"kind": "exception", "part": part.__name__})
    else:
        ctx["broken"].append("extracted model without the Damage dispatcher: correspondence not run")
    explore(ctx)


def replay(d):
    from harness.sandbox import run_sandboxed
    r = d["replay"]
    k = r.get("kind")
    if k == "damage":
        base = bytes.fromhex(r["base"])
        arg = {"base": r["base"], "pw": r.get("pw"), "muts": [None, r["mutation"]], "timeout": 20, "mem_mb": 1024,
               "path": r.get("want_path", False)}
        out = run_sandboxed("harness.c04:batch_worker", arg, timeout=120, mem_mb=0)
        if out["status"] != "ok":
            print("sandbox:", out)
            return 1
        pristine, o = out["value"]
        verdict, detail = judge(o, pristine, r.get("want_path", False))
        print("archive:", r["spec"]["label"], len(base), "bytes; mutation:", r["mutation"])
        print("pristine:", json.dumps(pristine)[:600])
        print("damaged :", json.dumps(o)[:600])
        print("verdict :", verdict, detail)
        return 1 if verdict.startswith("VIOL") or verdict in ("hang", "memory", "crash") else 0
    if k == "calc-crc":
        from py7zr.helpers import calculate_crc32
        data = bytes.fromhex(r["data"])
        got = calculate_crc32(data, r["value"], r["blocksize"])
        print(got, zlib.crc32(data, r["value"]))
        return 0 if got == zlib.crc32(data, r["value"]) else 1
    if k == "sig":
        img = bytes.fromhex(r["image"])
        print(impl_sig(img))
        f = img[12:32]
        want = [0, list(struct.unpack("<QQL", f))] if img[:6] == MAGIC and len(img) >= 32 and zlib.crc32(f) == struct.unpack("<L", img[8:12])[0] \
            else [1, 1 if (img[:6] != MAGIC or len(img) >= 32) else 6]
        print(want)
        return 0 if impl_sig(img) == want else 1
    if k == "flow":
        tmp = tempfile.mkdtemp(prefix="c04r")
        try:
            print(run_flow_impl(r["shape"], r["decs"], r["skip"], tmp, r["call"]))
        finally:
            shutil.rmtree(tmp, ignore_errors=True)
        return 2
    print(json.dumps(r)[:2000])
    return 2
