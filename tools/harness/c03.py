"""C03 -- extraction never writes outside the destination directory.

Proof side: coq/props/C03.v over coq/theories/FS.v (pathlib + Linux path resolution), ExtractFS.v
(SevenZipFile._extract / Worker.extract / _extract_single / post-pass as a program over that
filesystem) and FSProofs.v.

This harness
  (1) ties FS.v to the running kernel and to py7zr's lexical helpers: random sequences of
      mkdir(parents, exist_ok) / open('wb') / exists / unlink / symlink_to / touch / utime / chmod on
      random trees with symbolic links, executed for real and by the extracted model; the
      sanitiser, is_path_valid, canonical_path, path parsing and path ordering on every short
      string over {a . /};
  (2) ties ExtractFS.v to py7zr: every archive of <= 2 (quick) / <= 3 (thorough) entries over the
      property's alphabet of names, kinds and link targets, in all orders, is built as a real .7z
      and extracted by the real code (destination absolute / relative / None, archive opened by
      path or as a stream, destination empty / populated / missing, one or several folders);
      outcome, ordered list of effects (from an audit hook) and final tree are compared with the
      model's;
  (3) explores: any effect whose real path lies outside the destination (audit hook) or any
      change of the surroundings (snapshot) is a C03 violation, the archive being the replay.
      Since the repair of C03-symlink-chain (real-path checks before every output is touched) no
      archive of the exploration may escape: chains of links that each pass the lexical test, the
      order "link to B/.. while B is missing, then B", links that were in the destination before
      (initial state "poplnk") and a destination reached through a link are part of every run.

SAFETY.  Every real extraction runs in a worker subprocess that has chroot()ed into a fresh
directory below one tempfile.mkdtemp(); absolute member names, link targets and '..' chains can
therefore reach nothing but that scratch directory.  Without chroot no extraction is run at all.
"""
import io
import itertools
import json
import os
import queue
import random
import select
import shutil
import subprocess
import sys
import tempfile
import threading
import time

GEN_DEPS = ["canonical_path", "remove_relative_path_marker", "is_relative_to", "get_sanitized_output_path", "is_path_valid", "is_real_path_inside"]
LEVEL = "proof"
TRUSTED_BASE = [
    "Coq 8.16.1 kernel, vm_compute (no native_compute); no axioms (Print Assumptions: closed)",
    "theories/FS.v as a model of CPython 3.12 pathlib (parse, joinpath, parent, ordering, mkdir/touch/exists), of "
    "Linux path resolution (physical '..', symlink following, 40-link limit, final-component rules of mkdir/open/"
    "unlink/symlink/utimensat/chmod) and of os.path.realpath (posixpath._joinrealpath, strict=False: no link limit, "
    "loop detection through `seen`, missing names kept): hand-written, validated against the running kernel and "
    "os.path.realpath on every run",
    "theories/ExtractFS.v as a transcription of SevenZipFile._extract, Worker.extract/_extract_single and the post-pass, "
    "real-path checks included: validated against the code on every run (outcome, ordered effects, final tree)",
    "extraction (ExtrOcamlBasic only) + ocaml/driver.ml for running the model",
    "the audit hook (open, os.mkdir, os.symlink, os.chmod, os.utime, os.remove, os.rmdir, os.rename, os.truncate, "
    "os.link, os.chown) and the before/after snapshot as observers of what the implementation did",
]
ASSUMPTIONS = [
    "decompression delivers each member's bytes (CRC errors, codecs are other properties); archives are well-formed",
    "sequential extraction order (one folder, several folders from a stream, or any archive with a link member: py7zr "
    "extracts those member after member); archives WITHOUT link members of several folders opened by path run one thread "
    "per folder: the links of the tree do not change during such a run, confinement is observed there, equality with the "
    "model only counted",
    "no concurrent modification of the destination by other processes; permissions never deny (extraction as owner)",
    "main theorem: every name of the tree lies in a directory (wf), the current directory exists, the destination (any "
    "form, links allowed on the way) resolves to a directory; destinations beginning with exactly two slashes need "
    "dest_rooted (true of '//jail/dest')",
]

HERE = os.path.dirname(os.path.abspath(__file__))
TOOLS = os.path.dirname(HERE)

# ------------------------------------------------------------------ the jail (paths as seen inside the chroot)
DEST = "/jail/dest"
BASE_TREE = [["jail", "d", ""], ["jail/out", "d", ""], ["jail/out/f", "f", "OUT"], ["jail/cwd", "d", ""],
             ["jail/dl", "l", "dest"]]          # a link to the destination: the user's `path` may go through it
INITS = {
    "empty": [["jail/dest", "d", ""]],
    "pop": [["jail/dest", "d", ""], ["jail/dest/a", "d", ""], ["jail/dest/a/b", "f", "old"], ["jail/dest/b", "f", "oldb"]],
    "missing": [],
    # links that were in the destination before: to a directory and a file outside, to a directory inside, dangling ones
    "poplnk": [["jail/dest", "d", ""], ["jail/dest/a", "d", ""], ["jail/dest/a/b", "f", "old"],
               ["jail/dest/lo", "l", "../out"], ["jail/dest/lf", "l", "/jail/out/f"], ["jail/dest/li", "l", "a"],
               ["jail/dest/ld", "l", "../out/new"], ["jail/dest/lp", "l", ".."]],
}
# destination variants: name -> (cwd, path argument)
DESTS = {
    "abs": ("/jail/cwd", "/jail/dest"),
    "rel": ("/jail", "dest"),
    "rel2": ("/jail/cwd", "../dest"),
    "none": ("/jail/dest", None),
    "abs2": ("/jail/cwd", "//jail/dest"),
    "lnk": ("/jail/cwd", "/jail/dl"),          # the destination is reached through a symbolic link
    "lnkrel": ("/jail", "dl"),
}
EXN_CODES = {"Bad7zFile": 1, "FileExistsError": 2, "IsADirectoryError": 3, "NotADirectoryError": 4,
             "FileNotFoundError": 5, "ELOOP": 6, "DecompressionError": 7, "AttributeError": 8, "TypeError": 9}
EKINDS = {1: "mkdir", 2: "create", 3: "trunc", 4: "symlink", 5: "unlink", 6: "utime", 7: "chmod"}

LNK_UNIX = 0x20 | 0x400 | 0x8000 | ((0o120000 | 0o777) << 16)
LNK_WIN = 0x20 | 0x400
OLD = 1_000_000_000


def s2l(s):
    return [ord(c) for c in s]


def l2s(l):
    return "".join(chr(c) for c in l)


def rp(path):
    """real path string -> model rpath"""
    return [s2l(c) for c in path.split("/") if c]


def pp(path):
    """what pathlib.Path(path) is: (root kind, parts)"""
    import pathlib
    p = pathlib.PurePosixPath(path)
    root = {"": 0, "/": 1, "//": 2}[p.root]
    parts = list(p.parts[1:]) if p.root else list(p.parts)
    return [root, [s2l(c) for c in parts]]


def pp_str(t):
    root, parts = t
    body = "/".join(l2s(c) for c in parts)
    if root:
        return ("/" if root == 1 else "//") + body
    return body or "."


def model_fs(tree):
    out = []
    for path, kind, payload in tree:
        if kind == "d":
            node = [0]
        elif kind == "f":
            node = [1, s2l(payload)]
        else:
            node = [2, pp(payload)]
        out.append([rp(path), node])
    return out


def fs_of_model(t):
    d = {}
    for path, node in t:
        p = "/" + "/".join(l2s(c) for c in path)
        if node[0] == 0:
            d[p] = ["d", ""]
        elif node[0] == 1:
            d[p] = ["f", l2s(node[1])]
        else:
            d[p] = ["l", pp_str(node[1])]
    return d


def effects_of_model(t):
    return [[EKINDS[k], "/" + "/".join(l2s(c) for c in path)] for k, path in t]


def model_entry(e):
    return [s2l(e["name"]), {"f": 0, "d": 1, "l": 2}[e["kind"]], s2l(e["data"]), 1 if e["empty"] else 0,
            1 if e.get("mtime", True) else 2, 1 if e.get("chmod", True) else 0]


def exn_code(e):
    n = type(e).__name__
    if isinstance(e, OSError) and e.errno == 40:
        return 6
    return EXN_CODES.get(n, "other:" + n)


# ================================================================== worker (runs chrooted)
class _H:
    armed = False
    events = []
    last_exc = None
    tl = threading.local()


def _real_follow(p):
    return os.path.realpath(p)


def _dec(p):
    p = os.fspath(p)
    return os.fsdecode(p) if isinstance(p, bytes) else p


def _slot(p):
    """(real path of the directory entry p names -- final component not followed, success possible?)
    success possible = the kernel resolves the directory holding it (Python's realpath alone would accept
    'file/..', the kernel does not)"""
    import stat as _s
    p = _dec(p)
    head, tail = os.path.split(p)
    if tail in ("", ".", ".."):
        return os.path.realpath(p), False
    try:
        ok = _s.S_ISDIR(os.stat(head or ".").st_mode)
    except OSError:
        ok = False
    return os.path.join(os.path.realpath(head or "."), tail), ok


def _lexists(p):
    try:
        os.lstat(p)
        return True
    except OSError:
        return False


def _create_target(p, depth=0):
    """real path at which open(p, O_CREAT) creates a file (following a dangling final link), or None"""
    import stat as _s
    if depth > 40:
        return None
    real, ok = _slot(p)
    if not ok:
        return None
    try:
        st = os.lstat(real)
    except OSError:
        return real
    if _s.S_ISLNK(st.st_mode):
        t = os.readlink(real)
        return _create_target(t if os.path.isabs(t) else os.path.join(os.path.dirname(real), t), depth + 1)
    return None


def _record(event, args):
    import stat as _s
    ev = _H.events
    if event == "open":
        path, mode, flags = args[0], args[1], args[2]
        if isinstance(path, int):
            return
        flags = flags or 0
        if not (flags & (os.O_WRONLY | os.O_RDWR | os.O_CREAT | os.O_TRUNC | os.O_APPEND)):
            return
        try:
            st = os.stat(path)
        except OSError:
            if flags & os.O_CREAT:
                real = _create_target(path)
                ev.append(["create", real if real else _real_follow(path), real is not None])
            return
        real = _real_follow(path)
        if _s.S_ISDIR(st.st_mode):
            ev.append(["trunc", real, False])
        elif flags & os.O_TRUNC:
            ev.append(["trunc", real, True])
        return
    if event in ("os.mkdir", "os.symlink", "os.mkfifo", "os.mknod"):
        path = args[1] if event == "os.symlink" else args[0]
        real, ok = _slot(path)
        ok = ok and not _lexists(real)
        ev.append([{"os.mkdir": "mkdir", "os.symlink": "symlink"}.get(event, "mknod"), real, ok])
        return
    if event in ("os.remove", "os.rmdir"):
        real, ok = _slot(args[0])
        if ok:
            try:
                isd = _s.S_ISDIR(os.lstat(real).st_mode)
                ok = (not isd) if event == "os.remove" else isd
            except OSError:
                ok = False
        ev.append(["unlink" if event == "os.remove" else "rmdir", real, ok])
        return
    if event in ("os.rename", "os.link"):
        rs, oks = _slot(args[0])
        rd, okd = _slot(args[1])
        ok = oks and okd and _lexists(rs)
        ev.append([event[3:] + "-from", rs, ok])
        ev.append([event[3:] + "-to", rd, ok])
        return
    if event in ("os.chmod", "os.utime", "os.chown", "os.truncate"):
        path = args[0]
        if isinstance(path, int):
            return
        real = _real_follow(path)
        ev.append([{"os.chmod": "chmod", "os.utime": "utime", "os.chown": "chown", "os.truncate": "trunc"}[event], real,
                   os.path.exists(path)])
        return


_WATCH = {"open", "os.mkdir", "os.symlink", "os.mkfifo", "os.mknod", "os.remove", "os.rmdir", "os.rename", "os.link",
          "os.chmod", "os.utime", "os.chown", "os.truncate"}


def _audit(event, args):
    if not _H.armed or event not in _WATCH:
        return
    if getattr(_H.tl, "busy", False):
        return
    _H.tl.busy = True
    try:
        _record(event, args)
    except Exception as e:  # noqa
        _H.events.append(["hook-error", "%s %r" % (event, e), False])
    finally:
        _H.tl.busy = False


def _snapshot():
    """everything below / except /arc: path -> [kind, payload, mode, mtime_ns]"""
    import stat as _s
    out = {}
    for dp, dns, fns in os.walk("/", followlinks=False):
        if dp == "/":
            dns[:] = [d for d in dns if d != "arc"]
        for n in dns + fns:
            p = os.path.join(dp, n)
            st = os.lstat(p)
            if _s.S_ISLNK(st.st_mode):
                out[p] = ["l", os.readlink(p), 0, 0]
            elif _s.S_ISDIR(st.st_mode):
                out[p] = ["d", "", _s.S_IMODE(st.st_mode), st.st_mtime_ns]
            else:
                with open(p, "rb") as f:
                    data = f.read(4096)
                out[p] = ["f", data.decode("latin-1"), _s.S_IMODE(st.st_mode), st.st_mtime_ns]
    return out


def _setup_tree(tree):
    for n in os.listdir("/"):
        if n == "arc":
            continue
        p = "/" + n
        if os.path.isdir(p) and not os.path.islink(p):
            shutil.rmtree(p)
        else:
            os.unlink(p)
    for path, kind, payload in tree:
        p = "/" + path
        if kind == "d":
            os.mkdir(p)
        elif kind == "f":
            with open(p, "wb") as f:
                f.write(payload.encode("latin-1"))
        else:
            os.symlink(payload, p)
    for path, kind, payload in reversed(tree):
        os.utime("/" + path, ns=(OLD * 10 ** 9, OLD * 10 ** 9), follow_symlinks=False)


def _attributes(e):
    unix = e.get("chmod", True)
    if e["kind"] == "d":
        return 0x10 | ((0x8000 | ((0o040000 | 0o755) << 16)) if unix else 0)
    if e["kind"] == "l":
        return LNK_UNIX if unix else LNK_WIN
    return 0x20 | ((0x8000 | (0o644 << 16)) if unix else 0)


def sessions_of(entries, cuts):
    """consecutive write sessions (a session of empty members only leaves a folder without sub-streams)"""
    bounds = [0] + [c for c in sorted(set(cuts)) if 0 < c < len(entries)] + [len(entries)]
    return [[a, b] for a, b in zip(bounds, bounds[1:]) if a < b]


def build_archive(entries, cuts):
    """the entries as a real .7z (Copy method, plain header).  cuts = indices where a new write session
    (= a new folder) starts.  Members are written under placeholder names through the public API, then name
    and attributes are patched in the header object before it is written -- the bytes on disk are what a
    hostile writer would produce.  Returns (bytes, number of folders as py7zr reads it back)."""
    import py7zr
    from py7zr.properties import FILTER_COPY
    bio = io.BytesIO()
    first = True
    for a, b in sessions_of(entries, cuts):
        if not first:
            bio.seek(0)
        with py7zr.SevenZipFile(bio, "w" if first else "a", filters=[{"id": FILTER_COPY}]) as z:
            z.set_encoded_header_mode(False)     # plain header: no LZMA encoder set up per archive
            base = len(z.header.files_info.files) if z.header.files_info is not None else 0
            for i in range(a, b):
                e = entries[i]
                if e["empty"]:
                    z.write("/arc", "p%d" % i)           # an existing directory: empty stream
                else:
                    z.writestr(e["data"].encode("utf-8"), "p%d" % i)
            files = z.header.files_info.files
            for i in range(a, b):
                e = entries[i]
                f = files[base + i - a]
                f["filename"] = e["name"]
                f["attributes"] = _attributes(e)
                if e["empty"] and e["kind"] != "d":
                    # an entry without data is a file (here: an empty file or link) only when its EmptyFile bit is set;
                    # without the bit the format -- and ArchiveFile.is_directory -- call it a directory, whatever its attributes
                    f["emptyfile"] = True
                if not e.get("mtime", True):
                    f.pop("lastwritetime", None)
        first = False
    data = bio.getvalue()
    with py7zr.SevenZipFile(io.BytesIO(data), "r") as z:
        ms = z.header.main_streams
        nf = ms.unpackinfo.numfolders if ms is not None else 0
        names = [f.filename for f in z.files]
    if names != [e["name"] for e in entries]:
        raise RuntimeError("archive does not hold the intended names: %r" % (names,))
    return data, nf


def _inside(p, dest):
    return p == dest or p.startswith(dest + "/")


def _extract_real(arc, dest, how):
    import py7zr
    cwd, patharg = DESTS[dest]
    os.chdir(cwd)
    _H.events = []
    _H.last_exc = None
    try:
        src = "/arc/a.7z" if how == "path" else io.BytesIO(arc)
        _H.armed = True
        try:
            with py7zr.SevenZipFile(src, "r") as z:
                z.extractall(patharg)
            outcome = 0
        except BaseException as e:  # noqa
            outcome = exn_code(e)
            if not isinstance(outcome, int):
                outcome = "%s: %s" % (outcome, str(e)[:120])
            import traceback
            _H.last_exc = "%s: %s | %s" % (type(e).__name__, str(e)[:200], " < ".join(
                "%s:%d" % (os.path.basename(f.filename), f.lineno) for f in traceback.extract_tb(e.__traceback__)[-4:]))
        finally:
            _H.armed = False
    finally:
        os.chdir("/")
    return outcome, _H.events


def _changes(before, after, dest):
    """paths outside dest that appeared, disappeared or changed (a directory whose mtime alone changed is
    reported separately: that is the footprint of a creation or removal inside it)"""
    hard, soft = [], []
    for p in sorted(set(before) | set(after)):
        if _inside(p, dest):
            continue
        b, a = before.get(p), after.get(p)
        if b == a:
            continue
        if b and a and b[0] == "d" and a[0] == "d" and b[:3] == a[:3]:
            soft.append(p)
        else:
            hard.append([p, b[:2] if b else None, a[:2] if a else None])
    return hard, soft


def classify(entries, dest):
    """which known shape of escape a failing archive has (match key `via`)"""
    nlinks = sum(1 for e in entries if e["kind"] == "l" and not e["empty"])
    if dest == "none" and nlinks < 2:
        for e in entries:
            n = e["name"].lstrip("/")
            if n.startswith("./"):
                n = n[2:]
            if n.startswith("/"):
                return "none-dest-absolute-name"
        if any(".." in e["name"].split("/") for e in entries):
            return "none-dest-dotdot-name"
    if nlinks >= 2:
        return "symlink-chain"
    if nlinks == 1:
        return "single-symlink"
    return "no-symlink"


def run_extract_job(job, model):
    """one archive, several variants; returns one result dict per variant"""
    entries, cuts = job["entries"], job.get("cuts", [])
    out = []
    try:
        arc, nf = build_archive(entries, cuts)
    except Exception as e:  # noqa
        return [{"build_error": "%s: %s" % (type(e).__name__, e)}]
    with open("/arc/a.7z", "wb") as f:
        f.write(arc)
    mode = 1 if nf >= 2 else 0
    for dest, how, init in job["variants"]:
        tree = BASE_TREE + INITS[init]
        _setup_tree(tree)
        before = _snapshot()
        outcome, events = _extract_real(arc, dest, how)
        after = _snapshot()
        hard, soft = _changes(before, after, DEST)
        esc_events = [ev for ev in events if ev[2] and not _inside(ev[1], DEST)]
        res = {"variant": [dest, how, init], "outcome": outcome, "mode": mode, "exc": _H.last_exc}
        # one thread per folder only for archives without link members (py7zr extracts the others member after member)
        parallel = (how == "path" and mode == 1 and not any(e["kind"] == "l" for e in entries))
        # ---- the model on the same case
        cwd, patharg = DESTS[dest]
        m = model.call("fs_extract", [model_fs(tree), rp(cwd), [] if patharg is None else [pp(patharg)],
                                      [model_entry(e) for e in entries], mode])
        m_out = 0 if m[0][0] == 0 else m[0][1]
        m_eff = effects_of_model(m[1])
        m_fs = fs_of_model(m[2])
        real_fs = {p: v[:2] for p, v in after.items()}
        real_eff = [[k, p] for k, p, ok in events if ok]
        diffs = []
        if m_out != outcome:
            diffs.append("outcome: model %r, py7zr %r" % (m_out, outcome))
        if m_fs != real_fs:
            keys = sorted(set(m_fs) | set(real_fs))
            diffs.append("tree: " + "; ".join("%s model %r real %r" % (k, m_fs.get(k), real_fs.get(k))
                                               for k in keys if m_fs.get(k) != real_fs.get(k))[:600])
        if m_eff != real_eff:
            diffs.append("effects: model %r real %r" % (m_eff, real_eff))
        if any(ev[0] == "hook-error" for ev in events):
            diffs.append("hook: %r" % [ev for ev in events if ev[0] == "hook-error"])
        res["agree"] = not diffs
        res["parallel"] = parallel
        if diffs:
            res["diffs"] = diffs
        m_esc = [e for e in m_eff if not _inside(e[1], DEST)]
        res["model_escape"] = bool(m_esc)
        if esc_events or hard:
            # more links with some target text were really created than the archive has link members with that text whose
            # target, taken lexically from the place of the member, lies inside the destination: a link that is invalid on
            # its own was accepted -- a different defect from the known chain of individually valid links
            from collections import Counter
            created = Counter(v_[1] for k_, p_, ok_ in events for v_ in [after.get(p_)]
                              if k_ == "symlink" and ok_ and v_ and v_[0] == "l")
            valid = Counter()
            for e_ in entries:
                if e_["kind"] == "l" and not e_["empty"]:
                    n_ = e_["name"] if e_["name"].startswith("/") else DEST + "/" + e_["name"]
                    t_ = e_["data"] if e_["data"].startswith("/") else os.path.join(os.path.dirname(os.path.normpath(n_)), e_["data"])
                    if _inside("/" + os.path.normpath(t_).lstrip("/"), DEST):
                        valid[e_["data"]] += 1
            bad_links = [[t_, created[t_], valid[t_]] for t_ in created if created[t_] > valid[t_]]
            res["escape"] = {"events": esc_events[:8], "changed": hard[:8], "touched_dirs": soft[:8],
                             "via": "invalid-link-created" if bad_links else classify(entries, dest)}
            if bad_links:
                res["escape"]["invalid_links"] = bad_links[:4]
        res["neff"] = len(real_eff)
        out.append(res)
    return out


_OPS = ["mkdir", "openwb", "exists", "is_dir", "is_file", "unlink", "symlink", "touch", "utime", "chmod"]


def run_ops_job(job, model):
    """FS.v against the kernel: a random tree (links included) and a sequence of pathlib operations"""
    import pathlib
    tree, cwd, ops = job["tree"], job["cwd"], job["ops"]
    _setup_tree(tree)
    os.chdir(cwd)
    # os.path.realpath (what the real-path checks of the extraction rest on) against FS.v py_realpath, on the initial tree
    rdiffs = []
    for q in sorted(set([op[1] for op in ops] + [op[2] for op in ops if op[0] == 6] + job.get("extra_paths", []))):
        real = os.path.realpath(q)
        got = model.call("fs_realpath", [model_fs(tree), rp(cwd), pp(q)])
        got = ("/" + "/".join(l2s(c) for c in got[0])) if got else None
        if got != real:
            rdiffs.append("realpath(%r): model %r os.path %r" % (q, got, real))
    codes = []
    _H.events = []
    _H.armed = True
    try:
        for op in ops:
            k, p = op[0], pathlib.Path(op[1])
            try:
                if k == 0:
                    p.mkdir(parents=bool(op[2]), exist_ok=bool(op[3]))
                    c = 0
                elif k == 1:
                    with p.open("wb") as f:
                        f.write(op[2].encode("latin-1"))
                    c = 0
                elif k == 2:
                    c = 1 if p.exists() else 0
                elif k == 3:
                    c = 1 if p.is_dir() else 0
                elif k == 4:
                    c = 1 if p.is_file() else 0
                elif k == 5:
                    p.unlink()
                    c = 0
                elif k == 6:
                    p.symlink_to(pathlib.Path(op[2]))
                    c = 0
                elif k == 7:
                    p.touch()
                    c = 0
                elif k == 8:
                    os.utime(str(p), times=(1.5e9, 1.5e9))
                    c = 0
                else:
                    p.chmod(0o755)
                    c = 0
            except Exception as e:  # noqa
                c = exn_code(e)
                c = -c if isinstance(c, int) else c
            codes.append(c)
    finally:
        _H.armed = False
        os.chdir("/")
    events = _H.events
    after = {p: v[:2] for p, v in _snapshot().items()}
    mops = []
    for op in ops:
        k = op[0]
        if k == 0:
            mops.append([0, pp(op[1]), op[2], op[3]])
        elif k == 1:
            mops.append([1, pp(op[1]), s2l(op[2])])
        elif k == 6:
            mops.append([6, pp(op[1]), pp(op[2])])
        else:
            mops.append([k, pp(op[1])])
    m = model.call("fs_ops", [model_fs(tree), rp(cwd), mops])
    m_codes, m_eff, m_fs = m[0], effects_of_model(m[1]), fs_of_model(m[2])
    real_eff = [[k, p] for k, p, ok in events if ok]
    diffs = []
    if m_codes != codes:
        diffs.append("codes: model %r real %r" % (m_codes, codes))
    if m_fs != after:
        keys = sorted(set(m_fs) | set(after))
        diffs.append("tree: " + "; ".join("%s model %r real %r" % (k, m_fs.get(k), after.get(k))
                                           for k in keys if m_fs.get(k) != after.get(k))[:600])
    if m_eff != real_eff:
        diffs.append("effects: model %r real %r" % (m_eff, real_eff))
    diffs += rdiffs
    return [{"agree": not diffs, "diffs": diffs, "codes": codes}]


def worker_main(base):
    sys.path.insert(0, TOOLS)
    import vlib
    import py7zr  # noqa
    import py7zr.py7zr
    py7zr.py7zr.get_memory_limit = lambda: 1 << 27     # the real one reads /proc/meminfo, absent in the chroot
    top = tempfile.mkdtemp(dir=base)
    model = vlib.Model()
    vlib.fn_table()      # read the FN table now: the sources are out of reach after the chroot
    # warm-up before the chroot: every lazy import that extraction / archive writing needs
    warm = os.path.join(top, "warm")
    os.makedirs(os.path.join(top, "arc"))
    os.makedirs(warm)
    import pathlib, stat, queue as _q, encodings.utf_16_le, encodings.latin_1, encodings.idna, traceback  # noqa
    from py7zr.properties import FILTER_COPY
    wb = io.BytesIO()
    with py7zr.SevenZipFile(wb, "w", filters=[{"id": FILTER_COPY}]) as z:
        z.writestr(b"x", "w/f")
        z.writestr(b"f", "w/l")
        z.write(top, "w/d")
        z.header.files_info.files[1]["attributes"] = LNK_UNIX
    with open(os.path.join(top, "arc", "w.7z"), "wb") as f:
        f.write(wb.getvalue())
    for src in (os.path.join(top, "arc", "w.7z"), io.BytesIO(wb.getvalue())):
        with py7zr.SevenZipFile(src, "r") as z:
            z.extractall(warm)
        shutil.rmtree(warm)
        os.makedirs(warm)
    try:
        with py7zr.SevenZipFile(io.BytesIO(wb.getvalue()), "r") as z:
            z.extractall(os.path.join(warm, "w", "f", "x"))
    except Exception:  # noqa
        pass
    try:
        os.chroot(top)
        os.chdir("/")
    except OSError as e:
        sys.stdout.write(json.dumps({"fatal": "chroot failed: %s" % e}) + "\n")
        sys.stdout.flush()
        return 1
    sys.addaudithook(_audit)
    sys.stdout.write(json.dumps({"ready": True, "py7zr": os.path.dirname(os.path.dirname(py7zr.__file__))}) + "\n")
    sys.stdout.flush()
    for line in sys.stdin:
        job = json.loads(line)
        try:
            if job["type"] == "extract":
                res = run_extract_job(job, model)
            else:
                res = run_ops_job(job, model)
        except BaseException as e:  # noqa
            _H.armed = False
            import traceback
            res = [{"worker_error": "%s: %s" % (type(e).__name__, e), "trace": traceback.format_exc()[-1500:]}]
        sys.stdout.write(json.dumps({"id": job.get("id"), "results": res}) + "\n")
        sys.stdout.flush()
    model.close()
    return 0


# ================================================================== parent side
class WorkerProc:
    def __init__(self, base):
        env = dict(os.environ)
        env["PYTHONHASHSEED"] = "0"
        self.p = subprocess.Popen([sys.executable, os.path.abspath(__file__), "--worker", base], stdin=subprocess.PIPE,
                                  stdout=subprocess.PIPE, text=True, bufsize=1, env=env, cwd=base)
        hello = self._read(60)
        if not hello or not hello.get("ready"):
            raise RuntimeError("worker did not start: %r" % (hello,))
        want = os.environ.get("PYTHONPATH", "/repo").split(os.pathsep)[0]
        if os.path.realpath(hello.get("py7zr", "")) != os.path.realpath(want):
            raise RuntimeError("worker imported py7zr from %r, not from %r" % (hello.get("py7zr"), want))

    def _read(self, timeout):
        r, _, _ = select.select([self.p.stdout], [], [], timeout)
        if not r:
            return None
        line = self.p.stdout.readline()
        return json.loads(line) if line else None

    def run(self, job, timeout=60):
        self.p.stdin.write(json.dumps(job) + "\n")
        self.p.stdin.flush()
        ans = self._read(timeout)
        if ans is None:
            self.p.kill()
            return None
        return ans["results"]

    def close(self):
        try:
            self.p.stdin.close()
            self.p.wait(timeout=10)
        except Exception:  # noqa
            self.p.kill()


def scratch_base(prefix):
    """a fresh scratch directory, on tmpfs when there is one (thousands of mkdir/rmdir per second)"""
    shm = "/dev/shm"
    if os.path.isdir(shm) and os.access(shm, os.W_OK):
        try:
            return tempfile.mkdtemp(prefix=prefix, dir=shm)
        except OSError:
            pass
    return tempfile.mkdtemp(prefix=prefix)


def run_jobs(base, jobs, nproc, on_result, deadline=None):
    """distribute jobs over nproc chrooted workers; on_result(job, results) is called in the calling thread"""
    jq = queue.Queue()
    for j in jobs:
        jq.put(j)
    rq = queue.Queue()

    def feeder():
        try:
            w = WorkerProc(base)
        except Exception as e:  # noqa
            rq.put(("fatal", str(e)))
            return
        try:
            while True:
                try:
                    j = jq.get_nowait()
                except queue.Empty:
                    break
                if deadline and time.time() > deadline:
                    rq.put(("skipped", j))
                    continue
                res = w.run(j)
                if res is None:
                    rq.put(("hang", j))
                    w = WorkerProc(base)
                else:
                    rq.put(("ok", j, res))
        finally:
            w.close()
            rq.put(("done",))

    ths = [threading.Thread(target=feeder, daemon=True) for _ in range(nproc)]
    for t in ths:
        t.start()
    done = 0
    stats = {"hang": 0, "skipped": 0, "fatal": []}
    while done < nproc:
        m = rq.get()
        if m[0] == "done":
            done += 1
        elif m[0] == "ok":
            on_result(m[1], m[2])
        elif m[0] == "fatal":
            stats["fatal"].append(m[1])
            done += 1
        elif m[0] == "hang":
            stats["hang"] += 1
            on_result(m[1], [{"worker_error": "no answer within the time limit (hang)"}])
        else:
            stats["skipped"] += 1
    return stats


# ------------------------------------------------------------------ the alphabet of the property
COMPS = ["a", "b", "..", ".", "", "dest"]
PREFIXES = ["", "/", "./", ".//", "/jail/dest/", "/jail/out/", ".//jail/out/", ".//jail/dest/"]
TARGETS = [".", "..", "../..", "a", "a/..", "b", "/jail/dest", "/jail/dest/a", "/jail/out", "/jail/out/f", "/jail",
           "../out", "dest", "//jail/out", "a/../..", "@prev"]


def names_upto(k, prefixes=PREFIXES):
    out = []
    for n in range(1, k + 1):
        for seq in itertools.product(COMPS, repeat=n):
            body = "/".join(seq)
            for pre in prefixes:
                out.append(pre + body)
    seen, res = set(), []
    for x in out:
        if x not in seen:
            seen.add(x)
            res.append(x)
    return res


def kinds(targets):
    ks = [("f", "DATA", False), ("f", "", True), ("d", "", True), ("l", "", True)]
    ks += [("l", t, False) for t in targets]
    return ks


def mk_entry(name, kind, data, empty, idx=0, prev=None):
    if data == "@prev":
        data = prev if prev else "a"
    if kind == "f" and not empty:
        data = "D%d" % idx
    return {"name": name, "kind": kind, "data": data, "empty": empty, "mtime": True, "chmod": True}


def slot_options(names, targets):
    return [(n, k, d, e) for n in names for (k, d, e) in kinds(targets)]


def mk_entries(slots):
    es, prev = [], None
    for i, (n, k, d, e) in enumerate(slots):
        es.append(mk_entry(n, k, d, e, i, prev))
        prev = n
    return es


N2 = ["a", "b", "a/b", "./a", "a/..", "../a", "a/../b", "", "/a", "../dest/a", ".//jail/out/f", "a/a"]
T2 = [".", "..", "../..", "a", "a/..", "/jail/out", "/jail/dest/a", "@prev"]
N3 = ["a", "b", "a/b", "a/a", "a/b/a", "../dest/b", ""]
NQ3 = ["a", "a/b", "a/b/a", "b"]                       # quick tier: every ordered triple over these
KQ3 = [("f", "DATA", False), ("d", "", True), ("l", ".", False), ("l", "..", False), ("l", "a", False)]
LONG_NAMES = ["../b/../dest", "../b/../dest/a", "a/../../dest/b", "a/b/../../..", "../../jail/dest/a", "b/../../dest",
              "../dest/../dest/a", ".//jail/dest/../out/a", "./../dest/a", "a/../../b/../dest/a",
              # siblings of the destination whose path text starts with the destination's text
              "../dest_x", "../dest_x/f", "/jail/dest_x/f", ".//jail/dest_x/f", "../destx/f", "a/../../dest.bak/f"]
# hand-made sequences: a link whose target is fine at its depth, then a shallower link with the very same target text that climbs
# out, then a member named through the second link; links to siblings of the destination with a common text prefix
TEMPLATES = [
    [("a/k", "l", ".."), ("k2", "l", ".."), ("k2/x", "f", "DATA")],
    [("a/b/k", "l", "../.."), ("a/k2", "l", "../.."), ("a/k2/x", "f", "DATA")],
    [("a/k", "l", ".."), ("a/k/k3", "l", ".."), ("a/k/k3/x", "f", "DATA")],
    [("a/b", "l", ".."), ("b", "l", ".."), ("b/a", "f", "DATA")],
    [("k2", "l", ".."), ("a/k", "l", ".."), ("k2/x", "f", "DATA")],
    [("a/k", "l", "../b"), ("k2", "l", "../b"), ("k2/x", "f", "DATA")],
    [("l", "l", "../dest_x"), ("l/x", "f", "DATA")],
    [("l", "l", "/jail/dest_x"), ("l/x", "f", "DATA")],
    [("a/l", "l", "../../dest_x"), ("a/l/x", "f", "DATA")],
    [("d", "d", ""), ("d/l", "l", "../../destx"), ("d/l/x", "f", "DATA")],
]
# chains of links that each pass the lexical test (the repaired finding C03-symlink-chain): through one another, in the order
# "target first missing, then a link", into a directory / an empty member / a link, a member replaced by a link before the
# post-pass; (name, kind, data[, empty])
CHAINS = [
    [("l", "l", "."), ("l/m", "l", ".."), ("l/m/x", "f", "DATA")],
    [("l", "l", "."), ("l/m", "l", ".."), ("l/m/x", "f", "", True)],
    [("l", "l", "."), ("l/m", "l", ".."), ("l/m/x", "d", "")],
    [("l", "l", "."), ("l/m", "l", ".."), ("l/m/k", "l", "a")],
    [("l", "l", "."), ("l/m", "l", ".."), ("l/m/out/f", "f", "DATA")],
    [("l", "l", "."), ("l/m", "l", ".."), ("l/m/n/x", "f", "DATA")],
    [("A", "l", "B/.."), ("B", "l", "."), ("A/x", "f", "DATA")],
    [("A", "l", "B/.."), ("B", "l", "."), ("A/n/x", "f", "DATA")],
    [("A", "l", "B/.."), ("A/x", "f", "DATA"), ("B", "l", ".")],
    [("d", "d", ""), ("d/A", "l", "B/../.."), ("d/B", "l", "."), ("d/A/x", "f", "DATA")],
    [("a", "f", "DATA"), ("l", "l", "."), ("./a", "l", "l/..")],
    [("a", "f", "", True), ("l", "l", "."), ("./a", "l", "l/..")],
    [("l", "l", "."), ("l/m", "l", ".."), ("l/m/out/f", "l", "a")],
    [("s", "l", "s"), ("s/x", "f", "DATA")],
    [("s", "l", "t"), ("t", "l", "s/.."), ("t/x", "f", "DATA")],
]
# members named through links that were in the destination before (initial state "poplnk")
PRELINKS = [
    [("lo/x", "f", "DATA")], [("lo/n", "d", "")], [("lo/n/x", "f", "DATA")], [("lf", "f", "DATA")], [("lf", "f", "", True)],
    [("li/x", "f", "DATA")], [("li/b", "f", "DATA")], [("ld", "f", "DATA")], [("ld", "f", "", True)], [("ld/x", "f", "DATA")],
    [("lp/x", "f", "DATA")], [("lp/dest/y", "f", "DATA")], [("lo/k", "l", "a")], [("lo", "l", "a")], [("lo", "d", "")],
    [("k", "l", "lo"), ("k/x", "f", "DATA")], [("k", "l", "li/.."), ("k/x", "f", "DATA")],
    [("k", "l", "lp/dest"), ("k/x", "f", "DATA")], [("lo/f", "f", "", True)], [("lo", "f", "DATA")], [("li", "f", "DATA")],
]
ALL_DESTS = ["abs", "rel", "rel2", "none", "abs2", "lnk", "lnkrel"]
T3 = [".", "..", "a", "a/..", "@prev"]
ALL_VARIANTS = [(d, h, i) for d in ("abs", "rel", "none") for h in ("stream", "path") for i in ("empty", "pop")]
ROT = [("none", "stream", "empty"), ("rel", "path", "empty"), ("abs", "stream", "pop"), ("rel2", "stream", "empty"),
       ("abs", "path", "pop"), ("none", "path", "pop"), ("abs", "stream", "missing"), ("abs2", "stream", "empty"),
       ("lnk", "stream", "empty"), ("abs", "stream", "poplnk"), ("lnkrel", "path", "pop"), ("none", "stream", "poplnk")]


def gen_jobs(tier, rng):
    jobs = []
    # ---- one entry: the whole alphabet, every variant
    k1 = 2 if tier == "quick" else 3
    for (n, k, d, e) in slot_options(names_upto(k1), TARGETS):
        if tier == "quick":
            vs = [("abs", "stream", "empty"), ("none", "stream", "empty"), ("rel", "path", "pop"), ("abs", "path", "pop")]
        else:
            vs = ALL_VARIANTS + [("rel2", "stream", "empty"), ("abs", "stream", "missing"), ("abs2", "stream", "empty")]
        jobs.append({"type": "extract", "entries": mk_entries([(n, k, d, e)]), "cuts": [], "variants": vs, "n": 1})
    for n in LONG_NAMES:
        for (k, d, e) in kinds(["..", "a"]):
            jobs.append({"type": "extract", "entries": mk_entries([(n, k, d, e)]), "cuts": [],
                         "variants": [("abs", "stream", "empty"), ("none", "stream", "empty"), ("rel", "path", "pop")], "n": 1})
    for tpl in TEMPLATES:
        slots = [(n, k, ("" if k == "d" else d), k == "d") for (n, k, d) in tpl]
        for vs in (ALL_VARIANTS[:6], ALL_VARIANTS[6:]):
            jobs.append({"type": "extract", "entries": mk_entries(slots), "cuts": [], "variants": list(vs), "n": len(slots)})
    for tpl in CHAINS + PRELINKS:
        slots = [(t[0], t[1], ("" if t[1] == "d" else t[2]), (t[1] == "d") or (len(t) > 3 and t[3])) for t in tpl]
        for d in ALL_DESTS:
            vs = [(d, h, i) for h in ("stream", "path") for i in ("empty", "pop", "poplnk")]
            jobs.append({"type": "extract", "entries": mk_entries(slots), "cuts": [], "variants": vs, "n": len(slots)})
        if len(slots) >= 3:          # the same chain over two folders (empty members first / one thread per folder)
            jobs.append({"type": "extract", "entries": mk_entries(slots), "cuts": [2],
                         "variants": [("abs", "stream", "empty"), ("abs", "path", "empty"), ("none", "stream", "poplnk")],
                         "n": len(slots)})
    # ---- two entries, all ordered pairs
    opts2 = slot_options(N2, T2)
    i = 0
    for s1 in opts2:
        for s2 in opts2:
            es = mk_entries([s1, s2])
            vs = [("abs", "stream", "empty"), ROT[i % len(ROT)]]
            cuts = [1] if (i % 3 == 0 and not es[0]["empty"] and not es[1]["empty"]) else []
            jobs.append({"type": "extract", "entries": es, "cuts": cuts, "variants": vs, "n": 2})
            i += 1
    if tier == "quick":
        optsq = [(n, k, d, e) for n in NQ3 for (k, d, e) in KQ3]
        for s1 in optsq:
            for s2 in optsq:
                for s3 in optsq:
                    i += 1
                    jobs.append({"type": "extract", "entries": mk_entries([s1, s2, s3]), "cuts": [2] if i % 7 == 0 else [],
                                 "variants": [("abs", "stream", "empty") if i % 2 else ("rel", "path", "empty")], "n": 3})
    else:
        opts3 = slot_options(N3, T3)
        for s1 in opts3:
            for s2 in opts3:
                for s3 in opts3:
                    es = mk_entries([s1, s2, s3])
                    vs = [("abs", "stream", "empty")] if i % 4 else [("abs", "stream", "empty"), ROT[(i // 4) % len(ROT)]]
                    cuts = [rng.choice([1, 2])] if i % 5 == 0 else []
                    jobs.append({"type": "extract", "entries": es, "cuts": cuts, "variants": vs, "n": 3})
                    i += 1
    # ---- sampled 3 (quick) / 4-5 entries and longer random archives
    optsR = slot_options(sorted(set(N2 + N3 + ["b/a", "a/b/..", "b/..", "a/./b", "dest", "../dest", "lo/a", "lf", "li/b", "ld",
                                               "lp/a", "lo"])), TARGETS + ["lo", "li/..", "b/..", "lp"])
    nsamp = 3000 if tier == "quick" else 40000
    for j in range(nsamp):
        if tier == "quick":
            n = rng.choice([3, 3, 4, 5])
        else:
            n = rng.choice([4, 4, 5, 5, 5, 6, 8, 12])
        slots = [rng.choice(optsR) for _ in range(n)]
        # bias towards interacting names: reuse a name or nest under an earlier link
        for t in range(1, n):
            r = rng.random()
            pn, pk, pd, pe = slots[t - 1]
            if r < 0.25:
                slots[t] = (pn + "/" + rng.choice(["a", "b", "m"]),) + slots[t][1:]
            elif r < 0.35:
                slots[t] = (pn,) + slots[t][1:]
        es = mk_entries(slots)
        for e in es:
            if rng.random() < 0.15:
                e["mtime"] = False
            if rng.random() < 0.15:
                e["chmod"] = False
        if not all(e["mtime"] for e in es):
            for e in es:           # the time vector is all-or-nothing in what py7zr's writer produces reliably
                e["mtime"] = False
        cuts = sorted(rng.sample(range(1, n), rng.choice([0, 0, 1, 2]) if n > 2 else 0))
        vs = [rng.choice(ALL_VARIANTS + ROT)]
        jobs.append({"type": "extract", "entries": es, "cuts": cuts, "variants": vs, "n": n})
    for idx, j in enumerate(jobs):
        j["id"] = idx
        # a destination that does not exist cannot be the cwd
        j["variants"] = [v for v in j["variants"] if not (v[0] == "none" and v[2] == "missing")] or [("abs", "stream", "empty")]
    return jobs


def gen_ops_jobs(tier, rng):
    jobs = []
    comps = ["a", "b", "l", "m", ".."]
    tgts = [".", "..", "a", "b", "a/b", "../a", "l", "m", "/jail", "/jail/a", "/jail/a/..", "../..", "l/..", "m/a", "nx"]

    def rpath_():
        n = rng.choice([1, 1, 2, 2, 3, 4])
        body = "/".join(rng.choice(comps) for _ in range(n))
        return rng.choice(["", "", "", "/jail/", "/jail/a/", "//jail/"]) + body

    for j in range(1500 if tier == "quick" else 20000):
        tree = [["jail", "d", ""]]
        have = {"jail"}
        for _ in range(rng.randrange(0, 7)):
            parent = rng.choice(sorted(have))
            name = parent + "/" + rng.choice(["a", "b", "l", "m"])
            if name in have or any(t[0] == name for t in tree):
                continue
            k = rng.choice(["d", "d", "f", "l", "l"])
            if k == "d":
                tree.append([name, "d", ""])
                have.add(name)
            elif k == "f":
                tree.append([name, "f", "x"])
            else:
                tree.append([name, "l", rng.choice(tgts)])
        ops = []
        for _ in range(rng.randrange(1, 7)):
            k = rng.randrange(0, 10)
            p = rpath_()
            if k == 0:
                ops.append([0, p, rng.randrange(2), rng.randrange(2)])
            elif k == 1:
                ops.append([1, p, "w%d" % len(ops)])
            elif k == 6:
                ops.append([6, p, rng.choice(tgts)])
            else:
                ops.append([k, p])
        extra = ["/".join(rng.choice(comps + ["nx", "."]) for _ in range(rng.randrange(1, 6))) for _ in range(3)]
        extra = [rng.choice(["", "/jail/", "//jail/a/"]) + x for x in extra]
        jobs.append({"type": "ops", "tree": tree, "cwd": rng.choice(["/jail", "/jail", "/"]), "ops": ops, "id": j,
                     "extra_paths": extra})
    return jobs


# ------------------------------------------------------------------ pure helpers against the model
def check_lexical(ctx, rep, rng, tier):
    """sanitiser, is_path_valid, canonical_path, parsing, ordering: model = code, on every short string"""
    import pathlib
    from py7zr.exceptions import Bad7zFile
    from py7zr.helpers import canonical_path, get_sanitized_output_path, is_path_valid
    model = ctx["model"]
    if model is None:
        return
    cwd = os.getcwd()
    maxlen = 7 if tier == "quick" else 9
    strings = [""]
    for n in range(1, maxlen + 1):
        strings += ["".join(t) for t in itertools.product("a./", repeat=n)]
    strings += names_upto(2) + [t for t in TARGETS if t != "@prev"] + ["a_0", "..a", "a..", "...", "b/.../a"]
    dests = [None, "/j/d", "d", "//j/d", "/j/../j/d", "/", "."]
    nbad = 0
    for idx, s in enumerate(strings):
        # parsing and canonical form
        p = pathlib.Path(s)
        got = model.call("fs_pparse", s2l(s))
        rep.count(("parse", s), nontrivial=len(s) > 1)
        if got != pp(s):
            rep.violation("FS.v pparse differs from pathlib on %r: model %r pathlib %r" % (s, got, pp(s)),
                          {"kind": "lexical", "fn": "pparse", "s": s}, concrete=False, match_keys={"kind": "model-mismatch"})
            nbad += 1
        c = canonical_path(p)
        got = model.call("fs_canonical", pp(s))
        if got != pp(str(c)) and not (str(c) == "." and got == [0, []]):
            rep.violation("FS.v canonical_path differs on %r: model %r code %r" % (s, got, str(c)),
                          {"kind": "lexical", "fn": "canonical_path", "s": s}, concrete=False,
                          match_keys={"kind": "model-mismatch"})
            nbad += 1
        for d in (dests if (idx % 7 == 0 or len(s) <= 5) else dests[:3]):
            darg = None if d is None else pathlib.Path(d)
            if darg is not None and not darg.is_absolute():
                darg = pathlib.Path(cwd).joinpath(darg)      # what _extract hands to the sanitiser
            try:
                real = str(get_sanitized_output_path(s, darg))
                realt = pp(real)
            except Bad7zFile:
                realt = None
            got = model.call("fs_sanitize", [s2l(s), rp(cwd), [] if darg is None else [pp(str(darg))]])
            got = got[0] if got else None
            rep.count(("san", s, d), nontrivial=True)
            if got != realt:
                rep.violation("get_sanitized_output_path(%r, %r): model %r code %r" % (s, d, got, realt),
                              {"kind": "lexical", "fn": "sanitize", "s": s, "dest": d}, concrete=False,
                              match_keys={"kind": "model-mismatch"})
                nbad += 1
            dpath = pathlib.Path(d) if d is not None else pathlib.Path(cwd)
            tbase = dpath if dpath.is_absolute() else pathlib.Path(cwd).joinpath(dpath)
            tbase = canonical_path(tbase).joinpath("x")              # fileish.parent of a member "x/<link>"
            if d is None:
                tbase = pathlib.Path("x")                            # without a destination fileish is relative
            tgt = tbase.joinpath(s)
            realv = is_path_valid(tgt, None if d is None else pathlib.Path(d))
            got = model.call("fs_is_path_valid", [pp(str(tgt)), rp(cwd), [] if d is None else [pp(d)]])
            # joinpath through the model too
            jp = model.call("fs_joinstr", [pp(str(tbase)), s2l(s)])
            if jp != pp(str(tgt)):
                rep.violation("joinpath(%r): model %r pathlib %r" % (s, jp, str(tgt)),
                              {"kind": "lexical", "fn": "joinpath", "s": s}, concrete=False,
                              match_keys={"kind": "model-mismatch"})
                nbad += 1
            if (got == 1) != realv:
                rep.violation("is_path_valid(%r, %r): model %r code %r" % (str(tgt), d, got, realv),
                              {"kind": "lexical", "fn": "is_path_valid", "s": s, "dest": d}, concrete=False,
                              match_keys={"kind": "model-mismatch"})
                nbad += 1
        if nbad > 5:
            return
    # ordering of paths (sorted(target_dirs))
    pool = ["/j/d/" + x for x in ["a", "b", "a/b", "a_0", "a.b", "a/a", "ab", "a b", "A", "", "a/b/c", "a-"]] + \
           ["a", "a/b", ".", "b", "//x/a", "/", "//"]
    for _ in range(200 if tier == "quick" else 2000):
        ps = [rng.choice(pool) for _ in range(rng.randrange(1, 7))]
        real = [pp(str(x)) for x in sorted(pathlib.Path(x) for x in ps)]
        got = model.call("fs_sort", [pp(x) for x in ps])
        rep.count(("sort", tuple(ps)), nontrivial=len(ps) > 1)
        if got != real:
            rep.violation("sorted(%r): model %r pathlib %r" % (ps, got, real), {"kind": "lexical", "fn": "sort", "ps": ps},
                          concrete=False, match_keys={"kind": "model-mismatch"})
            return
    rep.extra["lexical_strings"] = len(strings)


# ------------------------------------------------------------------ run
def run(ctx):
    rep, tier = ctx["rep"], ctx["tier"]
    rng = random.Random(ctx["seed"])
    rep.cov["rule"] = ("case = (archive entries (name, kind, target, empty), folder cuts, destination variant, open mode, "
                       "initial destination); non-trivial = at least one filesystem effect took place or a name was refused; "
                       "distinct by the whole case; plus (tree, operation sequence) cases of the kernel correspondence and "
                       "(string, destination) cases of the lexical helpers")
    if ctx["model"] is None:
        return
    check_lexical(ctx, rep, rng, tier)
    from harness import pathgen
    pathgen.check_lexical_gen(ctx, rep, random.Random(ctx["seed"] + 8), tier)
    base = scratch_base("c03-")
    nproc = max(2, min(14, (os.cpu_count() or 4) - 2))
    t0 = time.time()
    budget = 140 if tier == "quick" else 1500
    counters = {"extract": 0, "ops": 0, "agree": 0, "parallel_diverged": 0, "escapes": 0, "model_escapes": 0}
    mism = []
    try:
        def on_ops(job, results):
            for r in results:
                counters["ops"] += 1
                rep.count(("ops", job["id"]), nontrivial=True)
                if "worker_error" in r:
                    rep.violation("kernel correspondence: worker failed: %s" % r["worker_error"],
                                  {"kind": "ops", "job": job, "error": r}, concrete=False, match_keys={"kind": "worker-error"})
                elif not r["agree"] and len(mism) < 5:
                    mism.append(1)
                    rep.violation("FS.v and the kernel disagree: %s" % "; ".join(r["diffs"])[:500],
                                  {"kind": "ops", "job": job, "diffs": r["diffs"]}, concrete=False,
                                  match_keys={"kind": "model-mismatch", "what": "kernel"})
                for c in r.get("codes", []):
                    rep.dist("ops_result", c)

        st = run_jobs(base, gen_ops_jobs(tier, rng), nproc, on_ops)
        if st["fatal"]:
            rep.violation("no jail: %s" % st["fatal"][0], {"kind": "jail", "errors": st["fatal"]}, concrete=False,
                          match_keys={"kind": "jail"})
            return

        def on_extract(job, results):
            for r in results:
                counters["extract"] += 1
                if "worker_error" in r or "build_error" in r:
                    rep.count(("x", job["id"], "err"), nontrivial=False)
                    if len(mism) < 8:
                        mism.append(1)
                        rep.violation("extraction worker failed: %s" % (r.get("worker_error") or r.get("build_error")),
                                      {"kind": "extract", "job": job, "error": r}, concrete=False,
                                      match_keys={"kind": "worker-error"})
                    continue
                v = r["variant"]
                rep.count(("x", json.dumps(job["entries"], sort_keys=True), tuple(job["cuts"]), tuple(v)),
                          nontrivial=(r["neff"] > 0 or r["outcome"] == 1))
                rep.dist("outcome", r["outcome"] if isinstance(r["outcome"], int) else "other")
                rep.dist("entries", job["n"])
                rep.dist("variant", "/".join(v))
                if r["agree"]:
                    counters["agree"] += 1
                elif r["parallel"]:
                    counters["parallel_diverged"] += 1      # threads: order is the scheduler's, only confinement is judged
                elif len(mism) < 8:
                    mism.append(1)
                    rep.violation("ExtractFS.v and py7zr disagree on %s %s: %s" % (
                        json.dumps(job["entries"])[:300], v, "; ".join(r["diffs"])[:600]),
                        {"kind": "extract", "entries": job["entries"], "cuts": job["cuts"], "variant": v, "diffs": r["diffs"]},
                        concrete=False, match_keys={"kind": "model-mismatch", "what": "extract"})
                if r.get("model_escape"):
                    counters["model_escapes"] += 1
                if "escape" in r:
                    counters["escapes"] += 1
                    esc = r["escape"]
                    rep.sample({"escape": esc, "entries": job["entries"], "variant": v})
                    rep.dist("escape_via", esc["via"])
                    rep.violation(
                        "extraction wrote outside the destination (%s): entries %s, destination %s, opened as %s: %s" % (
                            esc["via"], json.dumps([[e["name"], e["kind"], e["data"]] for e in job["entries"]]), v[0], v[1],
                            json.dumps(esc["events"] or esc["changed"])[:300]),
                        {"kind": "escape", "entries": job["entries"], "cuts": job["cuts"], "variant": v, "observed": esc},
                        concrete=True, match_keys={"kind": "escape", "via": esc["via"]})

        jobs = gen_jobs(tier, rng)
        st2 = run_jobs(base, jobs, nproc, on_extract, deadline=t0 + budget)
        rep.extra["jobs"] = {"extract_jobs": len(jobs), "skipped_for_time": st2["skipped"], "hangs": st["hang"] + st2["hang"],
                             "workers": nproc}
        rep.extra["counters"] = counters
    finally:
        shutil.rmtree(base, ignore_errors=True)
        # concrete escapes first: the replay files written are the most useful ones
        rep.violations.sort(key=lambda v: (not v["concrete"], v["match_keys"].get("via", "")))
        byk = {}
        for v in rep.violations:
            k = json.dumps(v["match_keys"], sort_keys=True)
            byk[k] = byk.get(k, 0) + 1
        rep.extra["violations_by_kind"] = byk


def replay(d):
    r = d["replay"]
    base = scratch_base("c03-replay-")
    try:
        w = WorkerProc(base)
        try:
            if r.get("kind") in ("escape", "extract"):
                res = w.run({"type": "extract", "entries": r["entries"], "cuts": r.get("cuts", []),
                             "variants": [r["variant"]], "id": 0})
            elif r.get("kind") == "ops":
                res = w.run(r["job"])
            else:
                print(json.dumps(r)[:2000])
                return 2
        finally:
            w.close()
        print(json.dumps(res, indent=1)[:4000])
        if res is None:
            return 1
        bad = any(("escape" in x) or (not x.get("agree", True)) or ("worker_error" in x) for x in res)
        return 1 if bad else 0
    finally:
        shutil.rmtree(base, ignore_errors=True)


if __name__ == "__main__":
    if len(sys.argv) >= 3 and sys.argv[1] == "--worker":
        sys.exit(worker_main(sys.argv[2]))
