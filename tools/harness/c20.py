"""C20 -- Streaming in bounded memory, however large or compressible a member is.

Proof side: coq/theories/Mem.v (byte accounting over Decomp.v's model of SevenZipDecompressor.decompress and
Worker.decompress; model of the SevenZipCompressor.compress loop), statements in coq/props/C20.v.

This module
 (a1) ties Mem.v's toy accounting to the real SevenZipDecompressor.decompress: toy decoders mirroring
      Mem.mtoy_dstep are installed into `.chain`; per call the returned bytes, len(_buf), _pos, the bytes read,
      len(tmp), the peak inside _decompress and the managed/live sums are compared with the extracted model;
      the same for Worker.decompress (Mem.worker_peak) and for SevenZipCompressor.compress (Mem.compress_loop);
 (a2) checks the proven bounds on the real codecs at small scale (last decoder honest => len(res) <= max_length,
      _buf stays empty, managed <= 2*max_length + block_size; any chain => _buf <= max_length + its largest overshoot,
      managed <= 4*max_length + 3*overshoot + block_size, _buf <= one block's expansion;
      reads <= block_size, at most one per call; written blocks <= block_size) and finds out, by running them,
      which decoders return more than max_length;
 (b)  measures the property itself: one sandboxed child process per operation writes a large, highly compressible
      member streamed from a generator and extracts it (to a null WriterFactory, to disk, testzip), and reports
      peak RSS (VmHWM) above the interpreter's baseline; budget 700 MiB.
"""
import io
import os
import random
import shutil
import sys
import tempfile
import time
from concurrent.futures import ThreadPoolExecutor

GEN_DEPS = ["SevenZipDecompressor", "SevenZipDecompressor._decompress", "SevenZipDecompressor._read_data", "SevenZipDecompressor.decompress", "calculate_crc32"]
LEVEL = "proof"
TRUSTED_BASE = [
    "Coq 8.16.1 kernel, vm_compute; no axioms (Print Assumptions: closed)",
    "theories/Decomp.v as transcription of SevenZipDecompressor._decompress/_read_data/decompress and Worker.decompress "
    "(differentially tested here through the accounting entry points FN 340-342)",
    "theories/Mem.v compress_loop as transcription of SevenZipCompressor.compress (differentially tested here)",
    "extraction (ExtrOcamlBasic only) + ocaml/driver.ml for running the model",
    "Linux /proc/self/status VmHWM/VmRSS as the measure of peak memory; RLIMIT_AS cap of the sandbox",
]
ASSUMPTIONS = [
    "memory inside the codec objects (LZMA dictionaries, PPMd model, libbz2/zstd/brotli state, input retained by "
    "lzma/bz2 when max_length stops them) is the abstract term `held`: measured (peak RSS), not proved; "
    "first_stage_held_bounded bounds the retained input of the first decoder by the packed size under held_step",
    "CPython temporaries (slices, the bytearray copy of tmp) are a constant factor (<= 3x) over the byte strings counted "
    "by `managed`; the factor is measured, not proved",
    "honest/nearly-honest/tame contracts of the real decoders are observed at small scale (part a2), not proved; "
    "brotli's output_buffer_limit is honoured up to one internal output block (observed overshoot recorded in the evidence)",
    "bounds are per SevenZipDecompressor (one folder at a time); parallel extraction (mp/threads) is out of scope here",
    "write side: 0 <= block_size; compressor objects emit at most held + input + eb per call and hold at most Hc",
]

BUDGET_MB = 700
MB = 1 << 20

# ------------------------------------------------------------------------------------------------ chains
from py7zr.properties import (FILTER_ARM, FILTER_BROTLI, FILTER_BZIP2, FILTER_COPY, FILTER_CRYPTO_AES256_SHA256,  # noqa: E402
                              FILTER_DEFLATE, FILTER_DEFLATE64, FILTER_DELTA, FILTER_LZMA, FILTER_LZMA2, FILTER_PPMD,
                              FILTER_X86, FILTER_ZSTD)

AES = {"id": FILTER_CRYPTO_AES256_SHA256}
BASE = {
    "lzma2": [{"id": FILTER_LZMA2, "preset": 1}],
    "lzma": [{"id": FILTER_LZMA}],
    "bzip2": [{"id": FILTER_BZIP2}],
    "copy": [{"id": FILTER_COPY}],
    "deflate": [{"id": FILTER_DEFLATE}],
    "deflate64": [{"id": FILTER_DEFLATE64}],
    "zstd": [{"id": FILTER_ZSTD, "level": 3}],
    "brotli": [{"id": FILTER_BROTLI, "level": 5}],
    "ppmd": [{"id": FILTER_PPMD, "order": 6, "mem": 20}],
}
CHAINS = dict(BASE)
CHAINS.update({
    "x86+lzma2": [{"id": FILTER_X86}] + BASE["lzma2"],
    "delta+lzma2": [{"id": FILTER_DELTA}] + BASE["lzma2"],
    "arm+lzma": [{"id": FILTER_ARM}] + BASE["lzma"],
    "x86+bzip2": [{"id": FILTER_X86}] + BASE["bzip2"],
    "x86+deflate": [{"id": FILTER_X86}] + BASE["deflate"],
    "x86+deflate64": [{"id": FILTER_X86}] + BASE["deflate64"],
    "x86+zstd": [{"id": FILTER_X86}] + BASE["zstd"],
    "x86+brotli": [{"id": FILTER_X86}] + BASE["brotli"],
    "x86+ppmd": [{"id": FILTER_X86}] + BASE["ppmd"],
    "x86+copy": [{"id": FILTER_X86}] + BASE["copy"],
})
for _k in list(BASE):
    if _k != "brotli":   # archives written with [Brotli, 7zAES] cannot be read back at all ("decoder failed"): not a C20 matter
        CHAINS[_k + "+aes"] = BASE[_k] + [AES]

# decoder class -> codec family named in findings
FAMILY = {
    "DeflateDecompressor": "deflate", "Deflate64Decompressor": "deflate64", "ZstdDecompressor": "zstd",
    "BrotliDecompressor": "brotli", "CopyDecompressor": "copy", "PpmdDecompressor": "ppmd",
    "LZMADecompressor": "lzma2", "LZMA1Decompressor": "lzma", "BZ2Decompressor": "bzip2",
    "AESDecompressor": "aes", "BCJDecoder": "bcj", "BcjArmDecoder": "bcj", "BcjArmtDecoder": "bcj",
    "BcjPpcDecoder": "bcj", "BcjSparcDecoder": "bcj",
}


FAMILY.update({
    "DeflateCompressor": "deflate", "Deflate64Compressor": "deflate64", "ZstdCompressor": "zstd",
    "BrotliCompressor": "brotli", "CopyCompressor": "copy", "PpmdCompressor": "ppmd", "LZMA1Compressor": "lzma",
    "BZ2Compressor": "bzip2", "AESCompressor": "aes", "BCJEncoder": "bcj", "BcjArmEncoder": "bcj",
    "BcjArmtEncoder": "bcj", "BcjPpcEncoder": "bcj", "BcjSparcEncoder": "bcj",
})


def needs_pw(chain):
    return any(f["id"] == FILTER_CRYPTO_AES256_SHA256 for f in CHAINS[chain])


# ------------------------------------------------------------------------------------------------ sources
class Gen(io.BufferedIOBase):
    """a member of `size` bytes that is never held in memory: zeros / short periods / a repeated 1 MiB block /
    incompressible bytes, readable in pieces (what writef needs: read, tell, seek)"""

    def __init__(self, size, pattern):
        self.size, self.p, self.pattern = size, 0, pattern
        if pattern == "random":
            self.unit, self.per = None, MB
        else:
            if pattern == "zeros":
                u = b"\0"
            elif pattern == "p3":
                u = b"abc"
            elif pattern == "p251":
                u = bytes(range(251))
            elif pattern == "blk1m":
                u = random.Random(7).randbytes(MB)
            else:
                raise ValueError(pattern)
            self.per = len(u)
            self.unit = u * max(1, (2 * MB) // len(u))

    def readable(self):
        return True

    def seekable(self):
        return True

    def tell(self):
        return self.p

    def seek(self, off, whence=0):
        self.p = off if whence == 0 else (self.p + off if whence == 1 else self.size + off)
        return self.p

    def read(self, n=-1):
        if n is None or n < 0:
            n = self.size - self.p
        n = max(0, min(n, self.size - self.p))
        out = bytearray()
        while len(out) < n:
            q = self.p + len(out)
            if self.unit is None:
                blk = random.Random(1000003 + q // MB).randbytes(MB)
                o = q % MB
                take = min(n - len(out), MB - o)
                out += blk[o:o + take]
            else:
                o = q % self.per
                take = min(n - len(out), len(self.unit) - o)
                out += self.unit[o:o + take]
        self.p += n
        return bytes(out)


def small_member(i):
    return ("small%d.bin" % i, [1024, 100 * 1024, 3][i % 3], "p251")


# ------------------------------------------------------------------------------------------------ child side
def _status(key):
    with open("/proc/self/status") as f:
        for ln in f:
            if ln.startswith(key + ":"):
                return int(ln.split()[1]) // 1024
    return -1


def _reset_hwm():
    try:
        with open("/proc/self/clear_refs", "w") as f:
            f.write("5")
        return True
    except Exception:  # noqa
        return False


class _StageRec:
    """stands in `chain` for the decoder it wraps and records what the decoder is given and returns"""

    def __init__(self, inner, stats):
        self.inner, self.name, self.stats = inner, type(inner).__name__, stats

    def decompress(self, data, max_length=-1):
        rc0 = sys.getrefcount(data)
        out = self.inner.decompress(data, max_length)
        rc1 = sys.getrefcount(data)
        s = self.stats.setdefault(self.name, {"calls": 0, "max_out": 0, "max_in": 0, "breach": 0, "max_over": 0,
                                              "in_total": 0, "out_total": 0, "retained": 0, "retained_bytes": 0})
        li, lo = len(data), len(out)
        if rc1 > rc0 and li > 0 and out is not data:
            s["retained"] += 1          # the decoder kept a reference to its input block
            s["retained_bytes"] += li
        s["calls"] += 1
        s["in_total"] += li
        s["out_total"] += lo
        s["max_in"] = max(s["max_in"], li)
        if lo > s["max_out"]:
            s["max_out"] = lo
        if max_length >= 0 and lo > max_length and lo > li + 4096:
            s["breach"] += 1
            s["max_over"] = max(s["max_over"], lo - max_length)
        return out

    def __getattr__(self, a):
        return getattr(self.inner, a)


class _CompRec:
    """the same for a compressor of SevenZipCompressor.chain"""

    def __init__(self, inner, stats):
        self.inner, self.name, self.stats = inner, type(inner).__name__, stats

    def compress(self, data):
        rc0 = sys.getrefcount(data)
        out = self.inner.compress(data)
        rc1 = sys.getrefcount(data)
        s = self.stats.setdefault(self.name, {"calls": 0, "in_total": 0, "out_total": 0, "max_out": 0, "retained": 0,
                                              "retained_bytes": 0})
        s["calls"] += 1
        s["in_total"] += len(data)
        s["out_total"] += len(out)
        s["max_out"] = max(s["max_out"], len(out))
        if rc1 > rc0 and len(data) > 0 and out is not data:
            s["retained"] += 1
            s["retained_bytes"] += len(data)
        return out

    def flush(self):
        return self.inner.flush()

    def __getattr__(self, a):
        return getattr(self.inner, a)


def install_write_recorders():
    import py7zr.compressor as comp
    stats = {"stages": {}}
    orig_init = comp.SevenZipCompressor.__init__

    def init(self, *a, **kw):
        orig_init(self, *a, **kw)
        self.chain = [_CompRec(c, stats["stages"]) for c in self.chain]

    comp.SevenZipCompressor.__init__ = init
    return stats


def install_recorders():
    """class-level wrappers around SevenZipDecompressor: no source hooks"""
    import py7zr.compressor as comp
    stats = {"stages": {}, "max_buf": 0, "max_res": 0, "calls": 0, "max_ml": 0, "res_over_ml": 0}
    orig_init = comp.SevenZipDecompressor.__init__
    orig_dec = comp.SevenZipDecompressor.decompress

    def init(self, *a, **kw):
        orig_init(self, *a, **kw)
        self.chain = [_StageRec(d, stats["stages"]) for d in self.chain]

    def dec(self, fp, max_length=-1):
        res = orig_dec(self, fp, max_length)
        stats["calls"] += 1
        stats["max_buf"] = max(stats["max_buf"], len(self._buf))
        stats["max_res"] = max(stats["max_res"], len(res))
        stats["max_ml"] = max(stats["max_ml"], max_length)
        if 0 <= max_length < len(res):
            stats["res_over_ml"] += 1
        return res

    comp.SevenZipDecompressor.__init__ = init
    comp.SevenZipDecompressor.decompress = dec
    return stats


def child(job):
    """one operation on one archive, in its own process; returns sizes and peak memory in MiB"""
    import gc
    import py7zr
    import py7zr.py7zr
    import py7zr.compressor  # noqa
    from py7zr.io import Py7zIO, WriterFactory

    class Null(Py7zIO):
        def __init__(self):
            self.n = 0

        def write(self, s):
            self.n += len(s)
            return len(s)

        def read(self, size=None):
            return b""

        def seek(self, offset, whence=0):
            return 0

        def flush(self):
            pass

        def size(self):
            return self.n

    class NullFactory(WriterFactory):
        def __init__(self):
            self.products = {}

        def create(self, filename):
            self.products[filename] = Null()
            return self.products[filename]

    if job.get("limit"):
        lim = int(job["limit"])
        py7zr.py7zr.get_memory_limit = lambda: lim
    op, path, chain = job["op"], job["path"], job["chain"]
    pw = "pw" if needs_pw(chain) else None
    stats = install_write_recorders() if op in ("write", "write_path") else install_recorders()
    sizes = {m[0]: m[1] for m in job["members"]}
    gc.collect()
    reset = _reset_hwm()
    base = _status("VmRSS")
    t0 = time.time()
    got = {}
    if op in ("write", "write_path"):
        with py7zr.SevenZipFile(path, "w", filters=CHAINS[chain], password=pw) as z:
            for name, size, pattern in job["members"]:
                if op == "write":
                    z.writef(Gen(size, pattern), name)
                else:
                    z.write(os.path.join(job["srcdir"], name), name)
    elif op == "extract_factory":
        nf = NullFactory()
        with py7zr.SevenZipFile(path, "r", password=pw) as z:
            z.extractall(factory=nf)
        got = {k: v.n for k, v in nf.products.items()}
    elif op == "extract_disk":
        with py7zr.SevenZipFile(path, "r", password=pw) as z:
            z.extractall(path=job["outdir"])
        got = {n: os.path.getsize(os.path.join(job["outdir"], n)) for n in sizes}
    elif op == "testzip":
        with py7zr.SevenZipFile(path, "r", password=pw) as z:
            bad = z.testzip()
        got = dict(sizes) if bad is None else {"bad": bad}
    else:
        raise ValueError(op)
    secs = time.time() - t0
    peak = _status("VmHWM")
    out = {"base_mb": base, "peak_mb": peak, "above_mb": peak - base, "secs": round(secs, 2), "hwm_reset": reset,
           "archive_bytes": os.path.getsize(path), "stats": stats}
    if op not in ("write", "write_path"):
        out["complete"] = got == sizes
        if not out["complete"]:
            out["got"] = got
    return out


# ------------------------------------------------------------------------------------------------ toy mirrors
def rep_each(k, data):
    k = max(k, 0)
    return bytes(b for b in data for _ in range(k))


class ToyDec:
    """Python mirror of Mem.mtoy_dstep; state = (tag, k, pending)"""

    def __init__(self, tag, k, pend=b""):
        self.tag, self.k, self.pend = tag, k, bytes(pend)
        self.peak = 0

    def decompress(self, data, max_length=-1):
        data = bytes(data)
        tag, k = self.tag, self.k
        if tag == 1:
            avail = self.pend + data
            nrel = len(avail) if len(data) == 0 else max(len(avail) - max(k, 0), 0)
            nout = nrel if max_length < 0 else min(nrel, max_length)
            self.pend, out = avail[nout:], avail[:nout]
        elif tag == 2:
            out = rep_each(k, data)
        elif tag == 3:
            avail = self.pend + data
            n = len(avail) if (max_length < 0 or k <= 0) else min(len(avail), max_length // k)
            self.pend, out = avail[n:], rep_each(k, avail[:n])
        elif tag == 4:    # rounds up: may exceed max_length by k-1 bytes (brotli's output_buffer_limit shape)
            avail = self.pend + data
            n = len(avail) if (max_length < 0 or k <= 0) else min(len(avail), (max_length + k - 1) // k)
            self.pend, out = avail[n:], rep_each(k, avail[:n])
        else:
            out = data
        self.peak = max(self.peak, len(data) + len(out))
        return out


class ToyComp:
    """Python mirror of Mem.ctoy_step; state = (k, pending)"""

    def __init__(self, k, pend=b""):
        self.k, self.pend, self.peak = k, bytes(pend), 0

    def compress(self, data):
        avail = self.pend + bytes(data)
        n = max(len(avail) - max(self.k, 0), 0)
        self.pend, out = avail[n:], avail[:n]
        self.peak = max(self.peak, len(data) + len(out))
        return out

    def flush(self):
        out, self.pend = self.pend, b""
        return out


class SchedFP:
    """file object whose read(n) returns at most k bytes, k set by the test before each call"""

    def __init__(self, data):
        self.data, self.p, self.k, self.reads = bytes(data), 0, 1 << 60, []

    def read(self, n=-1):
        if n is None or n < 0:
            n = len(self.data) - self.p
        m = max(0, min(n, self.k, len(self.data) - self.p))
        out = self.data[self.p:self.p + m]
        self.p += m
        self.reads.append((n, m))
        return out

    def tell(self):
        return self.p


def toy_decompressor(states, unpacksizes, input_size, block_size):
    from py7zr.compressor import SevenZipDecompressor
    coder = {"method": b"\x00", "properties": None, "numinstreams": 1, "numoutstreams": 1}
    d = SevenZipDecompressor([dict(coder) for _ in states], input_size, list(unpacksizes), None, blocksize=block_size)
    d.chain = [ToyDec(*s) for s in states]
    return d


def observe_call(d, fp, ml, rd):
    """one decompress call on the real object; returns ('ok', res, acct list) or ('err', code)"""
    buf0, pos0, cons0 = len(d._buf), d._pos, d.consumed
    seen = {"tmp": 0}
    orig = d._decompress
    for s in d.chain:
        s.peak = 0

    def wrapped(data, max_length):
        r = orig(data, max_length)
        seen["tmp"] = len(r)
        return r

    d._decompress = wrapped
    fp.k = rd
    try:
        res = d.decompress(fp, ml)
    except EOFError:
        return ("err", 5)
    except IndexError:
        return ("err", 6)
    finally:
        del d._decompress
    read = d.consumed - cons0
    managed = buf0 + len(d._buf) + len(res) + seen["tmp"] + read
    live = managed + sum(len(s.pend) for s in d.chain)
    cpeak = max([s.peak for s in d.chain] + [0])
    return ("ok", bytes(res), [len(res), len(d._buf), d._pos, read, seen["tmp"], managed, live, cpeak])


def rand_toy_case(rng):
    n = rng.choice([1, 1, 2, 2, 3])
    states = []
    for _ in range(n):
        tag = rng.choice([0, 1, 2, 2, 3, 3, 4, 4])
        k = rng.choice([0, 1, 2, 3, 5, 9]) if tag != 1 else rng.choice([0, 1, 2, 4])
        states.append([tag, k, []])
    packed = [rng.randrange(256) for _ in range(rng.choice([0, 1, 5, 12, 20, 33]))]
    isz = rng.choice([len(packed), len(packed), max(0, len(packed) - 3), len(packed) + 4])
    bsz = rng.choice([1, 2, 3, 4, 7, 16])
    us = [rng.choice([1000, 1000, 1000, rng.randrange(0, 40)]) for _ in range(n)]
    calls = []
    for _ in range(rng.randrange(1, 9)):
        ml = rng.choice([-1, 0, 1, 2, 3, 5, 8, 13, 40, 200])
        rd = rng.choice([999, 999, 999, 0, 1, 2, 3])
        calls.append([ml, rd])
    return {"states": states, "us": us, "isz": isz, "bsz": bsz, "packed": packed, "calls": calls}


def run_toy_case(model, c):
    """returns None if model and implementation agree, else a description"""
    want = model.call("mem_toy_trace", [c["states"], c["us"], c["isz"], c["bsz"], c["packed"], c["calls"]])
    d = toy_decompressor([(s[0], s[1], bytes(s[2])) for s in c["states"]], c["us"], c["isz"], c["bsz"])
    fp = SchedFP(bytes(c["packed"]))
    for i, (ml, rd) in enumerate(c["calls"]):
        if i >= len(want):
            return "model trace ends at call %d" % i
        got = observe_call(d, fp, ml, rd)
        w = want[i]
        if w[0] == 1:
            if got != ("err", w[1]):
                return "call %d (ml=%d): model raises %r, implementation %r" % (i, ml, w[1], got[:2])
            return None
        if got[0] != "ok":
            return "call %d (ml=%d): implementation raises %r, model returns" % (i, ml, got[1])
        wout, wacct = bytes(w[1][0]), w[1][1]
        if got[1] != wout or got[2] != wacct:
            return "call %d (ml=%d): implementation res=%r acct=%r, model res=%r acct=%r" % (
                i, ml, got[1][:40], got[2], wout[:40], wacct)
    return None


def check_toy_decompress(ctx, rep, rng, tier):
    model = ctx["model"]
    if model is None:
        return
    n = 3000 if tier == "quick" else 40000
    fixed = [
        # the example of Mem.live_bytes_bounded_slack_applies
        {"states": [[0, 0, []], [4, 7, []]], "us": [100, 700], "isz": 9, "bsz": 4, "packed": list(range(1, 10)),
         "calls": [[10, 9], [3, 9], [10, 9], [10, 9], [10, 9], [10, 9]]},
        # the refutation witness of Mem.live_bytes_bounded_any_chain_refuted
        {"states": [[2, 250, []]], "us": [100000], "isz": 8, "bsz": 4, "packed": list(range(1, 9)), "calls": [[8, 8]]},
        {"states": [[0, 0, []], [3, 5, []]], "us": [100, 500], "isz": 9, "bsz": 4, "packed": list(range(1, 10)),
         "calls": [[12, 9], [12, 9], [12, 9], [12, 9]]},
        {"states": [[2, 7, []], [0, 0, []]], "us": [1000, 1000], "isz": 9, "bsz": 4, "packed": list(range(1, 10)),
         "calls": [[5, 9], [5, 9], [5, 9], [5, 9], [5, 9], [5, 9]]},
    ]
    for i in range(n + len(fixed)):
        c = fixed[i] if i < len(fixed) else rand_toy_case(rng)
        rep.count(("toy", repr(c)), nontrivial=len(c["packed"]) > 0)
        rep.dist("toy_chain_tags", "-".join(str(s[0]) for s in c["states"]))
        bad = run_toy_case(model, c)
        if bad:
            rep.violation("SevenZipDecompressor.decompress and Mem.v accounting disagree: " + bad,
                          {"kind": "toy-trace", "case": c}, concrete=False, match_keys={"kind": "toy-trace"})
            return
    rep.sample({"toy_case": fixed[0], "model": model.call("mem_toy_trace", [fixed[0][k] for k in
                                                                            ("states", "us", "isz", "bsz", "packed", "calls")])})


class _Folder:
    def __init__(self, d):
        self.d = d

    def get_decompressor(self, compressed_size):
        return self.d


class _Sink:
    def __init__(self):
        self.b = bytearray()

    def write(self, s):
        self.b += s
        return len(s)


def run_worker(d, fp, size, mb, max_calls=2000):
    """the real Worker.decompress on a prepared decompressor, with get_memory_limit patched; returns
    (output, peak of managed, final len(_buf)) or ('spin',)"""
    import py7zr.py7zr as pz
    from py7zr.exceptions import Bad7zFile
    w = pz.Worker.__new__(pz.Worker)
    state = {"peak": 0, "calls": 0}
    orig = d.decompress

    class Spin(Exception):
        pass

    def dec(fp_, ml=-1):
        state["calls"] += 1
        if state["calls"] > max_calls:
            raise Spin()
        buf0, cons0 = len(d._buf), d.consumed
        seen = {"tmp": 0}
        o2 = d._decompress

        def wr(data, max_length):
            r = o2(data, max_length)
            seen["tmp"] = len(r)
            return r

        d._decompress = wr
        try:
            res = orig(fp_, ml)
        finally:
            del d._decompress
        state["peak"] = max(state["peak"], buf0 + len(d._buf) + len(res) + seen["tmp"] + d.consumed - cons0)
        return res

    d.decompress = dec
    sink = _Sink()
    saved = pz.get_memory_limit
    pz.get_memory_limit = lambda: mb
    try:
        pz.Worker.decompress(w, fp, _Folder(d), sink, size, None, 1 << 62)
    except Spin:
        return ("spin",)
    except Bad7zFile as e:
        if "unexpected end of compressed stream" in str(e):
            return ("stall",)     # the repaired loop gives up after MAX_STALLED_ROUNDS idle rounds instead of spinning
        raise
    finally:
        pz.get_memory_limit = saved
        del d.decompress
    return (bytes(sink.b), state["peak"], len(d._buf))


def toy_total(c):
    """how many bytes the toy chain delivers for the packed stream, fed block by block"""
    chain = [ToyDec(s[0], s[1], bytes(s[2])) for s in c["states"]]
    data = bytes(c["packed"][:max(0, c["isz"])])
    total = 0
    for piece in [data[i:i + c["bsz"]] for i in range(0, len(data), c["bsz"])] + [b""]:
        x = piece
        for st in chain:
            x = st.decompress(x, -1)
        total += len(x)
    return total


def run_worker_case(model, c, size, mb, fuel=300):
    """returns (outcome label, None | description of the disagreement)"""
    want = model.call("mem_toy_worker", [fuel, c["states"], c["us"], c["isz"], c["bsz"], c["packed"], size, mb, []])
    d = toy_decompressor([(s[0], s[1], bytes(s[2])) for s in c["states"]], c["us"], c["isz"], c["bsz"])
    fp = SchedFP(bytes(c["packed"]))
    if want[0] == 1 and want[1] == 7:
        # the model says: never finishes (Decomp.worker_spins; C05/C12's finding).  The loop of the pinned commit spins,
        # the repaired loop raises Bad7zFile after a few idle rounds; the bytes in play are the same either way
        got = run_worker(d, fp, size, mb, max_calls=fuel + 5)
        return "spins", (None if got in (("spin",), ("stall",)) else
                         "Worker.decompress terminates where Mem.worker_peak runs out of fuel")
    try:
        got = run_worker(d, fp, size, mb)
    except EOFError:
        got = ("err", 5)
    except IndexError:
        got = ("err", 6)
    if want[0] == 1:
        ok, label = got == ("err", want[1]), "error"
    else:
        ok, label = got == (bytes(want[1][0]), want[1][1], want[1][2]), "ok"
    if ok:
        return label, None
    return label, "Worker.decompress and Mem.worker_peak disagree: implementation %r model %r" % (
        got if got[0] in ("err", "spin", "stall") else (got[0][:30], got[1], got[2]), want)


def check_toy_worker(ctx, rep, rng, tier):
    model = ctx["model"]
    if model is None:
        return
    n = 1500 if tier == "quick" else 20000
    for i in range(n):
        c = rand_toy_case(rng)
        c["us"] = [1000] * len(c["us"]) if rng.random() < 0.8 else c["us"]
        total = toy_total(c)
        size = rng.choice([total, total, total, max(0, total - 3), total // 2, min(total, 30), total + 5, 0])
        mb = rng.choice([1, 2, 5, 8, 16, 64])
        rep.count(("toyworker", repr(c), size, mb), nontrivial=size > 0 and len(c["packed"]) > 0)
        label, bad = run_worker_case(model, c, size, mb)
        rep.dist("toy_worker_outcome", label)
        if bad:
            rep.violation(bad, {"kind": "toy-worker", "case": c, "size": size, "mb": mb}, concrete=False,
                          match_keys={"kind": "toy-worker"})
            return


class _RecFP:
    def __init__(self):
        self.writes = []
        self.b = bytearray()

    def write(self, s):
        self.writes.append(len(s))
        self.b += s
        return len(s)


def run_compress_case(model, states, fd, bs, sched):
    from py7zr.compressor import SevenZipCompressor
    want = model.call("mem_ctoy_compress", [200, states, fd, bs, sched])
    c = SevenZipCompressor(filters=[{"id": FILTER_COPY}] * len(states), blocksize=bs)
    c.chain = [ToyComp(s[0]) for s in states]
    src = SchedFP(bytes(fd))
    it = iter(sched)
    orig_read = src.read

    def read(nb=-1, _o=orig_read, _it=it, _src=src):
        _src.k = next(_it, 1 << 60)
        return _o(nb)

    src.read = read
    fp = _RecFP()
    insize, foutsize, _crc = c.compress(src, fp)
    log = [[m, w] for (_n, m), w in zip([r for r in src.reads if r[1] > 0], fp.writes)]
    peak = max([t.peak for t in c.chain] + [0])
    got = [list(fp.b), insize, peak, log, [list(t.pend) for t in c.chain]]
    reads_ok = all(nb == bs for nb, _m in src.reads)
    if want[0] != 0 or want[1] != got or foutsize != len(fp.b) or not reads_ok:
        return "SevenZipCompressor.compress and Mem.compress_loop disagree: implementation %r read requests %r model %r" % (
            got, sorted(set(nb for nb, _m in src.reads)), want)
    return None


def check_toy_compress(ctx, rep, rng, tier):
    """SevenZipCompressor.compress with toy compressors against Mem.compress_loop"""
    model = ctx["model"]
    if model is None:
        return
    n = 1500 if tier == "quick" else 20000
    for i in range(n):
        ns = rng.choice([1, 2, 3])
        states = [[rng.choice([0, 0, 1, 2, 5]), []] for _ in range(ns)]
        fd = [rng.randrange(256) for _ in range(rng.choice([0, 1, 6, 15, 31]))]
        bs = rng.choice([1, 2, 3, 4, 8, 64])
        sched = [rng.choice([999, 999, 1, 2, 3]) for _ in range(rng.randrange(0, 6))]
        rep.count(("toycomp", repr(states), bytes(fd), bs, tuple(sched)), nontrivial=len(fd) > 0)
        bad = run_compress_case(model, states, fd, bs, sched)
        if bad:
            rep.violation(bad, {"kind": "toy-compress", "states": states, "fd": fd, "bs": bs, "sched": sched}, concrete=False,
                          match_keys={"kind": "toy-compress"})
            return


# ------------------------------------------------------------------------------------------------ real codecs, small scale
def small_data(pattern, size, rng):
    if pattern == "zeros":
        return bytes(size)
    if pattern == "p3":
        return (b"abc" * (size // 3 + 1))[:size]
    if pattern == "text":
        words = [bytes(rng.choice(b"abcdefghijklmnopqrstuvwxyz") for _ in range(rng.randrange(2, 9))) for _ in range(300)]
        out = bytearray()
        while len(out) < size:
            out += rng.choice(words) + b" "
        return bytes(out[:size])
    return rng.randbytes(size)


def exp_iter(r, c0, n, x):
    for _ in range(n):
        x = r * x + c0
    return x


def real_codec_run(chain, pattern, size, bs, ml, seed):
    """compress with the real SevenZipCompressor, decompress with the real SevenZipDecompressor in Worker's manner,
    observing every call; returns a dict of observations and a list of problems (strings)"""
    from py7zr.compressor import SevenZipCompressor, SevenZipDecompressor
    rng = random.Random(seed)
    data = small_data(pattern, size, rng)
    pw = "pw" if needs_pw(chain) else None
    c = SevenZipCompressor(filters=CHAINS[chain], password=pw, blocksize=bs)
    cstats = {}
    c.chain = [_CompRec(x, cstats) for x in c.chain]
    src, packed = SchedFP(data), _RecFP()
    c.compress(src, packed)
    c.flush(packed)
    problems = []
    if any(w > 0 for w in packed.writes[:-1]) and max(packed.writes) > exp_iter(2, 1 << 16, len(c.chain), bs) + (1 << 22):
        problems.append("one compress iteration wrote %d bytes for a block of %d" % (max(packed.writes), bs))
    if any(nb != bs for nb, _m in src.reads):
        problems.append("compress read sizes %r differ from block_size %d" % (sorted(set(nb for nb, _ in src.reads)), bs))
    d = SevenZipDecompressor(c.coders, c.packsize, c.unpacksizes, None, password=pw, blocksize=bs)
    stats = {}
    d.chain = [_StageRec(x, stats) for x in d.chain]
    names = [s.name for s in d.chain]
    fp = SchedFP(bytes(packed.b))
    out = bytearray()
    remaining, calls, max_buf, max_managed, max_tmp = len(data), 0, 0, 0, 0
    tmp_over, fed_while_holding = False, 0
    slack, max_m = 0, 0
    seen = {"tmp": 0}
    orig = d._decompress

    def wrapped(dd, max_length):
        r = orig(dd, max_length)
        seen["tmp"] = len(r)
        return r

    d._decompress = wrapped
    while remaining > 0 and calls < 100000:
        buf0, pos0, cons0, nreads = len(d._buf), d._pos, d.consumed, len(fp.reads)
        seen["tmp"] = 0
        m = min(remaining, ml)
        res = d.decompress(fp, m)
        calls += 1
        read = d.consumed - cons0
        if len(res) > m:
            problems.append("call %d: len(res)=%d > max_length=%d" % (calls, len(res), m))
        if read > bs or len(fp.reads) - nreads > 1 or any(nb > bs for nb, _ in fp.reads[nreads:]):
            problems.append("call %d: read %d bytes in %d reads, block_size %d" % (calls, read, len(fp.reads) - nreads, bs))
        if (buf0 - pos0) + seen["tmp"] != len(res) + (len(d._buf) - d._pos):
            problems.append("call %d: flow equation broken: carried %d + tmp %d != res %d + carried' %d" % (
                calls, buf0 - pos0, seen["tmp"], len(res), len(d._buf) - d._pos))
        slack, max_m = max(slack, seen["tmp"] - m), max(max_m, m)
        # Mem.live_bytes_bounded_slack with c = the largest overshoot of a call so far, M = the largest max_length so far
        if len(d._buf) > max_m + slack:
            problems.append("call %d: _buf holds %d bytes > max_length %d + overshoot %d" % (calls, len(d._buf), max_m, slack))
        if buf0 + len(d._buf) + len(res) + seen["tmp"] + read > 4 * max_m + 3 * slack + bs:
            problems.append("call %d: managed bytes exceed 4*max_length + 3*overshoot + block_size" % calls)
        if seen["tmp"] > m:
            tmp_over = True
        elif not tmp_over and len(d._buf) != 0:
            # Mem.clean_if_tmp_fits: no tmp above max_length so far => _buf is empty
            problems.append("call %d: tmp never exceeded max_length but _buf holds %d bytes" % (calls, len(d._buf)))
        max_buf = max(max_buf, len(d._buf))
        max_tmp = max(max_tmp, seen["tmp"])
        max_managed = max(max_managed, buf0 + len(d._buf) + len(res) + seen["tmp"] + read)
        out += res
        remaining -= len(res)
        if len(res) == 0 and read == 0 and seen["tmp"] == 0 and fp.p >= len(fp.data):
            problems.append("no progress with input exhausted after %d calls" % calls)
            break
    if bytes(out) != data:
        problems.append("output differs from the member (%d of %d bytes)" % (len(out), len(data)))
    # observed contract of every stage
    ratios = {}
    for nme, s in stats.items():
        ratios[nme] = {"max_out": s["max_out"], "max_in": s["max_in"], "breach": s["breach"], "max_over": s["max_over"],
                       "ratio": round(s["out_total"] / max(1, s["in_total"]), 1), "retained": s["retained"]}
    obs = {"chain": chain, "pattern": pattern, "size": size, "bs": bs, "ml": ml, "packed": len(packed.b), "calls": calls,
           "stages": names, "stage_obs": ratios, "max_buf": max_buf, "max_tmp": max_tmp, "max_managed": max_managed,
           "comp_obs": {n: {"retained": s["retained"], "calls": s["calls"]} for n, s in cstats.items()}}
    # the proven bounds, instantiated with what was observed
    if not tmp_over:
        # live_bytes_bounded: _buf empty and tmp <= max_length at every call => managed <= 2*max_length + block_size
        if max_managed > 2 * ml + bs:
            problems.append("managed bytes %d > 2*max_length + block_size = %d" % (max_managed, 2 * ml + bs))
    # carry_bounded_general: _buf holds at most one block's expansion (= the largest tmp of a call)
    if max_buf > max_tmp:
        problems.append("_buf reached %d bytes, more than the largest tmp of one call (%d)" % (max_buf, max_tmp))
    if max_managed > 3 * max(max_tmp, 0) + ml + bs:
        problems.append("managed bytes %d > 3*max tmp + max_length + block_size" % max_managed)
    obs["tmp_over_ml"] = tmp_over
    obs["max_overshoot"] = slack
    return obs, problems


def real_codec_child(arg):
    """all configurations of one chain, in a child process (a codec binding that crashes must not take the check down)"""
    out = []
    for cfg in arg["configs"]:
        try:
            obs, problems = real_codec_run(arg["chain"], cfg["pattern"], cfg["size"], cfg["bs"], cfg["ml"], cfg["seed"])
            out.append({"cfg": cfg, "obs": obs, "problems": problems})
        except Exception as e:  # noqa
            out.append({"cfg": cfg, "exc": "%s: %s" % (type(e).__name__, str(e)[:200])})
    return out


def real_codec_one(arg):
    from harness.sandbox import run_sandboxed
    r = run_sandboxed("harness.c20:real_codec_child", arg, timeout=arg.get("timeout", 150), mem_mb=3000)
    if r.get("status") == "ok":
        return r["value"]
    # find the configuration that kills the child
    out = []
    for cfg in arg["configs"]:
        r1 = run_sandboxed("harness.c20:real_codec_child", {"chain": arg["chain"], "configs": [cfg]}, timeout=60, mem_mb=3000)
        if r1.get("status") == "ok":
            out += r1["value"]
        else:
            out.append({"cfg": cfg, "died": r1})
    return out


def check_real_codecs(ctx, rep, rng, tier):
    if tier == "quick":
        chains = ["lzma2", "lzma", "bzip2", "ppmd", "copy", "deflate", "deflate64", "zstd", "brotli",
                  "x86+lzma2", "delta+lzma2", "arm+lzma", "x86+deflate", "lzma2+aes", "deflate+aes", "zstd+aes", "copy+aes"]
        patterns = ["zeros", "text"]
        size = 600_000
    else:
        chains = sorted(CHAINS)
        patterns = ["zeros", "p3", "text", "random"]
        size = 3_000_000
    table = {}
    over = {}
    args = []
    for chain in chains:
        cfgs = []
        for pattern in patterns:
            if "ppmd" in chain and pattern == "random":
                # pyppmd 1.1.1 cannot decode incompressible multi-block streams at all ("Corrupted input data" or a
                # segfault, also outside py7zr): a round-trip defect reported to the coordinator, not a C20 matter
                continue
            for (bs, ml) in ((4096, 50_000), (65536, 20_000)) if tier == "quick" else ((4096, 50_000), (65536, 20_000), (1 << 20, 100_000)):
                sz = size if "ppmd" not in chain else size // 4
                cfgs.append({"pattern": pattern, "size": sz, "bs": bs, "ml": ml, "seed": rng.randrange(1 << 30)})
        args.append({"chain": chain, "configs": cfgs, "timeout": 150 if tier == "quick" else 900})
    with ThreadPoolExecutor(max_workers=6) as ex:
        results = list(ex.map(real_codec_one, args))
    for arg, res in zip(args, results):
        chain = arg["chain"]
        for item in res:
            cfg = item["cfg"]
            rep.count(("real", chain, cfg["pattern"], cfg["bs"], cfg["ml"]), nontrivial=True)
            rep.dist("real_codec_chain", chain)
            rpl = dict(cfg, kind="real-codec", chain=chain)
            if "died" in item or "exc" in item:
                why = item.get("exc") or ("child %s" % item["died"].get("status") + (" rc=%s" % item["died"].get("rc") if "rc" in item["died"] else ""))
                rep.violation("Worker-style extraction through the real %s chain (%s data, block %d, max_length %d) fails: %s" % (
                    chain, cfg["pattern"], cfg["bs"], cfg["ml"], why), rpl, concrete=False,
                    match_keys={"kind": "real-codec-exception", "chain": chain})
                continue
            obs, problems = item["obs"], item["problems"]
            over[chain] = max(over.get(chain, 0), obs.get("max_overshoot", 0))
            for nme, st in obs["stage_obs"].items():
                t = table.setdefault(nme, {"honours_max_length": True, "max_over_max_length": 0, "max_ratio": 0,
                                           "keeps_reference_to_input": False})
                if st["breach"]:
                    t["honours_max_length"] = False
                    t["max_over_max_length"] = max(t["max_over_max_length"], st["max_over"])
                t["max_ratio"] = max(t["max_ratio"], st["ratio"])
                if st["retained"]:
                    t["keeps_reference_to_input"] = True
            for nme, st in obs["comp_obs"].items():
                t = table.setdefault(nme, {"keeps_reference_to_input": False})
                if st["retained"]:
                    t["keeps_reference_to_input"] = True
            if problems:
                rep.violation("bounds proved in Mem.v do not hold on the real %s decoder chain (%s, block %d, max_length %d): %s"
                              % (chain, cfg["pattern"], cfg["bs"], cfg["ml"], "; ".join(problems[:3])), rpl,
                              concrete=False, match_keys={"kind": "real-codec-bounds", "chain": chain})
    rep.extra["decoder_contract_observed"] = table
    rep.extra["chain_overshoot_of_max_length_bytes"] = over
    return table


# ------------------------------------------------------------------------------------------------ exploration: peak RSS
def pipeline(spec):
    """write one archive in a child, then run the extraction operations on it, each in its own child"""
    from harness.sandbox import run_sandboxed
    tmp = tempfile.mkdtemp(prefix="c20_")
    results = []
    try:
        path = os.path.join(tmp, "a.7z")
        job = {"op": spec.get("write_op", "write"), "path": path, "chain": spec["chain"], "members": spec["members"]}
        if job["op"] == "write_path":
            src = os.path.join(tmp, "src")
            os.makedirs(src)
            for name, size, pattern in spec["members"]:
                with open(os.path.join(src, name), "wb") as f:
                    if pattern == "zeros":
                        f.truncate(size)
                    else:
                        g = Gen(size, pattern)
                        while True:
                            b = g.read(8 * MB)
                            if not b:
                                break
                            f.write(b)
            job["srcdir"] = src
        r = run_sandboxed("harness.c20:child", job, timeout=spec["timeout"], mem_mb=spec["cap_mb"])
        results.append((job, r))
        if r.get("status") != "ok":
            return results
        for op in spec["ops"]:
            j = {"op": op["op"], "path": path, "chain": spec["chain"], "members": spec["members"]}
            if op.get("limit"):
                j["limit"] = op["limit"]
            if op["op"] == "extract_disk":
                j["outdir"] = os.path.join(tmp, "out")
            r = run_sandboxed("harness.c20:child", j, timeout=spec["timeout"], mem_mb=spec["cap_mb"])
            results.append((j, r))
            shutil.rmtree(os.path.join(tmp, "out"), ignore_errors=True)
        return results
    finally:
        shutil.rmtree(tmp, ignore_errors=True)


def members_for(size, pattern, position):
    big = ("big.bin", size, pattern)
    if position == "only":
        return [big]
    if position == "first":
        return [big, small_member(0), small_member(1)]
    if position == "last":
        return [small_member(0), small_member(1), big]
    return [small_member(0), big, small_member(1)]


def specs_for(tier):
    F = {"op": "extract_factory"}
    D = {"op": "extract_disk"}
    T = {"op": "testzip"}
    FL = {"op": "extract_factory", "limit": 8 * MB}
    specs = []

    def add(chain, mb, pattern="zeros", position="only", ops=(F,), write_op="write", timeout=170, cap=4096):
        specs.append({"chain": chain, "members": members_for(mb * MB, pattern, position), "ops": list(ops),
                      "write_op": write_op, "timeout": timeout, "cap_mb": cap, "pattern": pattern, "position": position,
                      "size_mb": mb})

    if tier == "quick":
        add("deflate", 512, ops=(F, D, T, FL))
        add("zstd", 512, ops=(F, FL))
        add("brotli", 512)
        add("deflate64", 512)
        add("lzma2", 512, ops=(F, D, FL))
        add("lzma", 512)
        add("bzip2", 512)
        add("copy", 256)
        # members whose PACKED stream is large too (stored / incompressible): input reads and the write loop must stay per block
        add("copy", 1024, ops=(D, F))
        add("zstd", 768, pattern="random")
        add("deflate", 1024, pattern="random")      # a wrapper that keeps the packed input it has already used shows only here
        add("ppmd", 128)
        add("x86+deflate", 512)
        add("deflate+aes", 512)
        add("lzma2+aes", 512)
        add("deflate", 384, pattern="p3", position="middle")
        add("lzma2", 384, pattern="p3", position="middle")
        add("deflate64", 768, ops=())      # write side only
        add("ppmd", 768, ops=())
    else:
        to = 1500
        for chain in sorted(CHAINS):
            ops = (F, D, T) if chain in BASE else (F,)
            add(chain, 1024 if not chain.startswith("ppmd") and "ppmd" not in chain else 512, ops=ops, timeout=to)
        for chain in ("deflate", "deflate64", "zstd", "brotli", "lzma2", "bzip2", "copy"):
            for pattern in ("p3", "p251", "blk1m", "random"):
                mb = 1024 if pattern != "random" or chain == "deflate64" else 512
                if chain == "bzip2" and pattern != "random":
                    mb = 384      # libbz2 compresses short periods at ~2.5 MB/s
                if chain == "lzma2" and pattern == "random":
                    mb = 256
                add(chain, mb, pattern=pattern, timeout=to)
            for position in ("first", "middle", "last"):
                add(chain, 1024, position=position, ops=(F, D), timeout=to)
        for chain in ("lzma2", "deflate", "copy", "zstd", "bzip2"):
            add(chain, 2048, ops=(F, FL), timeout=to)
        for chain in ("lzma2", "deflate", "copy", "zstd"):
            add(chain, 4096, timeout=to)
        add("deflate64", 768, ops=(), timeout=to)      # write side only
        add("ppmd", 768, ops=(), timeout=to)
        for chain in ("lzma2", "deflate", "copy"):
            add(chain, 1024, write_op="write_path", timeout=to)
            add(chain, 700, pattern="blk1m", write_op="write_path", timeout=to)
    return specs


def blame(stats, chain):
    """which decoder returned more than max_length (with real expansion), by its recorded calls"""
    worst, fam = 0, None
    for nme, s in (stats or {}).get("stages", {}).items():
        if s.get("breach") and s["max_over"] > worst:
            worst, fam = s["max_over"], FAMILY.get(nme, nme)
    return fam


def blame_retention(stats):
    """which codec object kept references to its input blocks (most bytes)"""
    worst, fam = 64 * MB, None
    for nme, s in (stats or {}).get("stages", {}).items():
        if s.get("retained_bytes", 0) > worst:
            worst, fam = s["retained_bytes"], FAMILY.get(nme, nme)
    return fam


def judge(rep, spec, job, r, contract):
    """turn one child result into evidence / a violation"""
    op, chain = job["op"], spec["chain"]
    row = {"chain": chain, "op": op, "size_mb": spec["size_mb"], "pattern": spec["pattern"], "position": spec["position"],
           "limit": job.get("limit"), "status": r.get("status")}
    over, why = False, ""
    if r.get("status") == "ok":
        v = r["value"]
        row.update({"above_mb": v["above_mb"], "base_mb": v["base_mb"], "secs": v["secs"], "archive_bytes": v["archive_bytes"]})
        if v.get("stats"):
            if "max_buf" in v["stats"]:
                row["max_buf_mb"] = round(v["stats"]["max_buf"] / MB, 1)
            row["stages"] = {k: {"max_out_mb": round(s["max_out"] / MB, 1), "breach": s.get("breach", 0),
                                 "retained_mb": round(s.get("retained_bytes", 0) / MB, 1)}
                             for k, s in v["stats"]["stages"].items()}
        if v["above_mb"] > BUDGET_MB:
            over, why = True, "peak RSS %d MiB above the baseline of %d MiB (budget %d MiB)" % (v["above_mb"], v["base_mb"], BUDGET_MB)
        if op not in ("write", "write_path") and not v.get("complete", True):
            rep.violation("%s of the %s archive did not deliver every member in full: %r" % (op, chain, v.get("got")),
                          {"kind": "incomplete", "job": job, "spec": _slim(spec)}, match_keys={"kind": "incomplete", "chain": chain})
    elif r.get("status") == "memory":
        over, why = True, "MemoryError under an address-space cap of %d MiB (budget %d MiB)" % (spec["cap_mb"], BUDGET_MB)
    elif r.get("status") == "timeout":
        row["note"] = "timeout after %ds" % spec["timeout"]
        rep.violation("%s on the %s archive did not finish within %ds" % (op, chain, spec["timeout"]),
                      {"kind": "timeout", "job": job, "spec": _slim(spec)}, concrete=False,
                      match_keys={"kind": "timeout", "chain": chain, "op": op})
    else:
        rep.violation("%s on the %s archive failed: %r" % (op, chain, r),
                      {"kind": "child-failure", "job": job, "spec": _slim(spec)}, concrete=False,
                      match_keys={"kind": "child-failure", "chain": chain, "op": op})
    if over:
        stats = r["value"].get("stats") if r.get("status") == "ok" else None
        if op in ("write", "write_path"):
            codec = blame_retention(stats)
            if codec is None and r.get("status") != "ok":
                codec = contract.get(("retains", chain))
            kind = "compressor-retains-input" if codec else "write-memory-over-budget"
            codec = codec or chain
        else:
            codec = blame(stats, chain)
            if codec is None and r.get("status") != "ok":
                # the child died before reporting: use the contract observed at small scale for this chain's decoders
                codec = contract.get(chain)
            kind = "decoder-ignores-max-length" if codec else "extract-memory-over-budget"
            if codec is None:
                codec = blame_retention(stats)
                kind = "decoder-retains-input" if codec else kind
            codec = codec or chain
        big = [m for m in job["members"] if m[1] >= 64 * MB][0]
        what = ("%s of a %d MiB member (%s) through %s: %s; archive %s bytes" % (
            op, big[1] // MB, big[2], chain, why,
            r["value"]["archive_bytes"] if r.get("status") == "ok" else "?"))
        if kind == "decoder-ignores-max-length":
            what += "; the %s decoder returned more than max_length, _buf reached %s MiB" % (codec, row.get("max_buf_mb", "?"))
        if kind in ("compressor-retains-input", "decoder-retains-input"):
            what += "; the %s codec object keeps a reference to every input block it is given" % codec
        row["over_budget"] = kind + ":" + codec
        rep.violation(what, {"kind": kind, "job": job, "spec": _slim(spec)},
                      match_keys={"kind": kind, "codec": codec, "chain": chain, "op": op, "pattern": spec["pattern"],
                                  "position": spec["position"]})
    return row


def _slim(spec):
    return {k: spec[k] for k in ("chain", "members", "write_op", "timeout", "cap_mb", "pattern", "position", "size_mb")}


def chain_contract(table):
    """chain -> family of its first decoder observed (small scale) to exceed max_length"""
    out = {}
    dishonest = {FAMILY.get(n, n) for n, t in (table or {}).items() if not t.get("honours_max_length", True)}
    keeps = {FAMILY.get(n, n) for n, t in (table or {}).items()
             if t.get("keeps_reference_to_input") and n.endswith(("Compressor", "Encoder"))}
    for chain in CHAINS:
        for part in chain.split("+"):
            if part in dishonest and chain not in out:
                out[chain] = part
            if part in keeps and ("retains", chain) not in out:
                out[("retains", chain)] = part
    return out


def explore_start(tier):
    """launch the measurement pipelines (child processes) in the background"""
    specs = specs_for(tier)
    # longest first
    order = sorted(range(len(specs)), key=lambda i: -(specs[i]["size_mb"] * (8 if "ppmd" in specs[i]["chain"] else 1)))
    ex = ThreadPoolExecutor(max_workers=8 if tier == "quick" else 5)
    futs = {i: ex.submit(pipeline, specs[i]) for i in order}
    return {"specs": specs, "futs": futs, "ex": ex, "t0": time.time()}


def explore_finish(ctx, rep, tier, table, handle):
    specs = handle["specs"]
    contract = chain_contract(table)
    rows = []
    t0 = handle["t0"]
    if True:
        for i, spec in enumerate(specs):
            results = handle["futs"][i].result()
            for job, r in results:
                rep.count(("rss", spec["chain"], job["op"], spec["size_mb"], spec["pattern"], spec["position"], job.get("limit")),
                          nontrivial=True)
                rep.dist("rss_op", job["op"])
                rep.dist("rss_chain", spec["chain"])
                rows.append(judge(rep, spec, job, r, contract))
    handle["ex"].shutdown()
    rep.extra["rss_measurements"] = rows
    rep.extra["rss_wall_s"] = round(time.time() - t0, 1)
    # the separating experiment: with get_memory_limit() = 8 MiB an honest chain's peak collapses, a dishonest one's does not
    sep = {}
    for row in rows:
        if row.get("above_mb") is not None and row["op"] == "extract_factory":
            sep.setdefault((row["chain"], row["size_mb"], row["pattern"], row["position"]), {})[
                "limit8" if row.get("limit") else "default"] = row["above_mb"]
    rep.extra["max_length_effect_mb"] = {"/".join(map(str, k)): v for k, v in sep.items() if len(v) == 2}
    for k, v in sep.items():
        if len(v) == 2:
            rep.sample({"chain": k[0], "size_mb": k[1], "peak_above_baseline_mb": v})


def check_memory_limit(ctx, rep, rng, tier):
    """get_memory_limit() is the max_block of the proved bounds (live bytes <= 2*max_block + block size): whatever the data-segment
    limit of the process is, it has to stay within the 128 MB extraction chunk the budget was sized for (and be positive)"""
    import subprocess
    code = ("import resource,sys\n"
            "lim=int(sys.argv[1])\n"
            "if lim>0: resource.setrlimit(resource.RLIMIT_DATA,(lim,resource.getrlimit(resource.RLIMIT_DATA)[1]))\n"
            "from py7zr.properties import get_memory_limit\n"
            "print(int(get_memory_limit()))\n")
    env = dict(os.environ)
    seen = {}
    for lim in (0, 600 * MB, 768 * MB, 1024 * MB, 2048 * MB, 3072 * MB, 8192 * MB, 1 << 40):
        try:
            r = subprocess.run([sys.executable, "-c", code, str(lim)], capture_output=True, text=True, timeout=60, env=env)
            val = int(r.stdout.strip().splitlines()[-1]) if r.returncode == 0 and r.stdout.strip() else None
        except Exception:  # noqa
            val = None
        seen["unlimited" if lim == 0 else "%d MiB" % (lim // MB)] = val
        rep.count(("memory-limit", lim), nontrivial=True)
        if val is None:
            continue            # the interpreter could not start under that limit: nothing to say
        if not (0 < val <= 128 * 1000 * 1000):
            rep.violation("get_memory_limit() = %d under a data-segment limit of %s: the per-step output bound of extraction has to stay "
                          "within the 128 MB chunk (the proved live-byte bound is 2*max_block + block size)" % (
                              val, "unlimited" if lim == 0 else "%d MiB" % (lim // MB)),
                          {"kind": "memory-limit", "rlimit_data": lim, "value": val}, match_keys={"kind": "memory-limit"})
            break
    rep.extra["get_memory_limit_by_rlimit_data"] = seen


def run(ctx):
    rep, tier = ctx["rep"], ctx["tier"]
    rng = random.Random(ctx["seed"])
    from harness import decgen
    decgen.check_decompress(ctx, rep, random.Random(ctx["seed"] + 7), 500 if tier == "quick" else 5000)
    rep.cov["rule"] = ("(a1) random toy chains (tags copy/lagging/expander/honest expander, 1-3 stages, short reads, gates, "
                       "max_length -1..200) through the real decompress/Worker.decompress/compress vs Mem.v, distinct by case; "
                       "(a2) every real codec family x data pattern x (block, max_length) with the proven bounds checked on every call; "
                       "(b) one measurement = (chain, operation, member size, pattern, position, patched limit), non-trivial = "
                       "member >= 128 MiB, i.e. above the 128e6 extraction chunk")
    table = None
    handle = explore_start(tier)
    for part in (check_toy_decompress, check_toy_worker, check_toy_compress, check_memory_limit):
        try:
            part(ctx, rep, rng, tier)
        except Exception as e:  # noqa
            import traceback
            rep.violation("%s raised %s: %s" % (part.__name__, type(e).__name__, e),
                          {"kind": "exception", "part": part.__name__, "trace": traceback.format_exc()[-1500:]},
                          concrete=False, match_keys={"kind": "exception", "part": part.__name__})
    try:
        table = check_real_codecs(ctx, rep, rng, tier)
    except Exception as e:  # noqa
        import traceback
        rep.violation("check_real_codecs raised %s: %s" % (type(e).__name__, e),
                      {"kind": "exception", "part": "check_real_codecs", "trace": traceback.format_exc()[-1500:]},
                      concrete=False, match_keys={"kind": "exception", "part": "check_real_codecs"})
    explore_finish(ctx, rep, tier, table, handle)


# ------------------------------------------------------------------------------------------------ replay
def replay(d):
    import json
    r = d["replay"]
    kind = r.get("kind")
    if kind in ("decoder-ignores-max-length", "extract-memory-over-budget", "write-memory-over-budget", "incomplete",
                "timeout", "child-failure"):
        spec = dict(r["spec"])
        job = r["job"]
        ops = [] if job["op"] in ("write", "write_path") else [{"op": job["op"], "limit": job.get("limit")}]
        spec["ops"] = ops
        res = pipeline(spec)
        jb, out = res[-1]
        print(json.dumps({"job": jb["op"], "result": out}, default=str)[:1500])
        if out.get("status") == "memory":
            return 1
        if out.get("status") != "ok":
            return 1
        v = out["value"]
        if kind == "incomplete":
            return 0 if v.get("complete", True) else 1
        print("peak above baseline: %d MiB (budget %d)" % (v["above_mb"], BUDGET_MB))
        return 1 if v["above_mb"] > BUDGET_MB else 0
    if kind == "real-codec":
        res = real_codec_one({"chain": r["chain"], "configs": [{k: r[k] for k in ("pattern", "size", "bs", "ml", "seed")}]})
        print(json.dumps(res, default=str)[:1500])
        return 1 if any(("died" in x or "exc" in x or x.get("problems")) for x in res) else 0
    if kind in ("toy-trace", "toy-worker", "toy-compress"):
        import vlib
        m = vlib.Model()
        try:
            if kind == "toy-trace":
                bad = run_toy_case(m, r["case"])
            elif kind == "toy-worker":
                bad = run_worker_case(m, r["case"], r["size"], r["mb"])[1]
            else:
                bad = run_compress_case(m, r["states"], r["fd"], r["bs"], r["sched"])
        finally:
            m.close()
        print(bad)
        return 1 if bad else 0
    print(json.dumps(r, default=str)[:2000])
    return 2
