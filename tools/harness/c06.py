"""C06 -- reader conformance: any valid 7z layout is read as the format defines it."""
import glob
import io
import os
import random
import shutil
import struct
import tempfile
import zlib

import py7zr

from harness import arch, hdr
from harness.sandbox import run_sandboxed
from ref import refreader, refwriter

LEVEL = "proof"
TRUSTED_BASE = [
    "Coq 8.16.1 kernel, vm_compute; no axioms",
    "theories/Spec.v as a transcription of docs/archive_format.rst (+ 7zFormat.txt where silent); cross-checked here "
    "against the third-party archives under tests/data",
    "theories/Header.v, Assign.v: hand models of py7zr's parser and of _real_get_contents / worker ids, tied by the "
    "correspondence run below",
    "tools/ref/refwriter.py (independent writer; codec libraries called directly), tools/ref/refreader.py",
    "extraction (ExtrOcamlBasic only) + ocaml/driver.ml",
]
ASSUMPTIONS = ["codec libraries (lzma, bz2, zlib, ...) are correct", "supported coders only; anti-items excluded"]
FT = 132223104000000000


GEN_DEPS = ["read_uint64", "read_uint32", "read_real_uint64", "read_boolean", "read_crcs", "read_byte", "PackInfo.__init__", "PackInfo._read", "PackInfo.retrieve", "Coder", "Bond.__init__", "Folder.__init__", "Folder._read", "Folder.retrieve", "UnpackInfo.__init__", "UnpackInfo._retrieve_coders_info", "UnpackInfo._read", "UnpackInfo.retrieve", "Folder._find_out_bin_pair", "Folder.get_unpack_size", "SubstreamsInfo.__init__", "SubstreamsInfo._inherit_folder_digests", "SubstreamsInfo._read", "SubstreamsInfo.retrieve", "SubstreamsInfo.default", "StreamsInfo.__init__", "StreamsInfo.read", "StreamsInfo.retrieve", "read_utf16", "FileEntry", "FilesInfo.__init__", "FilesInfo._read_name", "FilesInfo._read_attributes", "FilesInfo._read_times[creationtime]", "FilesInfo._read_times[lastaccesstime]", "FilesInfo._read_times[lastwritetime]", "FilesInfo._read", "FilesInfo.retrieve", "calculate_crc32", "SignatureHeader.__init__", "SignatureHeader._read", "SignatureHeader.retrieve"]

def gen_members(rng, n=None):
    n = rng.choice([1, 2, 3, 3, 4, 5, 6]) if n is None else n
    out = []
    used = set()
    for i in range(n):
        kind = rng.choice(["file", "file", "file", "dir", "empty"])
        while True:
            name = rng.choice(["a", "b", "dir", "x.txt", "üml", "sp ace", "\U0001F600z", ".hid"]) + "%d" % i
            if name not in used:
                used.add(name)
                break
        data = b""
        if kind == "file":
            ln = rng.choice([0, 1, 2, 15, 16, 17, 100, 1000, 5000])
            data = arch.pattern_bytes(rng, ln, rng.choice(["random", "text", "period"]))
        attr = {"file": 0x20, "empty": 0x20, "dir": 0x10}[kind]
        if rng.random() < 0.5:
            mode = {"file": 0o100644, "empty": 0o100600, "dir": 0o40755}[kind]
            attr |= 0x8000 | (mode << 16)
        # entries without data whose attribute word disagrees with (or says nothing about) what the EmptyFile bit says:
        # a directory without attributes / without FILE_ATTRIBUTE_DIRECTORY (other archivers write such entries), an empty
        # FILE whose attribute word carries the directory bit -- with and without unix mode bits of either kind
        if kind == "dir" and rng.random() < 0.3:
            attr = rng.choice([None, 0, 0x20, 0x8000 | (0o40755 << 16), 0x20 | 0x8000 | (0o100644 << 16), 0x01])
        elif kind == "empty" and rng.random() < 0.3:
            attr = rng.choice([0x10, 0x30, 0x10 | 0x8000 | (0o100600 << 16), 0x10 | 0x8000 | (0o40700 << 16), 0x11])
        out.append({"name": name, "kind": kind, "data": data, "mtime": FT + rng.randrange(10 ** 9) * 10, "attr": attr,
                    "ctime": None, "atime": None})
    return out


def gen_layout(rng, members, feature=None):
    nd = sum(1 for m in members if m["kind"] == "file")
    lay = {}
    # partition of the data members into consecutive folders
    if nd:
        cuts = sorted(set(rng.sample(range(1, nd), min(nd - 1, rng.choice([0, 0, 1, 2])))) if nd > 1 else [])
        parts, prev = [], 0
        for c in cuts + [nd]:
            parts.append(list(range(prev, c)))
            prev = c
        lay["folders"] = parts
        lay["coders"] = [rng.choice(["copy", "lzma2", "lzma", "deflate", "bzip2", "delta+lzma2", "deflate>lzma2",
                                     "lzma2>deflate", "bzip2>copy", "delta+delta+lzma2", "delta+delta+delta+lzma2"]) for _ in parts]
    lay["crc"] = rng.choice(["substream", "substream", "folder", "none"])
    lay["pack_crc"] = rng.random() < 0.3
    lay["header"] = rng.choice(["raw", "raw", "lzma"])
    lay["dummy"] = rng.choice([0, 0, 1, 3, 6])
    lay["emptyfile"] = rng.choice(["auto", "auto", "always"])
    lay["omit_nums"] = rng.random() < 0.7
    if feature == "packpos":
        lay["packpos"] = rng.choice([1, 7, 32])
    if feature == "no_substreams" and nd:
        # SubStreamsInfo omitted: one member per folder; the CRCs are the folders' (all, every other one, or none)
        lay["folders"] = [[i] for i in range(nd)]
        lay["coders"] = [rng.choice(["copy", "lzma2", "deflate", "delta+lzma2", "bzip2>copy"]) for _ in range(nd)]
        lay["no_substreams"] = True
        lay["crc"] = rng.choice(["folder", "folder", "none", "folder-partial"])
    if feature == "partial_crc":
        lay["crc"] = rng.choice(["partial", "partial", "folder-partial"])
        if nd >= 3 and rng.random() < 0.7:
            # a multi-member folder ahead of another folder: the defined-bits of later folders depend on correct indexing
            k = rng.randrange(2, nd)
            lay["folders"] = [list(range(0, k)), list(range(k, nd))]
            lay["coders"] = [rng.choice(["copy", "lzma2", "deflate"]) for _ in range(2)]
    if feature == "zero_folder" and nd:
        lay["zero_folder_after"] = rng.randrange(len(lay["folders"]))
    if feature == "partial_vectors":
        for m in members:
            if rng.random() < 0.4:
                m["mtime"] = None
            if rng.random() < 0.4:
                m["attr"] = None
    return lay


def classify(members, lay):
    """the layout features this case exercises (for matching known findings and for the evidence)"""
    feats = []
    parts = lay.get("folders") or []
    nfolders = len(parts) + (1 if lay.get("zero_folder_after") is not None else 0)
    if lay.get("packpos"):
        feats.append("packpos")
    if lay.get("no_substreams"):
        feats.append("no_substreams")
    if lay.get("crc") in ("partial", "folder-partial"):
        feats.append("partial_crc")
    if lay.get("zero_folder_after") is not None:
        feats.append("zero_folder")
    if nfolders > 1:
        # an empty-stream entry located before a data member that is not the first of its (later) folder
        di = 0
        first_of_folder = set()
        k = 0
        for p in parts:
            first_of_folder.add(k)
            k += len(p)
        seen_empty_since_folder_start = False
        for m in members:
            if m["kind"] == "file":
                if di in first_of_folder:
                    seen_empty_since_folder_start = False
                elif seen_empty_since_folder_start:
                    feats.append("multifolder_empty_between")
                    break
                di += 1
            else:
                seen_empty_since_folder_start = True
    if lay.get("crc") in ("folder", "folder-partial") and any(len(p) > 1 for p in parts):
        feats.append("folder_crc_multi")
    if any(m["kind"] == "dir" and (m["attr"] is None or not m["attr"] & 0x10) for m in members):
        feats.append("dir_without_dir_attribute")
    if any(m["kind"] == "empty" and m["attr"] is not None and m["attr"] & 0x10 for m in members):
        feats.append("emptyfile_with_dir_attribute")
    return sorted(set(feats))


def py7zr_read(data):
    """what py7zr says the archive contains: list of (name, kind, bytes, mtime, attr) or ('err', class)"""
    try:
        with py7zr.SevenZipFile(io.BytesIO(data), "r") as z:
            metas = []
            for f in z.files:
                kind = "dir" if f.is_directory else ("empty" if f.emptystream else "file")
                mt = f.lastwritetime
                metas.append([f.filename, kind, None if mt is None else int(mt), f._get_property("attributes"),
                              f.uncompressed, f.crc32])
            fac = arch.Collect()
            z.extractall(factory=fac)
            got = {}
            for n, b in fac.as_list():
                got.setdefault(n, []).append(b)
            ms = z.header.main_streams
            nfolders = len(ms.unpackinfo.folders) if ms is not None and ms.unpackinfo is not None else 0
        if nfolders >= 2:
            # the same archive opened BY NAME: several folders are then decoded by one thread per folder, each of which
            # opens the file itself and seeks to its own packed stream -- a second implementation of the position arithmetic
            import tempfile
            d = tempfile.mkdtemp(prefix="c06n_")
            try:
                pth = os.path.join(d, "a.7z")
                with open(pth, "wb") as fh:
                    fh.write(data)
                try:
                    with py7zr.SevenZipFile(pth, "r") as z2:
                        fac2 = arch.Collect()
                        z2.extractall(factory=fac2)
                        got2 = {}
                        for n, b in fac2.as_list():
                            got2.setdefault(n, []).append(b)
                except Exception as e:  # noqa
                    return ("err", "by-name:" + type(e).__name__, str(e)[:200])
                if got2 != got:
                    return ("err", "by-name:differs", "opened by name (one thread per folder) delivers %r, opened from a stream %r" % (
                        sorted((n, [len(x) for x in v]) for n, v in got2.items())[:6], sorted((n, [len(x) for x in v]) for n, v in got.items())[:6]))
            finally:
                shutil.rmtree(d, ignore_errors=True)
        return ("ok", metas, got)
    except Exception as e:  # noqa
        return ("err", type(e).__name__, str(e)[:200])


def sandbox_read(arg):
    data = bytes.fromhex(arg)
    r = py7zr_read(data)
    if r[0] == "err":
        return list(r)
    return ["ok", r[1], {k: [b.hex() for b in v] for k, v in r[2].items()}]


def compare(members, res, refcrcs=None):
    """returns None if py7zr's reading equals the logical archive, else a description"""
    if res[0] != "ok":
        return "reading raises %s: %s" % (res[1], res[2] if len(res) > 2 else "")
    metas, got = res[1], res[2]
    if [m[0] for m in metas] != [m["name"] for m in members]:
        return "names %r differ from %r" % ([m[0] for m in metas], [m["name"] for m in members])
    for m, x in zip(members, metas):
        if x[1] != m["kind"]:
            return "member %r is read as %s, the archive says %s" % (m["name"], x[1], m["kind"])
        if x[2] != m["mtime"]:
            return "member %r mtime %r != %r" % (m["name"], x[2], m["mtime"])
        if x[3] != m["attr"]:
            return "member %r attributes %r != %r" % (m["name"], x[3], m["attr"])
        if m["kind"] == "file":
            if x[4] != len(m["data"]):
                return "member %r size %r != %d" % (m["name"], x[4], len(m["data"]))
            # a CRC py7zr does not report (None) is not a misreading; a CRC it reports must be the stored one
            if refcrcs is not None and x[5] is not None and refcrcs.get(m["name"], "absent") != "absent" and x[5] != refcrcs[m["name"]]:
                return "member %r is listed with CRC %r, the archive stores %r" % (m["name"], x[5], refcrcs[m["name"]])
            d = got.get(m["name"])
            if d is None:
                return "member %r is not delivered" % m["name"]
            if d[0] != m["data"]:
                return "member %r delivered with wrong bytes (%d bytes instead of %d)" % (m["name"], len(d[0]), len(m["data"]))
        elif m["kind"] == "empty":
            d = got.get(m["name"])
            if d is not None and d[0] != b"":
                return "empty file %r delivered with %d bytes" % (m["name"], len(d[0]))
    return None


def model_vs_impl(ctx, rep, data, members):
    """correspondence: Header.v parser + Assign.v on the raw header vs what py7zr's objects say"""
    model = ctx["model"]
    nh_ofs, nh_size, _ = struct.unpack("<QQL", data[12:32])
    raw = data[32 + nh_ofs: 32 + nh_ofs + nh_size]
    if raw[:1] != b"\x01":
        return
    r = model.call("impl_plans_of_bytes", [4096, list(raw)])
    try:
        z = py7zr.SevenZipFile(io.BytesIO(data), "r")
    except Exception as e:  # noqa
        if r[0] == 0:
            rep.violation("model/implementation disagree: model reads the header, implementation raises %s" % type(e).__name__,
                          {"kind": "correspondence", "archive": data.hex()}, concrete=False, match_keys={"kind": "correspondence"})
        return
    try:
        if r[0] != 0:
            rep.violation("model/implementation disagree: implementation reads the header, model says error %r" % (r[1],),
                          {"kind": "correspondence", "archive": data.hex()}, concrete=False, match_keys={"kind": "correspondence"})
            return
        folders = z.header.main_streams.unpackinfo.folders if z.header.main_streams is not None else []
        multi = len(folders) != 1
        ids = {}
        for fo in folders:
            if fo.files is not None:
                for f in fo.files:
                    ids[id(f._file_info)] = f.id
        impl = []
        for f in z.files:
            kind = 2 if f.is_directory else (1 if f.emptystream else 0)
            fo = -1 if f.folder is None else [i for i, x in enumerate(folders) if x is f.folder][0]
            wid = ids.get(id(f._file_info), f.id) if multi else f.id
            impl.append([[ord(c) for c in f.filename], kind, fo, f.uncompressed if fo >= 0 else 0, f.crc32, wid])
        mod = [[p[0][0] if p[0] else None, p[1], p[2], p[4], (p[5][0] if p[5] else None), p[8]] for p in r[1]]
        if impl != mod:
            rep.violation("model/implementation disagree on the assignment of entries: impl %r model %r" % (impl, mod),
                          {"kind": "correspondence", "archive": data.hex()}, concrete=False, match_keys={"kind": "correspondence"})
        # the header graph as _real_get_contents leaves it (the SubstreamsInfo object installed when the section is absent)
        # against Assign.install_sub of the graph Header._read builds
        st, parsed = hdr.impl_parse(raw)
        if st == "ok":
            want, got = model.call("install_sub", parsed), hdr.header_tree(z.header)
            if want != got:
                rep.violation("model/implementation disagree on the header graph after opening: impl %r model %r" % (got[0], want[0]),
                              {"kind": "correspondence", "archive": data.hex()}, concrete=False, match_keys={"kind": "correspondence"})
            rep.dist("graph_after_open", "SubStreamsInfo installed" if parsed[0] and parsed[0][0][2] == [] and got[0][0][2] != []
                     else "as parsed")
        rep.extra["correspondence_cases"] = rep.extra.get("correspondence_cases", 0) + 1
    finally:
        z.close()


# layout features py7zr is known to misread: none is left (zero_folder, partial_crc, multifolder_empty_between,
# no_substreams and -- ArchiveFile.is_directory reads the EmptyFile bit -- dir_without_dir_attribute /
# emptyfile_with_dir_attribute were repaired in /repo: a misreading of such a layout is an ordinary violation)
PRIORITY = []
FEATURES = [None, None, None, "packpos", "no_substreams", "partial_crc", "zero_folder", "partial_vectors"]


def one_case(ctx, rep, rng, idx):
    members = gen_members(rng)
    feature = FEATURES[idx % len(FEATURES)]
    lay = gen_layout(rng, members, feature)
    feats = classify(members, lay)
    data = refwriter.write_archive(members, lay)
    rep.count(("c06", idx, repr(lay)), nontrivial=any(m["kind"] == "file" and m["data"] for m in members))
    for ft in feats or ["plain"]:
        rep.dist("layout_feature", ft)
    rep.dist("folders", len(lay.get("folders") or []))
    rep.dist("header", lay.get("header", "raw"))
    # the reference reader (strict spec) must accept what the reference writer wrote (self-check of the oracle)
    try:
        ref = refreader.read_archive(data, ctx["model"])
        want = [(m["name"], m["kind"], m["data"]) for m in members]
        if [(x["name"], x["kind"], x["data"]) for x in ref["members"]] != want:
            raise refreader.RefError("reference reader reads something else")
    except Exception as e:  # noqa
        rep.violation("oracle self-check failed: %s" % e, {"kind": "oracle", "members": repr(members)[:2000], "layout": lay},
                      concrete=False, match_keys={"kind": "oracle"})
        return
    out = run_sandboxed("harness.c06:sandbox_read", data.hex(), timeout=20, mem_mb=2000)
    if out["status"] == "ok":
        v = out["value"]
        res = tuple(v) if v[0] == "err" else ("ok", v[1], {k: [bytes.fromhex(b) for b in bs] for k, bs in v[2].items()})
    else:
        res = ("err", out["status"], "reading does not return (%s)" % out["status"])
    names = [m["name"] for m in members]
    refcrcs = {x["name"]: x["crc"] for x in ref["members"] if x["kind"] == "file" and names.count(x["name"]) == 1}
    bad = compare(members, res, refcrcs)
    if bad:
        # primary feature = the first known-problematic layout feature present (one finding per feature class)
        primary = next((f for f in PRIORITY if f in feats), "plain")
        rep.violation("valid archive misread: %s [layout features: %s]" % (bad, ",".join(feats) or "plain"),
                      {"kind": "misread", "archive": data.hex(), "features": feats, "layout": lay,
                       "members": [[m["name"], m["kind"], m["data"].hex(), m["mtime"], m["attr"]] for m in members]},
                      match_keys={"kind": "misread", "feature": primary})
    if res[0] == "ok" or res[1] not in ("timeout", "memory", "crash"):
        model_vs_impl(ctx, rep, data, members)
    if idx < 3:
        rep.sample({"layout": lay, "features": feats, "members": [[m["name"], m["kind"], len(m["data"])] for m in members]})


def fixtures(ctx, rep):
    """third-party archives shipped with the test suite: the strict spec reader and py7zr must agree"""
    n = 0
    for path in sorted(glob.glob(os.path.join(os.environ.get("VERIF_REPO", "/repo"), "tests", "data", "*.7z"))):
        base = os.path.basename(path)
        data = open(path, "rb").read()
        pw = {"encrypted_1.7z": "secret", "encrypted_2.7z": "secret", "filename_encryption.7z": "hello",
              "encrypted_3.7z": "secret", "encrypted_4.7z": "secret", "encrypted_5.7z": "secret", "encrypted_6.7z": "secret"}.get(base)
        try:
            ref = refreader.read_archive(data, ctx["model"], password=pw, strict_tiling=False)
        except Exception as e:  # noqa
            rep.dist("fixture_ref", "ref-rejects:" + str(e)[:40])
            continue
        try:
            with py7zr.SevenZipFile(io.BytesIO(data), "r", password=pw) as z:
                names = z.getnames()
                fac = arch.Collect()
                z.extractall(factory=fac)
                got = fac.as_dict()
        except Exception as e:  # noqa
            rep.dist("fixture_ref", "py7zr-raises:" + type(e).__name__)
            continue
        n += 1
        rep.count(("fixture", base))
        # two documented conventions of py7zr, not conformance issues: '\\' in stored names is presented as '/',
        # and an entry stored without a name is presented under a name derived from the archive's
        refnames = [None if m["name"] is None else m["name"].replace("\\", "/") for m in ref["members"]]
        refnames = [n if r is None else r for r, n in zip(refnames, names)] if len(refnames) == len(names) else refnames
        for m, rn in zip(ref["members"], refnames):
            m["name"] = rn
        if refnames != names:
            rep.violation("fixture %s: names differ between the specification reader and py7zr" % base,
                          {"kind": "fixture", "file": base}, match_keys={"kind": "fixture", "file": base})
            continue
        for m in ref["members"]:
            if m["kind"] == "file" and m["name"] in got and got[m["name"]] != m["data"] and refnames.count(m["name"]) == 1:
                # symlink members are delivered by the factory as their target text: same bytes
                rep.violation("fixture %s: member %r differs between the specification reader and py7zr" % (base, m["name"]),
                              {"kind": "fixture", "file": base, "member": m["name"]}, match_keys={"kind": "fixture", "file": base})
                break
    rep.extra["fixtures_cross_checked"] = n


def run(ctx):
    rep, tier = ctx["rep"], ctx["tier"]
    rng = random.Random(ctx["seed"])

    try:
        from harness import hdrgen
        hdrgen.check_readers(ctx, rep, random.Random(ctx["seed"] ^ 0x7A3), tier)
    except Exception as e:  # noqa
        rep.violation("translation validation raised %s: %s" % (type(e).__name__, e),
                      {"kind": "exception", "part": "hdrgen"}, concrete=False, match_keys={"kind": "exception", "part": "hdrgen"})
    rep.cov["rule"] = ("logical archives (1..6 members of kind file/empty/dir, sizes around 0/1/16/1000/5000) x layouts from the "
                       "independent reference writer: folder partitions, coder chains, CRC placement, packed CRCs, kDummy, EmptyFile, "
                       "NumUnpackStream omitted, raw/LZMA header, and one feature class per case in rotation (packpos>0, no "
                       "SubStreamsInfo, partially defined CRCs, zero-sub-stream folder, partially defined vectors); non-trivial = some "
                       "member has data; about a third of the directories come without attributes / without the directory attribute "
                       "and of the empty files with it; distinct by (case, layout); plus tests/data fixtures cross-checked spec "
                       "reader vs py7zr")
    n = 160 if tier == "quick" else 4000
    for i in range(n):
        one_case(ctx, rep, rng, i)
        if len(rep.violations) > 12:
            break
    fixtures(ctx, rep)


def replay(d):
    r = d["replay"]
    if r.get("kind") == "misread":
        data = bytes.fromhex(r["archive"])
        members = [{"name": a, "kind": b, "data": bytes.fromhex(c), "mtime": t, "attr": at} for a, b, c, t, at in r["members"]]
        out = run_sandboxed("harness.c06:sandbox_read", data.hex(), timeout=20, mem_mb=2000)
        if out["status"] == "ok":
            v = out["value"]
            res = tuple(v) if v[0] == "err" else ("ok", v[1], {k: [bytes.fromhex(b) for b in bs] for k, bs in v[2].items()})
        else:
            res = ("err", out["status"], "")
        bad = compare(members, res)
        print(bad or "reads correctly now")
        return 1 if bad else 0
    print(str(r)[:500])
    return 2
