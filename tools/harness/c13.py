"""C13 -- extraction results do not depend on scheduling; worker errors reach the caller.

Proof side: coq/theories/Par.v (model), ParProofs.v, coq/props/C13.v.
This module ties the model to py7zr and explores py7zr with the model and the sequential path as oracles:

* a harness-controlled scheduler: the Thread class py7zr starts its folder workers with is replaced by a
  subclass that knows which folder it serves; every output object (WriterFactory product, or the file
  returned by pathlib.Path.open under the scratch destination) blocks its worker before each create/write
  until the scheduler gives that worker the turn.  One turn = from one output operation of a worker up to
  its next one (or its end), so a chosen interleaving at output-write granularity is enforced exactly
  (all interleavings when there are at most `budget`, else sequential / reversed / round robin / random);
* reference traces: each folder's sequence of output operations, taken from a sequential extraction
  (archive opened from BytesIO) -- the model's claim is that a worker's actions depend on its own folder
  only, so under every interleaving every worker must show exactly its reference trace, and the outputs
  and the result must be what the model (FN 240 par_extract) computes for that very interleaving;
* damage at every folder position: one flipped bit in the folder's packed stream (copy chain: CRC mismatch;
  lzma2/bzip2/deflate/zstd: decoder failure or CRC), or an output that cannot be written (a failing factory /
  a directory in the way) -- on the thread path under many interleavings, on the process path (mp=True, in a
  sandbox subprocess, free running) and on the sequential path; the caller must get the exception the
  sequential path raises, the outputs must be the sequential ones up to the damaged folder and complete after;
* two SevenZipFile objects extracting the same archive file at once, workers of both interleaved (FN 245);
* an audit hook on `open`: every worker opens the archive itself, exactly once, by name;
* a second scheduler at the granularity of single file-system calls (FsRun: exists/is_dir/mkdir/open/... of a worker on a
  path under the destination is one step; lockstep, serial and random policies) on archives whose folders share parent
  directories that are not in the archive: the result must be the sequential one under every policy;
* which path runs (threads / caller) against select_mode (FN 243); output names against outnames (FN 244);
* the archives with members a_0 | a | a and a | a | a_0 | a (output names collided before commit 5112351; now all
  paths must agree under every order), and the two-damaged-folders archive of the Coq witness.

Process runs are compared with two models: the code as it stands (mode 2: exception queue and factory products
stay in the children -- the known findings) and the code after the proposed repair (mode 3 = threads); a tree
that behaves as mode 3 is simply accepted, so the check stays valid if the defect is repaired.
"""
import io
import itertools
import os
import pathlib
import random
import shutil
import sys
import tempfile
import threading
import time
import traceback

import py7zr
import py7zr.py7zr as P
from py7zr.io import Py7zIO, WriterFactory

from harness import arch
from harness.sandbox import run_sandboxed

GEN_DEPS = []
LEVEL = "proof"
TRUSTED_BASE = [
    "Coq 8.16.1 kernel, vm_compute (no native_compute); no axioms (Print Assumptions: closed)",
    "theories/Par.v as transcription of Worker.extract / extract_single / _extract_single / decompress and of the "
    "parallel flag and post-pass of SevenZipFile._extract (hand model; tied by the correspondence below on every case)",
    "extraction (ExtrOcamlBasic only) + ocaml/driver.ml for running the model",
    "the harness scheduler (tools/harness/c13.py): replaces py7zr.py7zr.Thread, py7zr.py7zr.get_memory_limit and "
    "pathlib.Path.open at run time; adds a flush after each gated file write (write-through, as for chunks larger "
    "than the buffer)",
    "CPython 3.12 threading/multiprocessing (fork start method), Linux file semantics for concurrent writers",
]
ASSUMPTIONS = [
    "interleavings are at output-operation granularity (create, write of one chunk) and, for the directory tree, at the "
    "granularity of single pathlib/os calls; races inside one system call or inside the C decoders are not explored "
    "(DESIGN.md: partial below that granularity)",
    "a worker's actions depend only on its own folder's packed bytes: checked on every run (per-worker trace equals the "
    "trace of the same folder extracted sequentially), not proved about the decoders",
    "process-parallel runs (mp=True) cannot be scheduled by the harness: they run free, a few cases per tier",
    "the archive file is not replaced between open and extract (workers re-open it by name)",
]

ERRCODE = {"Bad7z": 1, "Crc": 2, "Password": 3, "Unsupported": 4, "Eof": 5, "Other": 6}

# ------------------------------------------------------------------ scheduler
_CUR = None        # the controlled run in progress (one per process at a time)
_AUDIT = None
_HOOKED = False
_ORIG_OPEN = pathlib.Path.open


def _audit_hook(event, args):
    a = _AUDIT
    if a is not None and event == "open":
        try:
            p = args[0]
            if isinstance(p, (str, bytes, os.PathLike)) and os.fspath(p) == a["path"]:
                a["events"].append(getattr(threading.current_thread(), "c13_key", None))
        except Exception:  # noqa
            pass


class Run:
    """one controlled extraction: the order of worker turns and everything observed"""

    def __init__(self, order, start2folder, nf, outroot=None, timeout=8.0):
        self.cv = threading.Condition()
        self.order = list(order)
        self.turn = 0
        self.holder = None
        self.finished = set()
        self.free = False
        self.trace = []        # (key, op, name, data) in the order the turns were taken; op 'end' when a worker ends
        self.rec_main = []     # operations of uncontrolled threads (the caller: sequential path, empty-member pass)
        self.problems = []
        self.start2folder = start2folder
        self.nf = nf
        self.objs = {}         # id(Worker) -> object index (two-object runs)
        self.threads = []
        self.started = []      # keys in start order
        self.by_name = []      # was the worker given the archive's name (and not a shared handle)?
        self.idents = {}       # key -> thread ident
        self.outroot = outroot
        self.timeout = timeout

    def register(self, thread, target, args):
        obj = self.objs.get(id(getattr(target, "__self__", None)), 0)
        folder = self.start2folder.get(args[3]) if len(args) > 3 else None
        if folder is None:
            self.problems.append("worker started for an unknown stream position %r" % (args[3] if len(args) > 3 else None,))
            return None
        key = obj * self.nf + folder
        self.threads.append(thread)
        self.started.append(key)
        self.by_name.append(isinstance(args[0], str))
        return key

    def _skip(self):
        while self.holder is None and self.turn < len(self.order) and self.order[self.turn] in self.finished:
            self.turn += 1

    def enter(self, key, op, name, data):
        with self.cv:
            self.idents.setdefault(key, threading.get_ident())
            if self.holder == key:
                self.holder = None
                self.turn += 1
            self._skip()
            self.cv.notify_all()
            while not self.free:
                if self.holder is None and self.turn < len(self.order) and self.order[self.turn] == key:
                    self.holder = key
                    break
                if self.holder is None and self.turn >= len(self.order):
                    self.free = True
                    self.problems.append("schedule exhausted while worker %d still has output operations" % key)
                    self.cv.notify_all()
                    break
                if not self.cv.wait(self.timeout):
                    self.free = True
                    self.problems.append("scheduler timeout: worker %d waiting, turn %d of %d, holder %r" % (
                        key, self.turn, len(self.order), self.holder))
                    self.cv.notify_all()
                    break
            self.trace.append((key, op, name, data))

    def finish(self, key):
        with self.cv:
            self.idents.setdefault(key, threading.get_ident())
            self.finished.add(key)
            self.trace.append((key, "end", None, b""))
            if self.holder == key:
                self.holder = None
                self.turn += 1
            self._skip()
            self.cv.notify_all()

    def release_all(self):
        with self.cv:
            self.free = True
            self.cv.notify_all()


class SchedThread(threading.Thread):
    """stands in for threading.Thread inside py7zr.py7zr while a controlled run is in progress"""

    def __init__(self, *a, target=None, args=(), kwargs=None, **kw):
        super().__init__(*a, target=target, args=args, kwargs=kwargs, **kw)
        self.c13_run = _CUR
        self.c13_key = None
        self.daemon = True      # a worker stuck in a decoder must not keep the check alive
        if self.c13_run is not None:
            self.c13_key = self.c13_run.register(self, target, args)

    def run(self):
        try:
            super().run()
        finally:
            if self.c13_run is not None and self.c13_key is not None:
                self.c13_run.finish(self.c13_key)


def gate(op, name, data=b""):
    c = _CUR
    if c is None:
        return
    t = threading.current_thread()
    key = getattr(t, "c13_key", None)
    if key is None or getattr(t, "c13_run", None) is not c:
        c.rec_main.append((op, name, bytes(data)))
        return
    c.enter(key, op, name, bytes(data))


class _GBuf(Py7zIO):
    def __init__(self, name):
        self.name = name
        self.b = bytearray()

    def write(self, s):
        gate("write", self.name, s)
        self.b += s
        return len(s)

    def read(self, size=None):
        return bytes(self.b)

    def seek(self, offset, whence=0):
        return 0

    def flush(self):
        pass

    def size(self):
        return len(self.b)


class GateFactory(WriterFactory):
    def __init__(self, unwritable=None):
        self.products = []
        self.lock = threading.Lock()
        self.unwritable = unwritable

    def create(self, filename):
        if filename == self.unwritable:
            raise PermissionError(13, "output cannot be created (harness)", filename)
        gate("create", filename)
        b = _GBuf(filename)
        with self.lock:
            self.products.append((filename, b))
        return b

    def as_dict(self):
        return {n: bytes(b.b) for n, b in self.products}


class _GFile:
    """the object Path.open returns for an output under the scratch destination: the real (buffered) file,
    every write announced to the scheduler first and written through"""

    def __init__(self, f, name):
        self._f = f
        self._name = name

    def write(self, s):
        gate("write", self._name, s)
        n = self._f.write(s)
        self._f.flush()
        return n

    def __enter__(self):
        return self

    def __exit__(self, *a):
        self._f.close()
        return False

    def __getattr__(self, k):
        return getattr(self._f, k)


def _patched_open(self, mode="r", *a, **kw):
    c = _CUR
    if c is None or c.outroot is None or "w" not in mode:
        return _ORIG_OPEN(self, mode, *a, **kw)
    s = str(self)
    if not s.startswith(c.outroot + os.sep) or os.path.isdir(s):
        return _ORIG_OPEN(self, mode, *a, **kw)     # (a directory in the way: IsADirectoryError, nothing was done)
    name = os.path.relpath(s, c.outroot)
    parts = name.split(os.sep, 1)
    if len(parts) == 2 and parts[0].startswith("out"):
        name = parts[1]         # below <scratch>/out<i>/
    gate("create", name)
    return _GFile(_ORIG_OPEN(self, mode, *a, **kw), name)


class Patched:
    """patch points, all without source hooks"""

    def __init__(self, run, limit, audit_path=None):
        self.run, self.limit, self.audit_path = run, limit, audit_path

    def __enter__(self):
        global _CUR, _AUDIT, _HOOKED
        self.saved = (P.Thread, P.get_memory_limit, pathlib.Path.open)
        P.Thread = SchedThread
        lim = self.limit
        P.get_memory_limit = lambda: lim
        pathlib.Path.open = _patched_open
        _CUR = self.run
        if self.audit_path is not None:
            if not _HOOKED:
                sys.addaudithook(_audit_hook)
                _HOOKED = True
            _AUDIT = {"path": self.audit_path, "events": []}
        return self

    def __exit__(self, *a):
        global _CUR, _AUDIT
        run = self.run
        if run is not None:
            run.release_all()
            for t in run.threads:
                t.join(20)
                if t.is_alive():
                    run.problems.append("a worker thread is still alive after extractall returned and 20 s")
        self.audit = _AUDIT
        _AUDIT = None
        _CUR = None
        P.Thread, P.get_memory_limit, pathlib.Path.open = self.saved
        return False


# ------------------------------------------------------------------ cases
def case_members(case):
    return [[(n, bytes.fromhex(h)) for n, h in f["members"]] for f in case["folders"]]


def build(case, d):
    """write the archive of the case into directory d; returns (path, layout)"""
    ms = case_members(case)
    path = os.path.join(d, "c13.7z")
    pw = case.get("password")
    arch.make_archive(ms[0], case["folders"][0]["chain"], target=path, password=pw,
                      sessions=[(ms[i], case["folders"][i]["chain"]) for i in range(1, len(ms))])
    with py7zr.SevenZipFile(path, "r", password=pw) as z:
        ah = z.afterheader
        pp = list(z.header.main_streams.packinfo.packpositions)
        folders = [[f.id for f in fo.files] for fo in z.header.main_streams.unpackinfo.folders]
        names = [f.filename for f in z.files]
        empties = [bool(f.emptystream) for f in z.files]
    lay = {"ah": ah, "pp": pp, "folders": folders, "names": names, "empties": empties}
    dmg = case.get("damage")
    if dmg:
        for one in (dmg if isinstance(dmg, list) else [dmg]):
            if "offset" not in one:
                continue        # an unwritable output: nothing to do to the archive
            data = bytearray(open(path, "rb").read())
            pos = ah + pp[one["folder"]] + one["offset"]
            data[pos] ^= one["xor"]
            open(path, "wb").write(bytes(data))
    return path, lay


def py_outnames(names):
    """_extract's `fnames` loop, in Python (the model's par_outnames is checked against it and both against py7zr)"""
    seen, out = {}, []
    for n in names:
        o = n
        while o in seen:
            o = "%s_%d" % (n, seen[n])
            seen[n] += 1
        seen[o] = 0
        out.append(o)
    return out


def snapshot(root):
    out = {}
    if not os.path.isdir(root):
        return out
    for dp, dns, fns in os.walk(root):
        for n in fns:
            p = os.path.join(dp, n)
            out[os.path.relpath(p, root)] = open(p, "rb").read()
    return out


def exc_tuple(e):
    return ["err", type(e).__name__, str(e)[:160]]


def unwritable_of(case):
    d = case.get("damage")
    return d.get("unwritable") if isinstance(d, dict) else None


def extract_controlled(path, lay, limit, order, target, workdir, password=None, mp=False, src="name", audit=False,
                       two=False, timeout=8.0, unwritable=None):
    """run extractall under the scheduler.  target: 'file' | 'mem'.  src: 'name' | 'bytesio' | 'fileobj'.
    Returns dict(result, outs, run, audit...) ; with two=True two objects extract at once (results/outs are pairs)."""
    nf = len(lay["folders"])
    start2folder = {lay["ah"] + lay["pp"][i]: i for i in range(nf)}
    outroots = [os.path.join(workdir, "out%d" % i) for i in range(2 if two else 1)]
    for o in outroots:
        shutil.rmtree(o, ignore_errors=True)
        if unwritable is not None and target == "file":
            os.makedirs(os.path.join(o, unwritable))       # a directory where the member's file should go
    run = Run(order, start2folder, nf, outroot=workdir if target == "file" else None, timeout=timeout)
    results, outs, facs = [None] * len(outroots), [None] * len(outroots), [None] * len(outroots)
    pt = Patched(run, limit, audit_path=path if audit else None)
    with pt:
        def one(i):
            fobj = None
            try:
                if src == "name":
                    z = py7zr.SevenZipFile(path, "r", password=password, mp=mp)
                elif src == "bytesio":
                    z = py7zr.SevenZipFile(io.BytesIO(open(path, "rb").read()), "r", password=password, mp=mp)
                else:
                    fobj = open(path, "rb")
                    z = py7zr.SevenZipFile(fobj, "r", password=password, mp=mp)
                run.objs[id(z.worker)] = i
                try:
                    if target == "file":
                        z.extractall(path=outroots[i])
                    else:
                        facs[i] = GateFactory(unwritable)
                        z.extractall(factory=facs[i])
                    results[i] = ["ok"]
                finally:
                    z.close()
            except Exception as e:  # noqa
                results[i] = exc_tuple(e)
            finally:
                if fobj is not None:
                    fobj.close()
        if two:
            outer = [threading.Thread(target=one, args=(i,)) for i in range(2)]
            for t in outer:
                t.start()
            for t in outer:
                t.join(60)
                if t.is_alive():
                    run.problems.append("an extracting caller did not return within 60 s")
                    run.release_all()
                    t.join(30)
        else:
            one(0)
    for i, o in enumerate(outroots):
        outs[i] = snapshot(o) if target == "file" else (facs[i].as_dict() if facs[i] is not None else {})
    r = {"result": results if two else results[0], "outs": outs if two else outs[0], "run": run,
         "audit": pt.audit, "main_ident": threading.get_ident()}
    return r


def per_worker(trace):
    d = {}
    for key, op, name, data in trace:
        if op != "end":
            d.setdefault(key, []).append((op, name, data))
    return d


def reference(case, path, lay, workdir, target):
    """sequential extraction (archive opened from BytesIO): result, outputs, and each folder's operations"""
    r = extract_controlled(path, lay, case["limit"], [], target, workdir, password=case.get("password"), src="bytesio",
                           unwritable=unwritable_of(case))
    name2folder = {}
    outn = py_outnames(lay["names"])
    for fi, ids in enumerate(lay["folders"]):
        for i in ids:
            if not lay["empties"][i]:
                name2folder.setdefault(outn[i], []).append(fi)
    ops = {i: [] for i in range(len(lay["folders"]))}
    amb = any(len(v) > 1 for v in name2folder.values())
    for op, name, data in r["run"].rec_main:
        fs = name2folder.get(name)
        if fs is None:
            continue    # empty members: the caller's own first pass
        ops[fs[0]].append((op, name, data))
    r["ops"] = ops
    r["ambiguous"] = amb
    return r


def interleavings(counts, limit=None):
    """all orders of the multiset {key: count}; generator"""
    keys = sorted(counts)
    rem = dict(counts)
    cur = []

    def go():
        if all(v == 0 for v in rem.values()):
            yield list(cur)
            return
        for k in keys:
            if rem[k]:
                rem[k] -= 1
                cur.append(k)
                yield from go()
                cur.pop()
                rem[k] += 1
    return go()


def n_interleavings(counts):
    import math
    n = math.factorial(sum(counts.values()))
    for v in counts.values():
        n //= math.factorial(v)
    return n


def choose_orders(counts, rng, budget):
    total = n_interleavings(counts)
    if total <= budget:
        return list(interleavings(counts)), True
    keys = sorted(counts)
    out = []
    out.append([k for k in keys for _ in range(counts[k])])                 # one after the other
    out.append([k for k in reversed(keys) for _ in range(counts[k])])       # reversed
    rr, rem = [], dict(counts)
    while any(rem.values()):
        for k in keys:
            if rem[k]:
                rr.append(k)
                rem[k] -= 1
    out.append(rr)                                                          # round robin
    out.append(list(reversed(rr)))
    base = [k for k in keys for _ in range(counts[k])]
    seen = set(tuple(o) for o in out)
    tries = 0
    while len(out) < budget and tries < budget * 5:
        tries += 1
        o = list(base)
        rng.shuffle(o)
        # bias: sometimes keep one worker's operations together at a random place
        if rng.random() < 0.3 and len(keys) > 1:
            k = rng.choice(keys)
            rest = [x for x in o if x != k]
            p = rng.randrange(len(rest) + 1)
            o = rest[:p] + [k] * counts[k] + rest[p:]
        if tuple(o) not in seen:
            seen.add(tuple(o))
            out.append(o)
    return out, False


# ------------------------------------------------------------------ model side
def model_workers(case, lay, refops, failcodes, pristine_ops, oid, key_offset=0):
    """workers as model trees.  refops[f]: operations of folder f (from the reference of THIS archive, or of the
    pristine one for folders the sequential path never reaches); failcodes[f]: error code or None;
    the never-executed rest of a failing folder (its later members) comes from the pristine trace."""
    ws = []
    for f in range(len(lay["folders"])):
        acts = []
        ops = refops[f]
        for op, name, data in ops:
            acts.append([0, oid[name]] if op == "create" else [1, oid[name], list(data)])
        if failcodes.get(f) is not None:
            acts.append([2, failcodes[f]])
            created = [n for o, n, _ in ops if o == "create"]
            for op, name, data in pristine_ops[f]:
                if name not in created:
                    acts.append([0, oid[name]] if op == "create" else [1, oid[name], list(data)])
        ws.append(acts)
    return ws


def model_sched(trace):
    return [k for k, op, _, _ in trace]


def outs_from_model(tree, onames):
    d = {}
    for i, t in enumerate(tree):
        if t != []:
            d[onames[i]] = bytes(t[0])
    return d


def res_from_model(t):
    return ["ok"] if t[0] == 0 else ["err", t[1]]


def errcode(name):
    """exception class -> the model's err: CRC mismatch, the post-pass's FileNotFoundError, or a decoder failure"""
    if name == "FileNotFoundError":
        return ERRCODE["Other"]
    c = arch.exc_class(name)
    return ERRCODE["Eof"] if c == "Other" else ERRCODE[c]


def res_code(res):
    """implementation result -> model's encoding"""
    if res[0] == "ok":
        return ["ok"]
    return ["err", errcode(res[1])]


# ------------------------------------------------------------------ the recorder (so that cases can run in worker processes)
class Rec:
    def __init__(self):
        self.events = []

    def count(self, key, nontrivial=True, n=1):
        self.events.append(("count", repr(key), nontrivial, n))

    def dist(self, table, key):
        self.events.append(("dist", table, str(key)))

    def sample(self, x):
        self.events.append(("sample", x))

    def violation(self, what, replay, concrete=True, match_keys=None):
        self.events.append(("violation", what, replay, concrete, match_keys))

    def extra_add(self, key, n=1):
        self.events.append(("extra", key, n))

    def note(self, key, value):
        self.events.append(("note", key, value))


def apply_events(rep, events):
    for e in events:
        if e[0] == "count":
            rep.count(e[1], nontrivial=e[2], n=e[3])
        elif e[0] == "dist":
            rep.dist(e[1], e[2])
        elif e[0] == "sample":
            rep.sample(e[1])
        elif e[0] == "violation":
            rep.violation(e[1], e[2], concrete=e[3], match_keys=e[4])
        elif e[0] == "extra":
            rep.extra[e[1]] = rep.extra.get(e[1], 0) + e[2]
        elif e[0] == "note":
            rep.extra.setdefault(e[1], [])
            if len(rep.extra[e[1]]) < 8 and e[2] not in rep.extra[e[1]]:
                rep.extra[e[1]].append(e[2])


def hexouts(o):
    return {k: v.hex() for k, v in sorted(o.items())}


def short(case):
    return {"folders": [[f["chain"], [[n, len(h) // 2] for n, h in f["members"]]] for f in case["folders"]],
            "limit": case["limit"], "damage": case.get("damage")}


# ------------------------------------------------------------------ exploring one case
def sandbox_extract(arg):
    """target of run_sandboxed: extract an archive in a fresh interpreter (process-parallel runs, pre-screening)"""
    lim = arg["limit"]
    P.get_memory_limit = lambda: lim
    out = arg.get("out")
    uw = arg.get("unwritable")

    class _Fac(arch.Collect):
        def create(self, filename):
            if filename == uw:
                raise PermissionError(13, "output cannot be created (harness)", filename)
            return super().create(filename)
    fac = _Fac()
    if uw is not None and out is not None:
        os.makedirs(os.path.join(out, uw))
    try:
        if arg.get("src") == "bytesio":
            z = py7zr.SevenZipFile(io.BytesIO(open(arg["archive"], "rb").read()), "r", password=arg.get("password"))
        else:
            z = py7zr.SevenZipFile(arg["archive"], "r", password=arg.get("password"), mp=bool(arg.get("mp")))
        try:
            if out is not None:
                z.extractall(path=out)
            else:
                z.extractall(factory=fac)
            res = ["ok"]
        finally:
            z.close()
    except Exception as e:  # noqa
        res = exc_tuple(e)
    outs = {n: b.hex() for n, b in fac.as_dict().items()}
    if out is not None:
        outs = hexouts(snapshot(out))
    return {"result": res, "outs": outs}


def explore_case(case, model, rng, rec, budget, mp_runs, two_runs, workdir):
    """everything about one archive (intact or with its damage); records into rec"""
    tier_key = ("case", repr(short(case)))
    path, lay = build(case, workdir)
    nf = len(lay["folders"])
    pw = case.get("password")
    names = lay["names"]
    outn = py_outnames(names)
    onames = sorted(set(outn))
    oid = {n: i for i, n in enumerate(onames)}
    dmg = case.get("damage")
    dfolder = dmg["folder"] if dmg else None
    rec.dist("folders", nf)
    rec.dist("damage", "intact" if not dmg else "folder %d of %d (%s)" % (
        dfolder, nf, "unwritable output" if "offset" not in dmg else case["folders"][dfolder]["chain"]))

    # output names: model vs Python transcription (py7zr itself is compared through the outputs below)
    mo = [bytes(x).decode() for x in model.call("par_outnames", [n.encode() for n in names])]
    if mo != outn:
        rec.violation("output names: model %r, transcription of _extract %r" % (mo, outn),
                      {"kind": "outnames", "case": case}, concrete=False, match_keys={"kind": "outnames-model"})
        return

    # pre-screen damaged non-copy folders in a sandbox: a spinning decoder must not take the check down
    uw = unwritable_of(case)
    if dmg and uw is None and case["folders"][dfolder]["chain"] != "copy":
        pre = run_sandboxed("harness.c13:sandbox_extract", {"archive": path, "limit": case["limit"], "src": "bytesio",
                                                            "out": os.path.join(workdir, "pre")}, timeout=20, mem_mb=2048)
        shutil.rmtree(os.path.join(workdir, "pre"), ignore_errors=True)
        if pre["status"] != "ok":
            rec.dist("prescreen", pre["status"])
            rec.note("prescreen_not_ok", {"case": short(case), "status": pre["status"]})
            return   # hang / memory: property C05's business, not a scheduling matter

    # reference: the sequential path on this archive, and (damaged case) on the pristine one
    for target in ("mem", "file"):
        ref = reference(case, path, lay, workdir, target)
        if dmg:
            pcase = dict(case)
            pcase["damage"] = None
            pdir = os.path.join(workdir, "pristine")
            os.makedirs(pdir, exist_ok=True)
            ppath, play = build(pcase, pdir)
            pref = reference(pcase, ppath, play, pdir, target)
        else:
            pref = ref
        expected = {}
        members = case_members(case)
        k = 0
        for ms in members:
            for n, dta in ms:
                expected[outn[k]] = dta
                k += 1
        if pref["result"] != ["ok"] or pref["outs"] != expected:
            if pref["ambiguous"]:
                pass    # colliding output names: handled by explore_collision
            else:
                rec.violation("sequential extraction of an intact %d-folder archive: result %r, outputs differ from the "
                              "members written" % (nf, pref["result"]), {"kind": "sequential", "case": case, "target": target},
                              match_keys={"kind": "sequential-wrong", "target": target})
                return
        if dmg and ref["result"] == ["ok"]:
            if ref["outs"] == pref["outs"]:
                rec.count(tier_key + ("benign", target), nontrivial=False)
                rec.dist("damage_effect", "none (benign)")
                return
            # the member CRCs cannot all match data that differs from what was written (single flipped bit)
            rec.violation("sequential path: folder %d is damaged (outputs differ from the members written) and extractall "
                          "returned normally" % dfolder, {"kind": "sequential", "case": case, "target": target},
                          match_keys={"kind": "sequential-worker-error-lost", "target": target})
            return
        failcodes = {}
        refops = dict(pref["ops"])
        if dmg:
            rec.dist("damage_effect", ref["result"][1])
            failcodes[dfolder] = errcode(ref["result"][1])
            refops[dfolder] = ref["ops"][dfolder]
        ws = model_workers(case, lay, refops, failcodes, pref["ops"], oid)
        pre_w = [[0, oid[outn[i]]] for i in range(len(names)) if lay["empties"][i]]
        if model.call("par_disjoint", ws) != 1:
            rec.note("not_disjoint", short(case))
        # the sequential path against the model
        mt = 0 if target == "file" else 1
        mseq = model.call("par_extract", [0, mt, [], pre_w, ws, len(onames)])
        if outs_from_model(mseq[0], onames) != ref["outs"] or res_from_model(mseq[1]) != res_code(ref["result"]):
            rec.violation("sequential path: model says %r %r, py7zr %r %r" % (
                res_from_model(mseq[1]), hexouts(outs_from_model(mseq[0], onames)), ref["result"], hexouts(ref["outs"])),
                {"kind": "model-seq", "case": case, "target": target}, concrete=False,
                match_keys={"kind": "model-disagrees", "path": "sequential"})
            return
        rec.count(tier_key + ("seq", target), nontrivial=True)

        # threads under chosen interleavings
        counts = {f: len(refops[f]) for f in range(nf) if refops[f]}
        b = budget if target == "mem" else max(6, budget // 3)
        orders, exhaustive = choose_orders(counts, rng, b)
        rec.dist("interleavings", "exhaustive" if exhaustive else "sampled")
        audit_done = False
        for order in orders:
            r = extract_controlled(path, lay, case["limit"], order, target, workdir, password=pw, audit=not audit_done,
                                   unwritable=uw)
            run = r["run"]
            rp = {"kind": "threads", "case": case, "target": target, "order": order}
            rec.count(tier_key + (target, tuple(order)), nontrivial=len(set(order)) > 1)
            rec.dist("ops_per_run", len(order))
            if run.problems:
                rec.violation("scheduler could not enforce the order: %s" % "; ".join(run.problems[:3]), rp,
                              concrete=True, match_keys={"kind": "scheduler-problem"})
                return
            if not audit_done:
                audit_done = True
                bad = check_audit(r, nf, lay)
                if bad:
                    rec.violation(bad, rp, match_keys={"kind": "shared-handle"})
                    return
                rec.extra_add("audited_runs")
            # (a) every worker did what its folder does when extracted alone
            pw_ = per_worker(run.trace)
            for f in range(nf):
                if pw_.get(f, []) != refops[f]:
                    rec.violation("folder %d's worker did %r under order %r, %r when extracted sequentially" % (
                        f, summarize(pw_.get(f, [])), order, summarize(refops[f])), rp,
                        match_keys={"kind": "worker-trace-depends-on-schedule"})
                    return
            got_order = [k for k, op, _, _ in run.trace if op != "end"]
            if got_order != order:
                rec.violation("scheduler: enforced order %r, observed %r" % (order, got_order), rp, concrete=False,
                              match_keys={"kind": "scheduler-problem"})
                return
            # (b) the model, for this very interleaving
            m = model.call("par_extract", [1, mt, model_sched(run.trace), pre_w, ws, len(onames)])
            m_outs, m_res = outs_from_model(m[0], onames), res_from_model(m[1])
            if m_outs != r["outs"] or m_res != res_code(r["result"]):
                # is it a property violation on its own?
                if not dmg and (r["result"] != ["ok"] or r["outs"] != ref["outs"]):
                    rec.violation("threads, order %r: result %r outputs %r; sequential path: %r %r" % (
                        order, r["result"], hexouts(r["outs"]), ref["result"], hexouts(ref["outs"])), rp,
                        match_keys={"kind": "schedule-dependent-output", "target": target})
                elif dmg and r["result"][0] == "ok":
                    rec.violation("threads, order %r: folder %d is damaged (sequential path: %r) and extractall returned "
                                  "normally" % (order, dfolder, ref["result"]), rp,
                                  match_keys={"kind": "thread-worker-error-lost", "target": target})
                else:
                    rec.violation("threads, order %r: model says %r %r, py7zr %r %r" % (
                        order, m_res, hexouts(m_outs), r["result"], hexouts(r["outs"])), rp, concrete=False,
                        match_keys={"kind": "model-disagrees", "path": "threads"})
                return
            # (c) the property itself, independently of the model
            if not dmg:
                if r["result"] != ["ok"] or r["outs"] != ref["outs"]:
                    rec.violation("threads, order %r: outputs differ from the sequential path" % (order,), rp,
                                  match_keys={"kind": "schedule-dependent-output", "target": target})
                    return
            else:
                if r["result"][0] != "err" or r["result"][1] != ref["result"][1]:
                    rec.violation("threads, order %r: damaged folder %d: caller got %r, sequential path raises %r" % (
                        order, dfolder, r["result"], ref["result"]), rp,
                        match_keys={"kind": "thread-worker-error-lost", "target": target})
                    return
                # outputs: as the sequential path up to the damaged folder, complete after it
                want = dict(ref["outs"])
                for f in range(dfolder + 1, nf):
                    for i in lay["folders"][f]:
                        want[outn[i]] = pref["outs"][outn[i]]
                if r["outs"] != want:
                    rec.violation("threads, order %r: damaged folder %d: outputs %r, expected %r" % (
                        order, dfolder, hexouts(r["outs"]), hexouts(want)), rp,
                        match_keys={"kind": "schedule-dependent-output", "target": target, "damaged": True})
                    return
        rec.sample({"case": short(case), "target": target, "orders": len(orders), "exhaustive": exhaustive,
                    "ops": counts, "first_order": orders[0] if orders else []})

        # processes (free running, sandboxed)
        if mp_runs > 0 and not (uw is not None and target == "file"):
            # (an unwritable FILE is a directory in the way: the parent's utime/chmod pass succeeds on it, which the
            #  model's post-pass does not describe; the factory variant has no post-pass)
            explore_mp(case, path, lay, target, ref, pref, ws, pre_w, onames, outn, model, rec, workdir, mp_runs)

        # two objects at once
        if two_runs > 0 and target in ("mem", "file"):
            explore_two(case, path, lay, target, ref, pref, refops, ws, onames, outn, model, rng, rec, workdir, two_runs)


def summarize(ops):
    return [(op, name, len(d)) for op, name, d in ops]


def check_audit(r, nf, lay):
    run, au = r["run"], r["audit"]
    if not all(run.by_name):
        return "a folder worker was started with a shared handle instead of the archive's name"
    if au is None:
        return None
    ev = au["events"]
    for key in run.started:
        n = ev.count(key)
        if n != 1:
            return "folder worker %d opened the archive %d times itself (expected exactly once: its own handle)" % (key, n)
    return None


def explore_mp(case, path, lay, target, ref, pref, ws, pre_w, onames, outn, model, rec, workdir, runs):
    dmg = case.get("damage")
    nf = len(lay["folders"])
    mt = 0 if target == "file" else 1
    for i in range(runs):
        out = os.path.join(workdir, "mpout")
        shutil.rmtree(out, ignore_errors=True)
        arg = {"archive": path, "limit": case["limit"], "mp": True, "out": out if target == "file" else None,
               "unwritable": unwritable_of(case)}
        sb = run_sandboxed("harness.c13:sandbox_extract", arg, timeout=120, mem_mb=3000)
        rec.count(("mp", repr(short(case)), target, i), nontrivial=True)
        rec.dist("mp_runs", target + ("/damaged" if dmg else "/intact"))
        rp = {"kind": "mp", "case": case, "target": target}
        if sb["status"] != "ok":
            rec.violation("mp=True extraction in the sandbox: %r" % (sb,), rp, match_keys={"kind": "mp-sandbox", "status": sb["status"]})
            return
        res = sb["value"]["result"]
        outs = {k: bytes.fromhex(v) for k, v in (sb["value"]["outs"] or {}).items()}
        # the model of the process path: any complete schedule (the outputs do not depend on it); mode 2 is the code
        # as it stands (thread queue copied into the children), mode 3 the code after the proposed repair
        sched = model.call("par_seq_sched", ws)
        obs = (outs, res_code(res))
        mm = {}
        for md in (2, 3):
            m = model.call("par_extract", [md, mt, sched, pre_w, ws, len(onames)])
            mm[md] = (outs_from_model(m[0], onames), res_from_model(m[1]))
        prop_ok = (res[:2] == ref["result"][:2]) if dmg else (res == ["ok"] and outs == ref["outs"])
        if prop_ok and obs == mm[3]:
            rec.dist("mp_behaviour", "as threads" if mm[2] != mm[3] else "as threads (= as the defective model here)")
            continue
        agrees = obs == mm[2]
        rec.dist("mp_behaviour", "errors/products lost" if agrees else "neither model")
        if dmg and (res[0] == "ok" or res[1] != ref["result"][1]):
            vis = "none" if res[0] == "ok" else "post-pass-error"
            rec.violation("mp=True, %s target: folder %d of %d is damaged (threads and the sequential path raise %s); "
                          "the caller got %r -- the children's exception queue is a copy" % (
                              target, dmg["folder"], nf, ref["result"][1], res), rp,
                          match_keys={"kind": "mp-worker-error-lost", "visible": vis, "target": target,
                                      "model_agrees": agrees})
        elif not dmg and target == "mem" and res == ["ok"] and outs == {} and ref["outs"]:
            rec.violation("mp=True with a WriterFactory target: extractall returns normally and the factory has "
                          "received none of the %d members (the products are created in the child processes)" %
                          len(ref["outs"]), rp, match_keys={"kind": "mp-factory-outputs-lost", "model_agrees": agrees})
        elif not dmg and (res != ["ok"] or outs != ref["outs"]):
            rec.violation("mp=True, intact archive: result %r outputs %r; sequential path %r" % (
                res, hexouts(outs), hexouts(ref["outs"])), rp,
                match_keys={"kind": "schedule-dependent-output", "target": target, "path": "processes"})
        if not agrees:
            rec.violation("mp=True%s: py7zr %r %r; model of the code as it is: %r %r; model after the repair: %r %r" % (
                ", damaged" if dmg else "", res, hexouts(outs), mm[2][1], hexouts(mm[2][0]), mm[3][1], hexouts(mm[3][0])),
                rp, concrete=False, match_keys={"kind": "model-disagrees", "path": "processes"})
            return


def explore_two(case, path, lay, target, ref, pref, refops, ws, onames, outn, model, rng, rec, workdir, runs):
    """two SevenZipFile objects on the same archive file, extracting at once into separate destinations"""
    dmg = case.get("damage")
    nf = len(lay["folders"])
    counts = {}
    for obj in range(2):
        for f in range(nf):
            if refops[f]:
                counts[obj * nf + f] = len(refops[f])
    orders, _ = choose_orders(counts, rng, runs)
    n = len(onames)
    wsb = [[[a[0], a[1] + n] + a[2:] if a[0] in (0, 1) else a for a in w] for w in ws]
    audit_done = False
    for order in orders[:runs]:
        r = extract_controlled(path, lay, case["limit"], order, target, workdir, two=True, audit=not audit_done,
                               unwritable=unwritable_of(case))
        run = r["run"]
        rp = {"kind": "two", "case": case, "target": target, "order": order}
        rec.count(("two", repr(short(case)), target, tuple(order)), nontrivial=True)
        rec.dist("two_object_runs", target + ("/damaged" if dmg else "/intact"))
        if run.problems:
            rec.violation("two objects: scheduler could not enforce the order: %s" % "; ".join(run.problems[:3]), rp,
                          match_keys={"kind": "scheduler-problem"})
            return
        if not audit_done:
            audit_done = True
            bad = check_audit(r, nf, lay)
            if bad:
                rec.violation("two objects: " + bad, rp, match_keys={"kind": "shared-handle"})
                return
        pw_ = per_worker(run.trace)
        for obj in range(2):
            for f in range(nf):
                if pw_.get(obj * nf + f, []) != refops[f]:
                    rec.violation("two objects at once: object %d folder %d's worker did %r, alone %r" % (
                        obj, f, summarize(pw_.get(obj * nf + f, [])), summarize(refops[f])), rp,
                        match_keys={"kind": "objects-interfere"})
                    return
        m = model.call("par_two", [model_sched(run.trace), ws, wsb, 2 * n])
        allm = m[0]
        for obj in range(2):
            m_outs = outs_from_model(allm[obj * n:(obj + 1) * n], onames)
            m_res = res_from_model(m[1 + obj])
            got, res = r["outs"][obj], r["result"][obj]
            # expected without the model: as one object extracting alone through threads
            if dmg:
                want = dict(ref["outs"])
                for f in range(dmg["folder"] + 1, nf):
                    for i in lay["folders"][f]:
                        want[outn[i]] = pref["outs"][outn[i]]
                ok = (res[0] == "err" and res[1] == ref["result"][1] and got == want)
            else:
                ok = (res == ["ok"] and got == ref["outs"])
            if not ok:
                rec.violation("two objects at once, order %r: object %d got %r %r; alone: %r" % (
                    order, obj, res, hexouts(got), ref["result"]), rp, match_keys={"kind": "objects-interfere"})
                return
            # the model's channel projection does not see the post-pass; compare results only up to the worker error
            if m_outs != got or (m_res != res_code(res)):
                rec.violation("two objects at once, order %r: model says object %d %r %r, py7zr %r %r" % (
                    order, obj, m_res, hexouts(m_outs), res, hexouts(got)), rp, concrete=False,
                    match_keys={"kind": "model-disagrees", "path": "two-objects"})
                return


# ------------------------------------------------------------------ special cases
def explore_collision(model, rec, workdir):
    """members a_0 | a | a (and a | a | a_0 | a) in separate folders: before commit 5112351 the second `a` was
    extracted as a_0, the first member's output, by another worker (the witness of the former
    output-path-collision-race).  Now every member has its own output and all paths must agree under every order."""
    A, B, C, D = b"A" * 20, b"bbbb", b"cc", b"dddddd"
    for names, datas in ((["a_0", "a", "a"], [A, B, C]), (["a", "a", "a_0", "a"], [B, C, A, D])):
        case = {"folders": [{"chain": "copy", "members": [[n, d.hex()]]} for n, d in zip(names, datas)], "limit": 8}
        sub = os.path.join(workdir, "c%d" % len(names))
        os.makedirs(sub)
        path, lay = build(case, sub)
        outn = py_outnames(lay["names"])
        mo = [bytes(x).decode() for x in model.call("par_outnames", [n.encode() for n in lay["names"]])]
        rec.count(("collision", "names", tuple(outn)), nontrivial=True)
        if mo != outn:
            rec.violation("output names of %r: model %r, transcription %r" % (names, mo, outn), {"kind": "outnames", "case": case},
                          concrete=False, match_keys={"kind": "outnames-model"})
            return
        want = dict(zip(outn, datas))
        onames = sorted(set(outn))
        oid = {n: i for i, n in enumerate(onames)}
        nf = len(names)
        for target in ("file", "mem"):
            ref = reference(case, path, lay, sub, target)
            ws = model_workers(case, lay, ref["ops"], {}, ref["ops"], oid)
            counts = {f: len(ref["ops"][f]) for f in range(nf)}
            orders = [[k for k in sorted(counts) for _ in range(counts[k])], [k for k in reversed(sorted(counts)) for _ in range(counts[k])]]
            rr, rem = [], dict(counts)
            while any(rem.values()):
                for k in (0, nf - 1) + tuple(range(1, nf - 1)):
                    if rem[k]:
                        rr.append(k)
                        rem[k] -= 1
            orders.append(rr)
            if len(set(outn)) != len(outn) or ref["result"] != ["ok"] or ref["outs"] != want or model.call("par_disjoint", ws) != 1:
                rec.violation("members named %r in separate folders: output names %r, sequential path %r %r" % (
                    names, outn, ref["result"], hexouts(ref["outs"])), {"kind": "sequential", "case": case, "target": target},
                    match_keys={"kind": "output-path-collision-race", "path": "sequential"})
                return
            for order in orders:
                r = extract_controlled(path, lay, case["limit"], order, target, sub)
                rec.count(("collision", tuple(names), target, tuple(order)), nontrivial=True)
                rp = {"kind": "threads", "case": case, "target": target, "order": order}
                if r["run"].problems:
                    rec.violation("colliding-names case: scheduler: %s" % r["run"].problems[:2], rp,
                                  match_keys={"kind": "scheduler-problem"})
                    return
                if r["result"] != ["ok"] or r["outs"] != want:
                    rec.violation("members named %r in separate folders, order %r: threads leave %r %r, the sequential path %r" % (
                        names, order, r["result"], hexouts(r["outs"]), hexouts(ref["outs"])), rp,
                        match_keys={"kind": "output-path-collision-race"})
                    return
                m = model.call("par_extract", [1, 0 if target == "file" else 1, model_sched(r["run"].trace), [], ws, len(onames)])
                if outs_from_model(m[0], onames) != r["outs"] or res_from_model(m[1]) != ["ok"]:
                    rec.violation("colliding-names case, order %r: model says %r, py7zr %r" % (
                        order, hexouts(outs_from_model(m[0], onames)), hexouts(r["outs"])), rp, concrete=False,
                        match_keys={"kind": "model-disagrees", "path": "collision"})
                    return
    # the model fact kept as C13_disjointness_needed: two workers on one output ARE schedule dependent
    ws = [[[0, 0], [1, 0, [65, 65, 65]]], [[0, 0], [1, 0, [99]]]]
    got = [model.call("par_run", [o, ws, 1])[0] for o in ([0, 0, 1, 1], [1, 1, 0, 0], [0, 1, 0, 1])]
    if model.call("par_disjoint", ws) != 0 or got != [[[[99]]], [[[65, 65, 65]]], [[[99, 65, 65]]]]:
        rec.violation("model: shared-output witness computes %r" % (got,), {"kind": "collision"}, concrete=False,
                      match_keys={"kind": "model-disagrees", "path": "collision"})


def explore_two_damaged(model, rec, workdir):
    """outside the quantifier (two damaged folders): which error is raised depends on the schedule; recorded"""
    case = {"folders": [{"chain": "copy", "members": [["x", (b"X" * 12).hex()]]},
                        {"chain": "lzma2", "members": [["y", (b"abcdefgh" * 40).hex()]]}], "limit": 64,
            "damage": [{"folder": 0, "offset": 3, "xor": 1}, {"folder": 1, "offset": 1, "xor": 0x40}]}
    path, lay = build(case, workdir)
    got = {}
    for order in ([0, 0, 1, 1, 1, 1, 1, 1, 1], [1, 1, 1, 1, 1, 1, 1, 0, 0]):
        r = extract_controlled(path, lay, case["limit"], order, "mem", workdir, timeout=3.0)
        got[tuple(order[:2])] = r["result"][:2]
        rec.count(("two-damaged", tuple(order)), nontrivial=True)
    ref = extract_controlled(path, lay, case["limit"], [], "mem", workdir, src="bytesio")
    rec.note("two_damaged_folders_error_identity", {"first folder first": got.get((0, 0)), "second folder first": got.get((1, 1)),
                                                    "sequential": ref["result"][:2]})
    for v in got.values():
        if v[0] != "err":
            rec.violation("two damaged folders: the caller got %r" % (v,), {"kind": "two-damaged", "case": case},
                          match_keys={"kind": "thread-worker-error-lost", "target": "mem"})


def explore_modes(model, rec, workdir):
    """which path is taken: py7zr (threads/processes started?) against select_mode"""
    base = {"folders": [{"chain": "copy", "members": [["p", (b"P" * 9).hex()]]}, {"chain": "copy", "members": [["q", (b"Q" * 5).hex()]]}],
            "limit": 64}
    single = {"folders": [{"chain": "copy", "members": [["p", (b"P" * 9).hex()], ["q", (b"Q" * 5).hex()]]}], "limit": 64}
    enc = {"folders": [{"chain": "copy+aes", "members": [["p", (b"P" * 9).hex()]]},
                       {"chain": "copy+aes", "members": [["q", (b"Q" * 5).hex()]]}], "limit": 64, "password": "secret"}
    for label, case, src, pw_given in (("two folders by name", base, "name", False), ("two folders from BytesIO", base, "bytesio", False),
                                       ("two folders from a file object", base, "fileobj", False),
                                       ("one folder by name", single, "name", False),
                                       ("two encrypted folders by name", enc, "name", True)):
        d = os.path.join(workdir, "modes")
        shutil.rmtree(d, ignore_errors=True)
        os.makedirs(d)
        path, lay = build(case, d)
        nf = len(lay["folders"])
        counts = {f: 2 for f in range(nf)}
        order = [k for k in sorted(counts) for _ in range(2)]
        r = extract_controlled(path, lay, case["limit"], order, "mem", d, password=case.get("password"), src=src, timeout=3.0)
        started = len(r["run"].started)
        want = model.call("par_select_mode", [0, 1 if pw_given else 0, 1 if src == "name" else 0, nf])
        rec.count(("mode", label), nontrivial=True)
        rec.dist("path_taken", "%s: %s" % (label, "threads" if started else "caller"))
        if (started > 0) != (want == 1) or (started and started != nf) or r["result"] != ["ok"]:
            rec.violation("%s: py7zr started %d worker threads (result %r), model's select_mode says %s" % (
                label, started, r["result"], ["sequential", "threads", "processes"][want]),
                {"kind": "modes", "label": label}, concrete=False, match_keys={"kind": "model-disagrees", "path": "select_mode"})
    for mp, pw_, byn, nf in itertools.product((0, 1), (0, 1), (0, 1), (0, 1, 2, 3)):
        want = 0 if nf <= 1 or pw_ or not byn else (2 if mp else 1)
        if model.call("par_select_mode", [mp, pw_, byn, nf]) != want:
            rec.violation("select_mode(%d,%d,%d,%d) != %d" % (mp, pw_, byn, nf, want), {"kind": "modes"}, concrete=False,
                          match_keys={"kind": "model-disagrees", "path": "select_mode"})


# ------------------------------------------------------------------ file-system call granularity
_FS = None
_FS_TL = threading.local()
_FS_PATH_METHODS = ["exists", "is_dir", "is_file", "is_symlink", "mkdir", "open", "unlink", "symlink_to", "touch", "rmdir", "rename",
                    "replace", "write_bytes"]
_FS_OS_FUNCS = [(os, "mkdir"), (os, "makedirs"), (os, "unlink"), (os, "remove"), (os, "symlink"), (os, "rmdir"), (os, "rename"),
                (os.path, "exists"), (os.path, "isdir"), (os.path, "isfile"), (os.path, "lexists")]


class FsRun:
    """A second scheduler, one level below the output operations: every file-system call a worker thread makes on a path
    under the destination (pathlib exists/is_dir/mkdir/open/unlink/..., os.mkdir/os.path.exists/...) is one step.  Only one
    worker runs at a time and it is stopped before each of its steps; `policy` decides who takes the next step, so the
    windows between a worker's test of the directory tree and its next change of it are all opened deliberately."""

    def __init__(self, policy, rng, root, expected, timeout=5.0):
        self.cv = threading.Condition()
        self.policy, self.rng, self.root, self.timeout = policy, rng, root, timeout
        self.expected = expected      # workers py7zr is going to start (one per folder): no step before all of them exist
        self.state = {}
        self.granted = None
        self.free = False
        self.trace = []
        self.problems = []
        self.threads = []
        self.round = []

    def register(self, thread):
        key = len(self.state)
        self.state[key] = "free"
        self.threads.append(thread)
        return key

    def _maybe_grant(self):
        if self.granted is not None or len(self.state) < self.expected or any(v in ("free", "running") for v in self.state.values()):
            return
        waiting = sorted(k for k, v in self.state.items() if v == "waiting")
        if not waiting:
            return
        if self.policy == "random":
            k = self.rng.choice(waiting)
        elif self.policy in ("serial", "serial-rev"):
            k = waiting[0] if self.policy == "serial" else waiting[-1]
        else:       # lockstep: everybody takes one step per round, in key order (or reversed)
            self.round = [x for x in self.round if x in waiting]
            if not self.round:
                self.round = list(waiting if self.policy == "lockstep" else reversed(waiting))
            k = self.round.pop(0)
        self.granted = k
        self.cv.notify_all()

    def step(self, key, op, path):
        with self.cv:
            self.state[key] = "waiting"
            while not self.free:
                self._maybe_grant()
                if self.granted == key:
                    break
                if not self.cv.wait(self.timeout):
                    self.free = True
                    self.problems.append("file-system scheduler timeout: worker %d waiting for %s" % (key, op))
                    self.cv.notify_all()
                    break
            self.granted = None
            self.state[key] = "running"
            self.trace.append((key, op, os.path.relpath(path, self.root)))

    def finish(self, key):
        with self.cv:
            self.state[key] = "done"
            self._maybe_grant()
            self.cv.notify_all()

    def release_all(self):
        with self.cv:
            self.free = True
            self.cv.notify_all()


class FsThread(threading.Thread):
    def __init__(self, *a, **kw):
        super().__init__(*a, **kw)
        self.daemon = True
        self.fs_run = _FS
        self.fs_key = self.fs_run.register(self) if self.fs_run is not None else None

    def run(self):
        try:
            super().run()
        finally:
            if self.fs_run is not None:
                self.fs_run.finish(self.fs_key)


def _fs_wrap(orig, name):
    def wrapper(*a, **kw):
        c = _FS
        t = threading.current_thread()
        if c is not None and a and getattr(t, "fs_run", None) is c and not getattr(_FS_TL, "depth", 0):
            try:
                sp = os.fspath(a[0])
            except TypeError:
                sp = None
            if isinstance(sp, str) and (sp == c.root or sp.startswith(c.root + os.sep)):
                c.step(t.fs_key, name, sp)
                _FS_TL.depth = 1
                try:
                    return orig(*a, **kw)
                finally:
                    _FS_TL.depth = 0
        return orig(*a, **kw)
    return wrapper


class FsPatched:
    def __init__(self, run, limit):
        self.run, self.limit = run, limit

    def __enter__(self):
        global _FS
        self.saved = [(P, "Thread", P.Thread), (P, "get_memory_limit", P.get_memory_limit)]
        P.Thread = FsThread
        lim = self.limit
        P.get_memory_limit = lambda: lim
        for m in _FS_PATH_METHODS:
            if hasattr(pathlib.Path, m):
                self.saved.append((pathlib.Path, m, getattr(pathlib.Path, m)))
                setattr(pathlib.Path, m, _fs_wrap(getattr(pathlib.Path, m), m))
        for mod, m in _FS_OS_FUNCS:
            self.saved.append((mod, m, getattr(mod, m)))
            setattr(mod, m, _fs_wrap(getattr(mod, m), "os." + m))
        _FS = self.run
        return self

    def __exit__(self, *a):
        global _FS
        self.run.release_all()
        for t in self.run.threads:
            t.join(20)
            if t.is_alive():
                self.run.problems.append("a worker thread is still alive after extractall returned and 20 s")
        _FS = None
        for obj, m, v in reversed(self.saved):
            setattr(obj, m, v)
        return False


def fs_cases(rng, n_random):
    def fo(chain, *ms):
        return {"chain": chain, "members": [[n, d.hex()] for n, d in ms]}
    cases = [
        {"folders": [fo("copy", ("d/a", b"A" * 9)), fo("copy", ("d/b", b"B" * 7))], "limit": 64},
        {"folders": [fo("copy", ("d/e/a", b"A" * 20)), fo("lzma2", ("d/e/b", b"B" * 33)), fo("copy", ("d/c", b"C" * 5))], "limit": 16},
        {"folders": [fo("lzma2", ("p/q/r/x", b"xy" * 30), ("p/q/r/x2", b"")), fo("lzma2", ("p/q/y", b"Y" * 40), ("p/z", b"Z"))], "limit": 64},
        {"folders": [fo("copy", ("top", b"T"), ("s/t/u", b"U" * 11)), fo("copy", ("s/t/v", b"V" * 3), ("s/w", b"W" * 8))], "limit": 8},
    ]
    dirs = ["m", "m/n", "m/n/o", "k", "k/l"]
    for _ in range(n_random):
        nf = rng.choice([2, 2, 3, 4])
        used, folders = set(), []
        for f in range(nf):
            ms = []
            for _ in range(rng.choice([1, 1, 2])):
                nm = "%s/f%d" % (rng.choice(dirs), len(used))
                used.add(nm)
                ms.append((nm, gen_data(rng, rng.choice([1, 7, 30]))))
            folders.append(fo(rng.choice(["copy", "copy", "lzma2"]), *ms))
        cases.append({"folders": folders, "limit": rng.choice([8, 64])})
    return cases


def fs_extract(path, case, policy, rng, workdir):
    out = os.path.join(workdir, "fsout")
    shutil.rmtree(out, ignore_errors=True)
    run = FsRun(policy, rng, out, len(case["folders"]))
    with FsPatched(run, case["limit"]):
        try:
            with py7zr.SevenZipFile(path, "r") as z:
                z.extractall(path=out)
            res = ["ok"]
        except Exception as e:  # noqa
            res = exc_tuple(e)
    return res, snapshot(out), run


def explore_fs_races(model, rec, workdir, n_random=4, n_policies=4, seed=0):
    """thread-parallel extraction to a directory, interleaved at single file-system calls: members of different folders
    share parent directories that are not in the archive and do not exist yet"""
    rng = random.Random(seed)
    for ci, case in enumerate(fs_cases(rng, n_random)):
        d = os.path.join(workdir, "fs%d" % ci)
        os.makedirs(d)
        path, lay = build(case, d)
        seqout = os.path.join(d, "seq")
        with py7zr.SevenZipFile(io.BytesIO(open(path, "rb").read()), "r") as z:
            z.extractall(path=seqout)
        want = snapshot(seqout)
        policies = ["lockstep", "lockstep-rev", "serial", "serial-rev"] + ["random"] * n_policies
        for pi, pol in enumerate(policies):
            prng = random.Random((seed, ci, pi).__hash__())
            res, outs, run = fs_extract(path, case, pol, prng, d)
            workers = len(run.state)
            rec.count(("fs", ci, pi, pol), nontrivial=workers >= 2 and len(run.trace) >= 2 * workers)
            rec.dist("fs_policy", pol)
            rec.extra_add("fs_steps", len(run.trace))
            if run.problems:
                rec.violation("file-system interleaving run: %s" % run.problems[0],
                              {"kind": "fs-race", "case": case, "policy": pol, "policy_index": pi, "seed": seed, "case_index": ci,
                               "problem": run.problems[0]}, concrete=False, match_keys={"kind": "harness-scheduler"})
                continue
            if res != ["ok"] or outs != want:
                rec.violation("parallel extraction of an intact archive under the file-system interleaving %s gives %s, %d of %d files "
                              "as the sequential path (steps: %s)" % (pol, res, sum(1 for k in want if outs.get(k) == want[k]), len(want),
                                                                      " ".join("%d:%s(%s)" % t for t in run.trace[:12])),
                              {"kind": "fs-race", "case": case, "policy": pol, "policy_index": pi, "seed": seed, "case_index": ci,
                               "trace": [list(t) for t in run.trace]},
                              match_keys={"kind": "fs-race"})
                return


def explore_selective(model, rec, workdir, n_random=6, seed=0):
    """selective extraction (extract(targets=...)) of a multi-folder archive: opened by name (one thread per folder) it must
    deliver what the sequential path (archive opened from a stream) delivers, for target sets that pick any members of any
    folders -- in particular members that are not the first of their folder"""
    rng = random.Random(seed)

    def fo(chain, *ms):
        return {"chain": chain, "members": [[n, d.hex()] for n, d in ms]}
    cases = [{"folders": [fo("copy", ("a0", b"A" * 9), ("a1", b"B" * 7), ("a2", b"C" * 5)), fo("lzma2", ("b0", b"D" * 30), ("b1", b"E" * 11))],
              "limit": 64}]
    for _ in range(n_random):
        folders, k = [], 0
        for f in range(rng.choice([2, 3, 4])):
            ms = []
            for _m in range(rng.choice([1, 2, 3])):
                ms.append(("d%d/m%d" % (f % 2, k), gen_data(rng, rng.choice([1, 9, 40]))))
                k += 1
            folders.append(fo(rng.choice(["copy", "copy", "lzma2"]), *ms))
        cases.append({"folders": folders, "limit": rng.choice([8, 64])})
    for ci, case in enumerate(cases):
        d = os.path.join(workdir, "sel%d" % ci)
        os.makedirs(d)
        path, lay = build(case, d)
        names = [n for f in case["folders"] for n, _ in f["members"]]
        per_folder = [[n for n, _ in f["members"]] for f in case["folders"]]
        tsets = [[ms[-1] for ms in per_folder], [ms[len(ms) // 2] for ms in per_folder[1:]], [per_folder[0][-1]], names[1::2]]
        tsets += [rng.sample(names, rng.randrange(1, len(names) + 1)) for _ in range(3)]
        for ti, targets in enumerate(tsets):
            outs = {}
            for how in ("stream", "name"):
                out = os.path.join(d, "out_%s_%d" % (how, ti))
                try:
                    src = io.BytesIO(open(path, "rb").read()) if how == "stream" else path
                    with py7zr.SevenZipFile(src, "r") as z:
                        z.extract(path=out, targets=list(targets))
                    outs[how] = (["ok"], snapshot(out))
                except Exception as e:  # noqa
                    outs[how] = (exc_tuple(e), snapshot(out))
            rec.count(("selective", ci, ti, tuple(targets)), nontrivial=len(case["folders"]) >= 2)
            rec.dist("selective_targets", "%d of %d" % (len(targets), len(names)))
            want = {n: bytes.fromhex(h) for f in case["folders"] for n, h in f["members"] if n in targets}
            if outs["name"] != outs["stream"] or outs["stream"] != (["ok"], want):
                rec.violation("extract(targets=%r) of a %d-folder archive: opened by name (one thread per folder) gives %s, opened from a "
                              "stream %s, selected members are %r" % (
                                  targets, len(case["folders"]), (outs["name"][0], sorted(outs["name"][1])),
                                  (outs["stream"][0], sorted(outs["stream"][1])), sorted(want)),
                              {"kind": "selective", "case": case, "targets": list(targets)}, match_keys={"kind": "selective-parallel"})
                return


# ------------------------------------------------------------------ case generation
def gen_data(rng, n):
    t = rng.choice(["text", "period", "random"])
    return arch.pattern_bytes(rng, n, t)


SHAPES = {"late_multi": False, "late_empty": False}


def probe_shapes(rec):
    """Two shapes of append-built archives were unreadable on the original tree because of defects of the writer /
    reader that have nothing to do with scheduling (sub-stream sizes written at wrong indices when >= 2 members are
    appended to an archive whose folders all have one member; member ids mis-numbered after an empty-stream entry
    in a later folder).  Use a shape only if the INTACT archive reads back sequentially on this tree."""
    probes = {
        "late_multi": ([("p0", b"abc")], [([("p1", b"A" * 8), ("p2", b"B" * 40)], "copy")]),
        "late_empty": ([("p0", b"abc")], [([("p1", b"A" * 8), ("e", b""), ("p2", b"B" * 5)], "copy")]),
    }
    for k, (first, sess) in probes.items():
        try:
            data = arch.make_archive(first, "copy", sessions=sess)
            r = arch.read_archive(data)
            want = first + sess[0][0]
            SHAPES[k] = (r[0] == "ok" and sorted(r[2]) == sorted(want))
        except Exception:  # noqa
            SHAPES[k] = False
        rec.note("shape_usable", {k: SHAPES[k]})


def gen_case(rng, nf, maxm, sizes, chains, limit, first_empty=False):
    """an archive of nf folders (= nf write/append sessions) of 1..maxm members (see probe_shapes)"""
    cnts = [rng.randint(1, maxm) for _ in range(nf)]
    first_multi = next((i for i, c in enumerate(cnts) if c > 1), None)
    equal = None
    if not SHAPES["late_multi"]:
        if first_multi is not None and first_multi >= 2:
            cnts[0] = max(2, cnts[0])
        elif first_multi == 1:
            equal = 1
    folders = []
    cnt = 0
    for f in range(nf):
        ms = []
        n_eq = rng.choice(sizes)
        for _ in range(cnts[f]):
            n = n_eq if equal == f else rng.choice(sizes)
            ms.append(["m%d_%d.bin" % (f, cnt), gen_data(rng, n).hex()])
            cnt += 1
        if first_empty and (f == 0 or (SHAPES["late_empty"] and rng.random() < 0.5)):
            ms.insert(rng.randrange(len(ms) + 1), ["empty%d.txt" % f, ""])
        folders.append({"chain": rng.choice(chains), "members": ms})
    return {"folders": folders, "limit": limit}


def damages(case, lay_pp, rng, per_folder=1):
    """one damaged folder at each position"""
    out = []
    for f in range(len(case["folders"])):
        size = lay_pp[f + 1] - lay_pp[f]
        for _ in range(per_folder):
            c = dict(case)
            c["damage"] = {"folder": f, "offset": rng.randrange(size), "xor": 1 << rng.randrange(8)}
            out.append(c)
    # an output that cannot be written, in a folder chosen at random
    f = rng.randrange(len(case["folders"]))
    cands = [n for n, h in case["folders"][f]["members"] if h]
    if cands:
        c = dict(case)
        c["damage"] = {"folder": f, "unwritable": rng.choice(cands)}
        out.append(c)
    return out


def plan(rng, tier):
    """list of (case, budget, mp_runs, two_runs)"""
    jobs = []
    quick = tier == "quick"
    # exhaustive small shapes: 2 folders x <= 2 members x few chunks
    small = [
        {"folders": [{"chain": "copy", "members": [["a.bin", gen_data(rng, 9).hex()]]},
                     {"chain": "copy", "members": [["b.bin", gen_data(rng, 16).hex()]]}], "limit": 8},
        {"folders": [{"chain": "copy", "members": [["a.bin", gen_data(rng, 5).hex()], ["a2.bin", gen_data(rng, 3).hex()]]},
                     {"chain": "lzma2", "members": [["b.bin", gen_data(rng, 12).hex()]]}], "limit": 8},
        {"folders": [{"chain": "lzma2", "members": [["a.bin", gen_data(rng, 20).hex()], ["a2.bin", gen_data(rng, 7).hex()]]},
                     {"chain": "copy", "members": [["b.bin", gen_data(rng, 4).hex()], ["b2.bin", gen_data(rng, 11).hex()]]}],
         "limit": 16},
        {"folders": [{"chain": "copy", "members": [["a.bin", gen_data(rng, 6).hex()], ["a2.bin", gen_data(rng, 13).hex()],
                                                    ["a3.bin", gen_data(rng, 2).hex()]]},
                     {"chain": "lzma2", "members": [["b.bin", gen_data(rng, 20).hex()], ["b2.bin", gen_data(rng, 1).hex()],
                                                     ["b3.bin", gen_data(rng, 9).hex()]]}], "limit": 64},
    ]
    for i, c in enumerate(small):
        jobs.append((c, 1000 if quick else 20000, 1 if i == 0 else 0, 4 if i == 0 else 0))
    chains_q = ["copy", "lzma2"]
    chains_t = ["copy", "lzma2", "bzip2", "deflate", "zstd"]
    shapes = [(2, 3), (3, 2), (3, 3), (4, 1), (4, 3), (2, 2), (3, 3), (4, 2)] if quick else [(nf, mm) for nf in (2, 3, 4) for mm in (1, 2, 3)] * 16
    for i, (nf, maxm) in enumerate(shapes):
        c = gen_case(rng, nf, maxm, [1, 7, 8, 9, 17, 24, 40] if quick else [1, 7, 8, 9, 17, 24, 40, 100, 300],
                     chains_q if quick else chains_t, rng.choice([8, 16, 64]), first_empty=(i % 3 == 2))
        jobs.append((c, 60 if quick else 400, 1 if (i == 1 or not quick and i % 6 == 0) else 0,
                     6 if i in (0, 3, 6) or not quick else 0))
    return jobs


def run_job(args):
    """one intact case and its damaged variants (runs in a worker process in the thorough tier)"""
    job, seed, tier = args
    case, budget, mp_runs, two_runs = job
    import vlib
    rec = Rec()
    rng = random.Random(seed)
    model = vlib.Model()
    wd = tempfile.mkdtemp(prefix="c13_")
    try:
        explore_case(case, model, rng, rec, budget, mp_runs, two_runs, wd)
        path, lay = build(case, wd)
        per = 1 if tier == "quick" else 2
        dl = damages(case, lay["pp"], rng, per_folder=per)
        for i, dc in enumerate(dl):
            sub = os.path.join(wd, "d%d" % i)
            os.makedirs(sub)
            explore_case(dc, model, rng, rec, max(8, budget // 8), 1 if mp_runs or (tier != "quick" and i == 0) else 0,
                         2 if two_runs and i == 0 else 0, sub)
            shutil.rmtree(sub, ignore_errors=True)
    except Exception as e:  # noqa
        rec.violation("exploring %r raised %s: %s" % (short(case), type(e).__name__, e),
                      {"kind": "exception", "case": case, "trace": traceback.format_exc()[-1500:]}, concrete=False,
                      match_keys={"kind": "harness-exception"})
    finally:
        model.close()
        shutil.rmtree(wd, ignore_errors=True)
    return rec.events


def run(ctx):
    rep, tier = ctx["rep"], ctx["tier"]
    rng = random.Random(ctx["seed"])
    rep.cov["rule"] = ("a case = (archive, damage, target, enforced order of worker turns); non-trivial = at least two workers "
                       "take turns; archives of 2..4 folders x 1..3 members x 1..3 chunks per member (memory limit patched to "
                       "8/16/64), chains copy/lzma2 (+bzip2/deflate/zstd thorough); all interleavings when there are few, "
                       "else sequential/reversed/round-robin/random; damage: one flipped bit in each folder's packed stream")
    model = ctx["model"]
    if model is None:
        return
    prec = Rec()
    probe_shapes(prec)
    apply_events(rep, prec.events)
    jobs = plan(rng, tier)
    seeds = [rng.getrandbits(32) for _ in jobs]
    t0 = time.time()
    if tier == "quick":
        for job, s in zip(jobs, seeds):
            apply_events(rep, run_job((job, s, tier)))
            if len(rep.violations) > 6:
                break
    else:
        import multiprocessing
        mpctx = multiprocessing.get_context("fork")
        with mpctx.Pool(min(14, os.cpu_count() or 4)) as pool:
            for ev in pool.imap_unordered(run_job, [(j, s, tier) for j, s in zip(jobs, seeds)]):
                apply_events(rep, ev)
    wd = tempfile.mkdtemp(prefix="c13s_")
    try:
        rec = Rec()
        fs_part = lambda m, r, w: explore_fs_races(m, r, w, n_random=4 if tier == "quick" else 40,  # noqa
                                                   n_policies=4 if tier == "quick" else 24, seed=ctx["seed"])
        fs_part.__name__ = "explore_fs_races"
        sel_part = lambda m, r, w: explore_selective(m, r, w, n_random=6 if tier == "quick" else 80, seed=ctx["seed"])  # noqa
        sel_part.__name__ = "explore_selective"
        for part in (explore_collision, explore_two_damaged, explore_modes, fs_part, sel_part):
            sub = os.path.join(wd, part.__name__)
            os.makedirs(sub)
            try:
                part(model, rec, sub)
            except Exception as e:  # noqa
                rec.violation("%s raised %s: %s" % (part.__name__, type(e).__name__, e),
                              {"kind": "exception", "part": part.__name__, "trace": traceback.format_exc()[-1500:]},
                              concrete=False, match_keys={"kind": "harness-exception"})
        apply_events(rep, rec.events)
    finally:
        shutil.rmtree(wd, ignore_errors=True)
    rep.extra["exploration_s"] = round(time.time() - t0, 1)


# ------------------------------------------------------------------ replay
def replay(d):
    import vlib
    r = d["replay"]
    kind = r.get("kind")
    wd = tempfile.mkdtemp(prefix="c13r_")
    try:
        if kind in ("threads", "two", "collision"):
            case = r["case"]
            target = r.get("target", "file")
            path, lay = build(case, wd)
            nf = len(lay["folders"])
            outn = py_outnames(lay["names"])
            ref = reference(case, path, lay, wd, target)
            want, refops = dict(ref["outs"]), dict(ref["ops"])
            dmg = case.get("damage")
            if dmg and not isinstance(dmg, list):
                pcase = dict(case)
                pcase["damage"] = None
                pd = os.path.join(wd, "p")
                os.makedirs(pd)
                ppath, play = build(pcase, pd)
                pref = reference(pcase, ppath, play, pd, target)
                refops = dict(pref["ops"])
                refops[dmg["folder"]] = ref["ops"][dmg["folder"]]
                for f in range(dmg["folder"] + 1, nf):
                    for i in lay["folders"][f]:
                        want[outn[i]] = pref["outs"][outn[i]]
            got = extract_controlled(path, lay, case["limit"], r["order"], target, wd, two=(kind == "two"),
                                     unwritable=unwritable_of(case), audit=True)
            bad_audit = check_audit(got, nf, lay)
            print("sequential path:", ref["result"], hexouts(ref["outs"]))
            print("expected of the parallel path:", ref["result"][:2], hexouts(want))
            results = got["result"] if kind == "two" else [got["result"]]
            outs = got["outs"] if kind == "two" else [got["outs"]]
            bad = False
            if bad_audit:
                print(bad_audit)
                bad = True
            for i in range(len(results)):
                print("object %d, order %r:" % (i, r["order"]), results[i], hexouts(outs[i]), got["run"].problems)
                if results[i][:2] != ref["result"][:2] or outs[i] != want:
                    bad = True
            if kind != "collision" and not ref["ambiguous"]:
                pw_ = per_worker(got["run"].trace)
                for key, ops in sorted(pw_.items()):
                    if ops != refops[key % nf]:
                        print("worker %d did %r; its folder extracted alone: %r" % (key, summarize(ops), summarize(refops[key % nf])))
                        bad = True
            return 1 if bad else 0
        if kind == "sequential":
            case = r["case"]
            path, lay = build(case, wd)
            ref = extract_controlled(path, lay, case["limit"], [], r.get("target", "file"), wd, src="bytesio",
                                     unwritable=unwritable_of(case))
            pcase = dict(case)
            pcase["damage"] = None
            pd = os.path.join(wd, "p")
            os.makedirs(pd)
            ppath, play = build(pcase, pd)
            pref = extract_controlled(ppath, play, case["limit"], [], r.get("target", "file"), pd, src="bytesio")
            print("sequential path, archive as given:", ref["result"], hexouts(ref["outs"]))
            print("sequential path, undamaged archive:", pref["result"], hexouts(pref["outs"]))
            want = {}
            outn = py_outnames(lay["names"])
            k = 0
            for ms in case_members(case):
                for n, dta in ms:
                    want[outn[k]] = dta
                    k += 1
            if pref["result"] != ["ok"] or pref["outs"] != want:
                return 1
            if case.get("damage") and ref["result"] == ["ok"] and ref["outs"] != pref["outs"]:
                return 1
            return 0
        if kind == "mp":
            case = r["case"]
            path, lay = build(case, wd)
            target = r["target"]
            ref = extract_controlled(path, lay, case["limit"], [], target, wd, src="bytesio", unwritable=unwritable_of(case))
            out = os.path.join(wd, "mpout")
            sb = run_sandboxed("harness.c13:sandbox_extract", {"archive": path, "limit": case["limit"], "mp": True,
                                                               "out": out if target == "file" else None,
                                                               "unwritable": unwritable_of(case)}, timeout=120, mem_mb=3000)
            print("sequential path:", ref["result"], hexouts(ref["outs"]))
            print("mp=True:", sb)
            if sb["status"] != "ok":
                return 1
            res = sb["value"]["result"]
            outs = {k: bytes.fromhex(v) for k, v in (sb["value"]["outs"] or {}).items()}
            if case.get("damage"):
                return 1 if (res[0] == "ok" or res[1] != ref["result"][1]) else 0
            return 1 if (res != ["ok"] or outs != ref["outs"]) else 0
        if kind == "selective":
            case, targets = r["case"], r["targets"]
            path, lay = build(case, wd)
            res = {}
            for how in ("stream", "name"):
                out = os.path.join(wd, "out_" + how)
                try:
                    with py7zr.SevenZipFile(io.BytesIO(open(path, "rb").read()) if how == "stream" else path, "r") as z:
                        z.extract(path=out, targets=list(targets))
                    res[how] = (["ok"], snapshot(out))
                except Exception as e:  # noqa
                    res[how] = (exc_tuple(e), snapshot(out))
                print(how, res[how][0], hexouts(res[how][1]))
            return 1 if res["name"] != res["stream"] or res["stream"][0] != ["ok"] else 0
        if kind == "fs-race":
            case = r["case"]
            path, lay = build(case, wd)
            seqout = os.path.join(wd, "seq")
            with py7zr.SevenZipFile(io.BytesIO(open(path, "rb").read()), "r") as z:
                z.extractall(path=seqout)
            want = snapshot(seqout)
            prng = random.Random((r["seed"], r["case_index"], r["policy_index"]).__hash__())
            res, outs, frun = fs_extract(path, case, r["policy"], prng, wd)
            print("sequential path:", hexouts(want))
            print("parallel path under %s:" % r["policy"], res, hexouts(outs))
            print("steps:", " ".join("%d:%s(%s)" % t for t in frun.trace))
            return 1 if (res != ["ok"] or outs != want) else 0
        if kind == "modes":
            rec = Rec()
            model = vlib.Model()
            try:
                explore_modes(model, rec, wd)
            finally:
                model.close()
            bad = [e for e in rec.events if e[0] == "violation"]
            for e in rec.events:
                if e[0] in ("violation", "dist"):
                    print(e[1:3])
            return 1 if bad else 0
        print("no replay for kind", kind, "-- case:", str(r)[:1500])
        return 2
    finally:
        shutil.rmtree(wd, ignore_errors=True)
