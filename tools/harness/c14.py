"""C14 -- a crash while writing never leaves a file that opens with wrong contents.

Tie between coq/theories/Trace.v and py7zr:
  * the I/O trace of real create/append sessions (a recording io.BytesIO handed to SevenZipFile) against the
    model's create_trace/append_trace (same operations, same order, same bytes: the seven writes of the placeholder and
    of the final signature header, data-then-header-then-signature, the append start position);
  * write_at/run against io.BytesIO and a real file (gaps, zero-length writes);
  * image_at / image_lost against an independent reconstruction;
  * open_view / sig_ok / enc_desc against SignatureHeader.retrieve + _real_get_contents on the crash images;
  * desc_protected: every encoded-header descriptor the writer emits carries the CRC of the plain header (the hypothesis
    of C14_append_plain_crash_safe; py7zr repair "store the CRC of the plain header in an encoded header").
Exploration: every byte-granular prefix of every recorded session (and the variants with the previous write lost, or any
one write lost at the end) is opened with py7zr under a watchdog: error, the new member map, or (append) the old one.
"""
import collections
import io
import multiprocessing
import os
import random
import signal
import struct
import tempfile
import shutil
import time
import zlib

import py7zr
import py7zr.archiveinfo as ai
import py7zr.helpers
import py7zr.compressor

from harness import arch

GEN_DEPS = []
LEVEL = "proof"
TRUSTED_BASE = [
    "Coq 8.16.1 kernel, vm_compute (no native_compute); no axioms (Print Assumptions: closed)",
    "theories/Trace.v as model of the seek/write operations py7zr issues and of SignatureHeader._read/_real_get_contents "
    "(tied by the recorded-trace and reader correspondence of this harness)",
    "theories/Crc32.v as model of zlib.crc32 (differential-tested by its own check)",
    "crash model: the file holds the effect of a prefix of the operation stream at byte granularity (plus: one write lost); "
    "POSIX semantics of write beyond EOF (zero fill), checked here against io.BytesIO and a real file",
    "extraction (ExtrOcamlBasic only) + ocaml/driver.ml; CPython 3.12 io/struct/zlib",
]
ASSUMPTIONS = [
    "the theorems are about the next header the reader is handed (signature header + next-header CRC); that this header "
    "and the untouched packed streams determine the member list is the parser's business (C06/C07/C17)",
    "decoders of encoded headers are abstract in the model (Section variable dec); C14_append_plain_crash_safe holds for "
    "every dec, given that the old descriptor carries the plain-header CRC (checked here for every archive py7zr writes)",
    "archives whose encoded-header descriptor has no CRC (written before the repair, or by other tools that omit it) are "
    "outside the quantifier; appending to them keeps the window of C14_append_legacy_descriptor_window open "
    "(observed, not reported: evidence key legacy_descriptor_session)",
    "the residual disjuncts of the theorems are CRC-32 collisions between two specific 20-byte strings (2^-32 per crash in "
    "a window of at most 15 byte positions); they are not excluded, they are named",
    "file systems that persist writes out of order: covered for ONE lost write (theorems C14_*_lost_body_write_safe at "
    "operation level for every later crash point, C14_*_sig_first_safe for any damage below an intact new signature "
    "header, C14_sig_field_lost_safe for a lost field write of the final signature header; exploration of image_lost), "
    "not for arbitrary subsets of lost blocks",
]

MAGIC = b"7z\xbc\xaf\x27\x1c"
FIXED_TIME = 1700000000.0
WATCHDOG = 2.0


# ------------------------------------------------------------------ recording
class Rec(io.BytesIO):
    """io.BytesIO that records every mutating call with absolute positions"""

    def __init__(self, init=b""):
        super().__init__(init)
        self.ops = []          # ("seek", abs) | ("write", bytes) | ("other", name)
        self.positions = []    # position of the cursor before each write (cross-check of the cursor model)

    def seek(self, pos, whence=0):
        r = super().seek(pos, whence)
        self.ops.append(("seek", r))
        return r

    def write(self, d):
        d = bytes(d)
        self.positions.append(self.tell())
        self.ops.append(("write", d))
        return super().write(d)

    def truncate(self, *a):
        self.ops.append(("other", "truncate%r" % (a,)))
        return super().truncate(*a)

    def writelines(self, lines):
        self.ops.append(("other", "writelines"))
        return super().writelines(lines)


class _FixedTime:
    """stands in for the `time` module inside py7zr.helpers: time() is constant"""

    def __init__(self, t):
        self._t = t

    def time(self):
        return self._t

    def __getattr__(self, name):
        return getattr(time, name)


class deterministic:
    """fixed clock; "random" bytes (AES IV) from a seeded generator: reproducible, but -- like the real thing -- different
    at every call (a constant IV would make a new data block decrypt under the old header's IV)"""
    _rng = random.Random(0xC14)

    def __enter__(self):
        self.t = py7zr.helpers._time
        self.r = py7zr.compressor.get_random_bytes
        py7zr.helpers._time = _FixedTime(FIXED_TIME)
        py7zr.compressor.get_random_bytes = lambda n: deterministic._rng.randbytes(n)
        return self

    def __exit__(self, *a):
        py7zr.helpers._time = self.t
        py7zr.compressor.get_random_bytes = self.r


class legacy_descriptor:
    """the encoded-header descriptor as py7zr wrote it before the repair: without the CRC of the plain header"""

    def __init__(self, on):
        self.on = on

    def __enter__(self):
        if self.on:
            self.orig = ai.HeaderStreamsInfo.write

            def write(hs, file):
                ai.write_byte(file, ai.PROPERTY.ENCODED_HEADER)
                hs.packinfo.write(file)
                hs.unpackinfo.write(file)
                ai.write_byte(file, ai.PROPERTY.END)
            ai.HeaderStreamsInfo.write = write
        return self

    def __exit__(self, *a):
        if self.on:
            ai.HeaderStreamsInfo.write = self.orig


def run_session(spec, old=b""):
    """one write session on a recording file; returns (ops, final bytes)"""
    f = Rec(old)
    pw = spec.get("password")
    with deterministic(), legacy_descriptor(spec.get("legacy", False)):
        z = py7zr.SevenZipFile(f, spec["mode"], filters=arch.CHAINS[spec["chain"]], password=pw,
                               header_encryption=spec.get("henc", False))
        try:
            if spec["header"] == "raw":
                z.set_encoded_header_mode(False)
            for n, d in spec["members"]:
                z.writestr(d, n)
        finally:
            z.close()
    assert len(f.positions) == sum(1 for o in f.ops if o[0] == "write")
    return f.ops, f.getvalue(), f.positions


def build(spec):
    """(old bytes, ops, final bytes, positions)"""
    deterministic._rng = random.Random(repr(sorted((k, repr(v)) for k, v in spec.items() if k in ("mode", "chain", "header", "henc"))))
    old = b""
    if spec["mode"] == "a":
        o = dict(spec["old"])
        o["mode"] = "w"
        _, old, _ = run_session(o)
    ops, final, pos = run_session(spec, old)
    return old, ops, final, pos


def compress_seeks(ops):
    """consecutive seeks: only the last one matters for what is written where"""
    out = []
    for o in ops:
        if o[0] == "seek" and out and out[-1][0] == "seek":
            out[-1] = o
        else:
            out.append(o)
    return out


# ------------------------------------------------------------------ images (independent of the model)
def apply_write(img, pos, data):
    if not data:
        return
    if pos > len(img):
        img.extend(bytes(pos - len(img)))
    img[pos:pos + len(data)] = data


def all_images(old, ops, lost=None):
    """yield (k, j, image) for every crash point; `lost`: index of a write operation that never reaches the disk"""
    img = bytearray(old)
    cur = 0
    for k, o in enumerate(ops):
        if o[0] == "seek":
            yield (k, 0, bytes(img))
            cur = o[1]
        elif o[0] == "write":
            d = o[1]
            yield (k, 0, bytes(img))
            if lost is not None and k == lost:
                cur += len(d)
                continue
            for j in range(1, len(d)):
                part = bytearray(img)
                apply_write(part, cur, d[:j])
                yield (k, j, bytes(part))
            apply_write(img, cur, d)
            cur += len(d)
    yield (len(ops), 0, bytes(img))


def image_at(old, ops, k, j, lost=None):
    img = bytearray(old)
    cur = 0
    for i, o in enumerate(ops[:k]):
        if o[0] == "seek":
            cur = o[1]
        elif o[0] == "write":
            if i != lost:
                apply_write(img, cur, o[1])
            cur += len(o[1])
    if k < len(ops) and ops[k][0] == "write":
        apply_write(img, cur, ops[k][1][:j])
    return bytes(img)


# ------------------------------------------------------------------ opening under a watchdog
class Hang(BaseException):
    pass


def _alarm(*a):
    raise Hang()


def open_image(img, password=None, timeout=WATCHDOG):
    """('err', cls) | ('ok', names, members) | ('hang',)"""
    old = signal.signal(signal.SIGALRM, _alarm)
    signal.setitimer(signal.ITIMER_REAL, timeout)
    try:
        try:
            src = io.BytesIO(img)
            with py7zr.SevenZipFile(src, "r", password=password) as z:
                names = z.getnames()
                fac = arch.Collect()
                z.extractall(factory=fac)
            r = ("ok", names, fac.as_list())
        except Hang:
            r = ("hang",)
        except Exception as e:  # noqa
            r = ("err", type(e).__name__)
    except Hang:
        r = ("hang",)
    finally:
        signal.setitimer(signal.ITIMER_REAL, 0)
        signal.signal(signal.SIGALRM, old)
    return r


def classify(r, newmap, oldmap):
    if r[0] == "err":
        return "err"
    if r[0] == "hang":
        return "hang"
    if r == newmap:
        return "new"
    if oldmap is not None and r == oldmap:
        return "old"
    return "wrong"


# ------------------------------------------------------------------ session specs
def texture(n, seed):
    rng = random.Random(seed)
    words = [b"alpha ", b"beta ", b"gamma\n", b"delta-", b"7zip ", b"\x00\x01", b"\xff\xfe"]
    out = bytearray()
    while len(out) < n:
        out += rng.choice(words)
    return bytes(out[:n])


M1 = [("a.txt", b"hello world")]
M2 = [("a.txt", b"hello world"), ("b.txt", b"second")]
M3 = [("d/e.bin", texture(90, 1)), ("empty", b""), ("z", b"\x00")]
M9 = [("member-%02d-with-a-long-name.dat" % i, texture(7 + i, i)) for i in range(9)]   # raw header > 256 bytes
APP1 = [("c.txt", b"third one")]
APP2 = [("n1", texture(40, 7)), ("n2", b"")]


def session_specs(tier):
    specs = []

    def add(mode, chain, header, members, old=None, password=None, henc=False, sample=None, tag=""):
        s = {"mode": mode, "chain": chain, "header": header, "members": members, "password": password, "henc": henc,
             "sample": sample, "tag": tag}
        if old is not None:
            s["old"] = old
        s["id"] = "%s/%s/%s%s/%s%s" % (mode, chain, header, "+henc" if henc else "",
                                       ",".join(n for n, _ in members)[:30], tag)
        specs.append(s)

    def oldspec(chain, header, members, password=None, henc=False):
        return {"chain": chain, "header": header, "members": members, "password": password, "henc": henc}

    chains = ["copy", "lzma2", "deflate", "bzip2"] + (["zstd", "lzma", "ppmd", "delta+lzma2", "x86+lzma2"] if tier != "quick" else [])
    for ch in chains:
        for hm in ("raw", "encoded"):
            add("w", ch, hm, M2)
            add("a", ch, hm, APP1, old=oldspec(ch, hm, M2))
    add("w", "copy", "raw", M1)
    add("w", "copy", "raw", M3)
    add("w", "lzma2", "encoded", M3)
    add("w", "copy", "raw", M9)            # next header longer than 256 bytes: the size field's second byte matters
    add("w", "lzma2", "raw", M9)
    add("a", "copy", "raw", APP2, old=oldspec("copy", "raw", M3))
    add("a", "copy", "raw", APP1, old=oldspec("copy", "raw", M9))
    add("a", "lzma2", "encoded", APP2, old=oldspec("lzma2", "encoded", M3))
    # mixed: the new session uses another chain / header mode than the old archive
    add("a", "copy", "encoded", APP1, old=oldspec("lzma2", "encoded", M2), tag="#mixed")
    add("a", "copy", "raw", APP1, old=oldspec("lzma2", "encoded", M2), tag="#mixed-raw")
    add("a", "deflate", "encoded", APP1, old=oldspec("copy", "raw", M2), tag="#mixed-enc")
    # a session that adds no packed data: the new packed header is written exactly where the old one was, so a torn write
    # mixes the old and the new encoded header byte by byte (only the CRC of the plain header can reject such a mix)
    add("a", "copy", "encoded", [("e", b"")], old=oldspec("copy", "encoded", M2), tag="#empty-only")
    add("a", "copy", "encoded", [("e", b"")], old=oldspec("copy", "encoded", M3), tag="#empty-only3")
    add("a", "lzma2", "encoded", [("e", b"")], old=oldspec("lzma2", "encoded", M2), tag="#empty-only-lzma2")
    # encryption (key derivation makes every accepted-then-decrypted image expensive: sampled)
    smp = 110 if tier == "quick" else 1500
    add("w", "lzma2+aes", "encoded", M1, password="pw", sample=smp)
    add("a", "lzma2+aes", "encoded", APP1, old=oldspec("lzma2+aes", "encoded", M1, password="pw"), password="pw", sample=smp)
    add("w", "lzma2+aes", "encoded", M1, password="pw", henc=True, sample=smp)
    add("a", "lzma2+aes", "encoded", APP1, old=oldspec("lzma2+aes", "encoded", M1, password="pw", henc=True),
        password="pw", henc=True, sample=smp)
    if tier != "quick":
        rng = random.Random(0xC14C14)
        allch = ["copy", "lzma2", "deflate", "bzip2", "zstd", "lzma", "ppmd", "brotli", "delta+lzma2", "x86+lzma2", "x86+deflate"]

        def rand_members(tag):
            ms = []
            for i in range(rng.randrange(1, 5)):
                name = "%s%d%s" % (tag, i, rng.choice(["", ".txt", "/sub/x.bin", "-\u00e9\u4e2d"]))
                size = rng.choice([0, 1, 2, 15, 16, 17, 100, 300, 1200])
                kind = rng.choice(["text", "zeros", "random", "header-like"])
                if kind == "text":
                    d = texture(size, rng.randrange(1000))
                elif kind == "zeros":
                    d = bytes(size)
                elif kind == "random":
                    d = rng.randbytes(size)
                else:
                    d = (b"\x01\x00" + bytes(size))[:max(size, 2)]
                ms.append((name, d))
            return ms
        for n in range(36):
            ch = rng.choice(allch)
            hm = rng.choice(["raw", "encoded", "encoded"])
            if rng.random() < 0.4:
                add("w", ch, hm, rand_members("r%d_" % n), sample=2500, tag="#rand%d" % n)
            else:
                och = rng.choice(allch)
                ohm = rng.choice(["raw", "encoded", "encoded"])
                add("a", ch, hm, rand_members("r%d_" % n), old=oldspec(och, ohm, rand_members("o%d_" % n)), sample=2500,
                    tag="#rand%d" % n)
        big = [("big.bin", texture(5000, 3)), ("t.txt", texture(700, 4))]
        for ch in ("copy", "lzma2", "bzip2"):
            add("w", ch, "encoded", big, sample=4000)
            add("a", ch, "encoded", big, old=oldspec(ch, "encoded", M2), sample=4000)
            add("a", ch, "raw", big, old=oldspec(ch, "raw", M9), sample=4000)
    return specs


# ------------------------------------------------------------------ directed sessions
def encoded_parts(data):
    """(pack position, pack size, descriptor) of an archive with an encoded header written by py7zr"""
    ofs, size = struct.unpack("<QQ", data[12:28])
    desc = data[32 + ofs:32 + ofs + size]
    assert desc[:1] == b"\x17"
    buf = io.BytesIO(desc[1:])
    st = ai.HeaderStreamsInfo.retrieve(buf)
    return st.packinfo.packpos, st.packinfo.packsizes[0], desc


def engineered_append_over_encoded_header():
    """an append session whose first data write has exactly the bytes of ANOTHER archive's packed header, of the length
    of the old packed header: the replay of C14_append_encoded_window on the implementation"""
    base = {"mode": "w", "chain": "lzma2", "header": "encoded", "members": M2, "password": None, "henc": False}
    _, old, _ = run_session(base)
    pp, ps, _ = encoded_parts(old)
    for a in "xyzuvwpqrs":
        for b in "yzuvwpqrsx":
            if a == b:
                continue
            other = dict(base)
            other["members"] = [(a + ".txt", b"hello world"), (b + ".txt", b"second")]
            _, alt, _ = run_session(other)
            pp2, ps2, _ = encoded_parts(alt)
            if (pp2, ps2) == (pp, ps):
                payload = alt[32 + pp2:32 + pp2 + ps2]
                spec = {"mode": "a", "chain": "copy", "header": "encoded", "members": [("payload.bin", payload)],
                        "password": None, "henc": False, "sample": None, "tag": "#directed-packed-header",
                        "old": {"chain": "lzma2", "header": "encoded", "members": M2, "password": None, "henc": False}}
                spec["id"] = "a/copy/encoded/payload=packed header of (%s.txt,%s.txt)" % (a, b)
                spec["directed"] = "append-over-encoded-header"
                return spec
    return None


def natural_append_of_file_starting_01_00():
    """an append (LZMA2, encoded header: py7zr's defaults up to the BCJ filter) of a compressible file whose first two
    bytes are 01 00 (an EMF picture starts with the record type 1 as a little-endian integer, for instance)"""
    data = b"\x01\x00\x00\x00" + struct.pack("<L", 108) + bytes(392)
    spec = {"mode": "a", "chain": "lzma2", "header": "encoded", "members": [("picture.emf", data)], "password": None,
            "henc": False, "sample": None, "tag": "#directed-file-01-00",
            "old": {"chain": "lzma2", "header": "encoded", "members": M2, "password": None, "henc": False}}
    spec["id"] = "a/lzma2/encoded/picture.emf (content starts 01 00)"
    spec["directed"] = "append-over-encoded-header"
    return spec


def legacy_append_of_file_starting_01_00():
    """the same append on an archive whose descriptor was written WITHOUT the plain-header CRC (py7zr before the repair):
    informational -- such archives are not produced by the sessions the property quantifies over"""
    spec = natural_append_of_file_starting_01_00()
    spec["old"] = dict(spec["old"])
    spec["old"]["legacy"] = True
    spec["id"] = "a/lzma2/encoded/picture.emf on an archive with a pre-repair descriptor (informational)"
    spec["tag"] = "#legacy-descriptor"
    spec["informational"] = True
    return spec


def crc_patch(msg, off, target):
    """the 4 bytes to put at msg[off:off+4] so that zlib.crc32(msg) == target (CRC-32 is affine in them)"""
    def at(x):
        return zlib.crc32(msg[:off] + struct.pack("<L", x) + msg[off + 4:])
    c0 = at(0)
    want = target ^ c0
    rows = [(at(1 << b) ^ c0, 1 << b) for b in range(32)]
    # gaussian elimination over GF(2): find subset of rows whose xor of images is `want`
    basis = {}
    for img, sel in rows:
        cur, s = img, sel
        while cur:
            hb = cur.bit_length() - 1
            if hb in basis:
                bi, bs = basis[hb]
                cur ^= bi
                s ^= bs
            else:
                basis[hb] = (cur, s)
                break
    x = 0
    cur = want
    while cur:
        hb = cur.bit_length() - 1
        if hb not in basis:
            return None
        bi, bs = basis[hb]
        cur ^= bi
        x ^= bs
    assert at(x) == target
    return x


def engineered_start_crc_collision():
    """a create session (raw header) whose member name is chosen so that the final start-header CRC equals the CRC of
    the placeholder's offset/size/crc fields: after the 4-byte start-header-CRC write the signature header verifies
    with the placeholder fields in place (C14_placeholder_fields_can_verify on the implementation)"""
    c0 = zlib.crc32(struct.pack("<QQL", 2, 3, 4))
    name = "k" + "AAAA" + ".bin"
    spec = {"mode": "w", "chain": "copy", "header": "raw", "members": [(name, b"payload-bytes")], "password": None,
            "henc": False, "sample": None, "tag": "#directed-start-crc"}
    _, final, _ = run_session(spec)
    ofs, size, hcrc = struct.unpack("<QQL", final[12:32])
    hdr = final[32 + ofs:32 + ofs + size]
    pos = hdr.find("AAAA".encode("utf-16LE"))
    if pos < 0:
        return None
    # wanted header crc T: crc32(le64(ofs) le64(size) le32(T)) == c0
    t = crc_patch(struct.pack("<QQL", ofs, size, 0), 16, c0)
    for off in (pos, pos + 4):
        x = crc_patch(hdr, off, t)
        if x is None:
            continue
        units = struct.unpack("<HH", struct.pack("<L", x))
        if any(0xD800 <= u <= 0xDFFF or u in (0, 0x2F, 0x5C) for u in units):
            continue
        raw = hdr[:off] + struct.pack("<L", x) + hdr[off + 4:]
        newname = raw[pos - 2:pos + 16].decode("utf-16LE")   # k + 4 chars + .bin
        spec2 = dict(spec)
        spec2["members"] = [(newname, b"payload-bytes")]
        spec2["id"] = "w/copy/raw/name chosen for start-crc collision"
        spec2["directed"] = "start-crc-collision"
        return spec2
    return None


# ------------------------------------------------------------------ exploration of one session (worker process)
def explore_session(arg):
    spec, tier, seed = arg
    try:
        import resource
        resource.setrlimit(resource.RLIMIT_AS, (3 << 30, 3 << 30))
    except Exception:  # noqa
        pass
    t0 = time.time()
    rng = random.Random((seed, spec["id"]).__repr__())
    out = {"id": spec["id"], "spec": spec, "bad": [], "hang": [], "counts": collections.Counter(), "error": None,
           "images": 0, "distinct": 0}
    try:
        old, ops, final, positions = build(spec)
    except Exception as e:  # noqa
        import traceback
        out["error"] = "session itself failed: %s: %s" % (type(e).__name__, traceback.format_exc()[-600:])
        return out
    pw = spec.get("password")
    out["old"], out["ops"], out["final"], out["positions"] = old, ops, final, positions
    newmap = open_image(final, pw, timeout=20)
    oldmap = open_image(old, pw, timeout=20) if spec["mode"] == "a" else None
    out["newmap_ok"] = newmap[0] == "ok"
    want = ([(n, d) for n, d in spec["old"]["members"]] if spec["mode"] == "a" else []) + list(spec["members"])
    if newmap[0] != "ok" or newmap[2] != want:
        out["bad"].append({"variant": "final", "k": len(ops), "j": 0, "lost": None,
                           "got": repr(newmap)[:300], "class": "final-not-new"})
        return out
    if oldmap is not None and oldmap[0] != "ok":
        out["error"] = "old archive does not open: %r" % (oldmap,)
        return out
    seen = {}

    def visit(variant, lost, k, j, img):
        out["images"] += 1
        if img in seen:
            c = seen[img]
        else:
            r = open_image(img, pw)
            c = classify(r, newmap, oldmap)
            seen[img] = c
            out["distinct"] += 1
            if c == "wrong":
                out["bad"].append({"variant": variant, "k": k, "j": j, "lost": lost, "got": repr(r)[:400],
                                   "class": "wrong-contents", "names": list(r[1]) if r[0] == "ok" else None})
            elif c == "hang":
                out["hang"].append({"variant": variant, "k": k, "j": j, "lost": lost})
        out["counts"][variant + ":" + c] += 1

    points = list(all_images(old, ops))
    sample = spec.get("sample")
    if sample and len(points) > sample:
        # every operation boundary, every point of the signature rewrite, and a random sample of the rest
        nsig = 8
        keep = [p for p in points if p[1] == 0 or p[0] >= len(ops) - nsig or p[0] < 9]
        rest = [p for p in points if not (p[1] == 0 or p[0] >= len(ops) - nsig or p[0] < 9)]
        rng.shuffle(rest)
        points = keep + rest[:max(0, sample - len(keep))]
    for k, j, img in points:
        visit("prefix", None, k, j, img)
    # the previous write lost (it was still buffered / reordered behind the current one)
    widx = [i for i, o in enumerate(ops) if o[0] == "write" and o[1]]
    lostpts = []
    for pos_i, d in enumerate(widx):
        nxt = widx[pos_i + 1] if pos_i + 1 < len(widx) else None
        # crash points up to and including the end of the next write, with write d lost
        if nxt is None:
            lostpts.append((d, len(ops), 0))
        else:
            n = len(ops[nxt][1])
            js = range(0, n) if n <= 16 else sorted(set([0, 1, n // 2, n - 1]))
            for j in js:
                lostpts.append((d, nxt, j))
            lostpts.append((d, nxt + 1, 0))
        # ... and any single write lost with everything else (the final signature header included) on disk
        lostpts.append((d, len(ops), 0))
    if sample and len(lostpts) > sample:
        rng.shuffle(lostpts)
        lostpts = lostpts[:sample]
    for d, k, j in lostpts:
        visit("lost", d, k, j, image_at(old, ops, k, j, lost=d))
    out["wall"] = time.time() - t0
    out["counts"] = dict(out["counts"])
    return out


# ------------------------------------------------------------------ correspondence with the model
def ops_tree(ops):
    return [[0, o[1]] if o[0] == "seek" else [1, o[1]] for o in ops]


def split_session(spec, old, ops, final):
    """recorded trace -> the model's parameters (p, pre chunks, hdr chunks); None + reason when the shape is off"""
    if any(o[0] == "other" for o in ops):
        return None, "operation outside the model: %r" % [o for o in ops if o[0] == "other"][:2]
    c = compress_seeks(ops)
    ofs, size, hcrc = struct.unpack("<QQL", final[12:32])
    hstart = 32 + ofs
    if spec["mode"] == "w":
        if len(c) < 18 or c[8] != ("seek", 32):
            return None, "no seek(32) after the seven placeholder writes"
        bodyops = c[9:-8]
        start = 32
    else:
        if not c or c[0][0] != "seek":
            return None, "append session does not start with a seek"
        start = c[0][1]
        bodyops = c[1:-8]
    if any(o[0] != "write" for o in bodyops):
        return None, "seek inside the data/header writes"
    pre, hdr, cur = [], [], start
    for o in bodyops:
        d = o[1]
        if cur >= hstart and (d or hdr):
            hdr.append(d)
        else:
            if cur + len(d) > hstart:
                return None, "a write straddles the start of the next header"
            pre.append(d)
        cur += len(d)
    if cur != hstart + size:
        return None, "data+header writes end at %d, signature header says %d" % (cur, hstart + size)
    return (start, pre, hdr, c), None


def real_open_view(img):
    """what SignatureHeader.retrieve + _real_get_contents hand to Header.retrieve; None when they raise before"""
    got = {}
    orig = ai.Header.__dict__["retrieve"]     # the classmethod object

    class Stop(BaseException):
        pass

    def fake(fp, buffer, start_pos, password=None):
        got["h"] = buffer.getvalue()
        raise Stop()

    ai.Header.retrieve = staticmethod(fake)
    try:
        try:
            py7zr.SevenZipFile(io.BytesIO(img), "r")
        except Stop:
            pass
        except Exception:  # noqa
            pass
    finally:
        ai.Header.retrieve = orig
    return got.get("h")


def real_sig_ok(img):
    try:
        f = io.BytesIO(img)
        if not py7zr.SevenZipFile._check_7zfile(f):
            return False
        ai.SignatureHeader.retrieve(f)
        return True
    except Exception:  # noqa
        return False


def check_file_semantics(ctx, rep, rng):
    """write_at / run of the model against io.BytesIO and a real file: gaps are zero-filled, zero-length writes are no-ops"""
    model = ctx["model"]
    tmp = tempfile.mkdtemp(prefix="c14_")
    try:
        for case in range(60):
            init = rng.randbytes(rng.choice([0, 1, 5, 32, 40]))
            ops = []
            for _ in range(rng.randrange(1, 7)):
                if rng.random() < 0.45:
                    ops.append(("seek", rng.choice([0, 1, 8, 31, 32, 33, 50, 64])))
                else:
                    ops.append(("write", rng.randbytes(rng.choice([0, 0, 1, 2, 4, 8, 13]))))
            b = io.BytesIO(init)
            b.seek(0)
            p = os.path.join(tmp, "f%d" % case)
            with open(p, "wb") as f:
                f.write(init)
            with open(p, "r+b") as f:
                for o in ops:
                    if o[0] == "seek":
                        b.seek(o[1])
                        f.seek(o[1])
                    else:
                        b.write(o[1])
                        f.write(o[1])
                posb, posf = b.tell(), f.tell()
            disk = open(p, "rb").read()
            mine = image_at(init, ops, len(ops), 0)
            rep.count(("filesem", init, tuple(ops)), nontrivial=True)
            bad = None
            if not (b.getvalue() == disk == mine) or posb != posf:
                bad = "io.BytesIO %s / real file %s / harness %s" % (b.getvalue().hex(), disk.hex(), mine.hex())
            elif model is not None:
                m = model.call("trace_final", [init, ops_tree(ops)])
                if bytes(m[0]) != disk or m[1] != posf:
                    bad = "model %s cursor %d, file %s cursor %d" % (bytes(m[0]).hex(), m[1], disk.hex(), posf)
            if bad:
                rep.violation("file semantics differ: %s" % bad, {"kind": "file-semantics", "init": init.hex(),
                              "ops": [[o[0], o[1] if o[0] == "seek" else o[1].hex()] for o in ops]}, concrete=False,
                              match_keys={"kind": "file-semantics"})
                return
    finally:
        shutil.rmtree(tmp, ignore_errors=True)


def correspond_session(ctx, rep, rng, res, tier):
    """recorded trace == model trace; images; reader"""
    model = ctx["model"]
    spec, old, ops, final = res["spec"], res["old"], res["ops"], res["final"]
    sid = res["id"]
    # cursor model: the position before every write as the recorder saw it
    cur, k = 0, 0
    for o in ops:
        if o[0] == "seek":
            cur = o[1]
        elif o[0] == "write":
            if res["positions"][k] != cur:
                rep.violation("%s: write %d happened at %d, cursor model says %d" % (sid, k, res["positions"][k], cur),
                              {"kind": "trace", "session": spec_json(spec)}, concrete=False, match_keys={"kind": "trace-cursor"})
                return
            cur += len(o[1])
            k += 1
    parts, why = split_session(spec, old, ops, final)
    if parts is None:
        rep.violation("%s: recorded I/O trace does not have the shape of the model's session: %s" % (sid, why),
                      {"kind": "trace", "session": spec_json(spec), "why": why}, concrete=False,
                      match_keys={"kind": "trace-shape"})
        return
    start, pre, hdr, cops = parts
    rep.dist("header_size_class", "<256" if sum(map(len, hdr)) < 256 else ">=256")
    rep.dist("writes_per_session", min(400, 50 * (len(cops) // 50)))
    if model is None:
        return
    if spec["mode"] == "w":
        mops = model.call("trace_create", [pre, hdr])
    else:
        mops = model.call("trace_append", [old, start, pre, hdr])
    want = ops_tree(cops)
    got = [[o[0], o[1] if o[0] == 0 else bytes(o[1])] for o in mops]
    if got != want:
        i = next((i for i, (a, b) in enumerate(zip(got, want)) if a != b), min(len(got), len(want)))
        rep.violation("%s: operation %d of the session differs from the model: impl %r model %r (of %d/%d operations)" % (
            sid, i, want[i] if i < len(want) else None, got[i] if i < len(got) else None, len(want), len(got)),
            {"kind": "trace", "session": spec_json(spec), "index": i}, concrete=False, match_keys={"kind": "trace-ops"})
        return
    # every encoded-header descriptor the writer emits carries the CRC of the plain header
    for which, data in (("new", final), ("old", old)):
        if len(data) < 32 or (which == "old" and spec.get("old", {}).get("legacy")):
            continue
        dofs, dsize = struct.unpack("<QQ", data[12:28])
        dh = data[32 + dofs:32 + dofs + dsize]
        if dh[:1] != b"\x17":
            continue
        prot = model.call("trace_desc_protected", [100000, dh]) == 1
        st = ai.HeaderStreamsInfo.retrieve(io.BytesIO(dh[1:]))
        real = bool(st.unpackinfo.folders[0].digestdefined)
        rep.count(("desc-protected", sid, which), nontrivial=True)
        if prot != real:
            rep.violation("%s: descriptor of the %s archive: model says plain-header CRC defined=%s, implementation %s" % (
                sid, which, prot, real), {"kind": "enc-desc", "session": spec_json(spec)}, concrete=False,
                match_keys={"kind": "enc-desc-digest"})
            return
        if not prot:
            rep.violation("%s: the encoded header written for the %s archive carries no CRC of the plain header "
                          "(hypothesis desc_protected of C14_append_plain_crash_safe fails: an append to it is exposed)" % (sid, which),
                          {"kind": "enc-desc", "session": spec_json(spec), "which": which}, concrete=False,
                          match_keys={"kind": "descriptor-without-crc"})
            return
    # append start position = end of the packed streams of the old archive
    if spec["mode"] == "a":
        oofs, osize = struct.unpack("<QQ", old[12:28])
        oh = old[32 + oofs:32 + oofs + osize]
        if oh[:1] == b"\x17":
            d = model.call("trace_enc_desc", [100000, oh])
            real = encoded_parts(old)
            if not d or (d[0], d[1]) != (real[0], real[1]):
                rep.violation("%s: descriptor of the encoded header: model %r, implementation %r" % (sid, d, real[:2]),
                              {"kind": "enc-desc", "session": spec_json(spec)}, concrete=False, match_keys={"kind": "enc-desc"})
                return
            expect = 32 + d[0]
        else:
            expect = 32 + oofs
        if start != expect:
            rep.violation("%s: append starts writing at %d, the packed streams of the old archive end at %d" % (sid, start, expect),
                          {"kind": "append-start", "session": spec_json(spec)}, concrete=False,
                          match_keys={"kind": "append-start"})
            return
    # images and reader on sampled crash points (all points of the signature-header rewrite)
    mt = ops_tree(cops)
    pts = []
    for k, o in enumerate(cops):
        if o[0] == "write":
            n = len(o[1])
            js = range(0, n) if (k >= len(cops) - 7 or k < 8) else ([0, n // 2] if n > 1 else [0])
            pts += [(k, j) for j in js]
        else:
            pts.append((k, 0))
    pts.append((len(cops), 0))
    inner = [p for p in pts if 8 <= p[0] < len(cops) - 7]
    edge = [p for p in pts if not (8 <= p[0] < len(cops) - 7)]
    rng.shuffle(inner)
    pts = edge + inner[:40 if tier == "quick" else 400]
    widx = [i for i, o in enumerate(cops) if o[0] == "write" and o[1]]
    for k, j in pts:
        mine = image_at(old, cops, k, j)
        mimg = bytes(model.call("trace_image_at", [old, mt, k, j]))
        rep.count(("corr-image", sid, k, j), nontrivial=True)
        if mine != mimg:
            rep.violation("%s: image at crash point (%d,%d): model %s.. harness %s.." % (sid, k, j, mimg[:40].hex(), mine[:40].hex()),
                          {"kind": "image", "session": spec_json(spec), "k": k, "j": j}, concrete=False,
                          match_keys={"kind": "image-at"})
            return
        mv = model.call("trace_open_view", mine)
        rv = real_open_view(mine)
        mo = bytes(mv[0]) if mv else None
        ms = model.call("trace_sig_ok", mine) == 1
        rs = real_sig_ok(mine)
        if mo != rv or ms != rs:
            rep.violation("%s: crash point (%d,%d): reader model and SignatureHeader._read/_real_get_contents disagree: "
                          "model sig_ok=%s view=%s, implementation sig_ok=%s view=%s" % (
                              sid, k, j, ms, None if mo is None else mo[:16].hex(), rs, None if rv is None else rv[:16].hex()),
                          {"kind": "reader", "session": spec_json(spec), "k": k, "j": j}, concrete=False,
                          match_keys={"kind": "reader-model"})
            return
    for d in rng.sample(widx, min(len(widx), 6)):
        for k, j in ((len(cops), 0), (min(len(cops), d + 2), 0)):
            mine = image_at(old, cops, k, j, lost=d)
            mimg = bytes(model.call("trace_image_lost", [old, mt, d, k, j]))
            rep.count(("corr-lost", sid, d, k, j), nontrivial=True)
            if mine != mimg:
                rep.violation("%s: image with write %d lost at (%d,%d): model and harness differ" % (sid, d, k, j),
                              {"kind": "image", "session": spec_json(spec), "k": k, "j": j, "lost": d}, concrete=False,
                              match_keys={"kind": "image-lost"})
                return


def spec_json(spec):
    def enc(ms):
        return [[n, d.hex()] for n, d in ms]
    s = {k: v for k, v in spec.items() if k not in ("members", "old")}
    s["members"] = enc(spec["members"])
    if "old" in spec:
        s["old"] = dict(spec["old"])
        s["old"]["members"] = enc(spec["old"]["members"])
    return s


def spec_from_json(s):
    def dec(ms):
        return [(n, bytes.fromhex(d)) for n, d in ms]
    spec = dict(s)
    spec["members"] = dec(s["members"])
    if "old" in s:
        spec["old"] = dict(s["old"])
        spec["old"]["members"] = dec(s["old"]["members"])
    return spec


def window_of(res, b):
    """which window of the session a wrong-contents crash point lies in (for the match keys of a finding)"""
    spec, old, ops = res["spec"], res["old"], res["ops"]
    if spec["mode"] != "a" or b.get("variant") == "final":
        return "create" if spec["mode"] == "w" else "final"
    img = image_at(old, ops, b["k"], b["j"], lost=b.get("lost"))
    oofs, osize = struct.unpack("<QQ", old[12:28])
    oh = old[32 + oofs:32 + oofs + osize]
    if img[:32] == old[:32] and oh[:1] == b"\x17" and img[32 + oofs:32 + oofs + osize] == oh:
        return "append-over-encoded-header"      # old signature header, old descriptor intact, packed header overwritten
    if img[:32] == old[:32]:
        return "append-old-signature"
    return "append-other"


def check_start_crc_collision(ctx, rep, res):
    """directed create session: right after the start-header-CRC write the signature header verifies (with the
    placeholder's fields) and the next-header check still rejects"""
    ops, final = res["ops"], res["final"]
    c = compress_seeks(ops)
    k = len(c) - 3        # the three writes ofs/size/crc still to come
    img = image_at(b"", c, k, 0)
    ok_sig = real_sig_ok(img)
    view = real_open_view(img)
    rep.extra["start_crc_collision_session"] = {"signature_header_verifies_with_placeholder_fields": ok_sig,
                                                "accepted": view is not None, "name": res["spec"]["members"][0][0]}
    rep.count(("directed-start-crc", img), nontrivial=True)
    if not ok_sig:
        rep.violation("directed start-header-CRC collision: SignatureHeader._read rejects the image the model says it accepts",
                      {"kind": "reader", "session": spec_json(res["spec"]), "k": k, "j": 0}, concrete=False,
                      match_keys={"kind": "reader-model-directed"})
    if ctx["model"] is not None:
        ms = ctx["model"].call("trace_sig_ok", img) == 1
        mv = ctx["model"].call("trace_open_view", img)
        if ms != ok_sig or bool(mv) != (view is not None):
            rep.violation("directed start-header-CRC collision: model sig_ok=%s view=%s, implementation %s %s" % (
                ms, bool(mv), ok_sig, view is not None), {"kind": "reader", "session": spec_json(res["spec"]), "k": k, "j": 0},
                concrete=False, match_keys={"kind": "reader-model-directed"})


def run(ctx):
    rep, tier = ctx["rep"], ctx["tier"]
    rng = random.Random(ctx["seed"])
    rep.cov["rule"] = ("sessions: create/append x chains x raw/encoded/encrypted headers x member lists (incl. empty members, "
                       "a raw header > 256 bytes, mixed chains) + two directed sessions; per session EVERY byte-granular "
                       "crash point (sampled for encrypted/large sessions), each also with the previous write lost and with "
                       "any one write lost at the end; non-trivial = distinct (session, variant, k, j); images opened with "
                       "py7zr (names + extraction to memory) under a watchdog")
    try:
        check_file_semantics(ctx, rep, rng)
    except Exception as e:  # noqa
        import traceback
        rep.violation("file-semantics check raised %s" % e, {"kind": "exception", "trace": traceback.format_exc()[-1200:]},
                      concrete=False, match_keys={"kind": "exception"})
    specs = session_specs(tier)
    for mk in (engineered_append_over_encoded_header, natural_append_of_file_starting_01_00, engineered_start_crc_collision,
               legacy_append_of_file_starting_01_00):
        try:
            s = mk()
        except Exception as e:  # noqa
            s = None
            rep.extra.setdefault("directed_failed", []).append("%s: %s: %s" % (mk.__name__, type(e).__name__, e))
        if s is not None:
            specs.append(s)
        else:
            rep.extra.setdefault("directed_failed", []).append(mk.__name__)
    t0 = time.time()
    nproc = min(16, os.cpu_count() or 4)
    results = []
    total = collections.Counter()

    def handle(res):
        sid = res["id"]
        spec = res["spec"]
        if res["error"]:
            rep.violation("%s: %s" % (sid, res["error"]), {"kind": "session-error", "session": spec_json(spec)},
                          concrete=True, match_keys={"kind": "session-error", "mode": spec["mode"]})
            return
        if spec.get("informational"):
            wins = collections.Counter(window_of(res, b) for b in res["bad"] if b["class"] == "wrong-contents")
            rep.extra["legacy_descriptor_session"] = {
                "session": sid, "crash_images": res["images"], "outcomes": res["counts"],
                "wrong_contents_by_window": dict(wins),
                "note": "old archive written with the pre-repair descriptor (no plain-header CRC); not a session of the property"}
            other = [b for b in res["bad"] if b["class"] != "wrong-contents" or window_of(res, b) != "append-over-encoded-header"]
            if not other:
                return
            res = dict(res)
            res["bad"] = other
            res["hang"] = []
        for key, n in res["counts"].items():
            total[key] += n
            rep.dist("outcome", key)
        rep.cov["evaluations"] += res["images"]
        rep.dist("session_mode", spec["mode"] + "/" + spec["header"])
        for i in range(res["distinct"]):
            rep.count((sid, "img", i), nontrivial=True, n=0)
        if len(rep.cov["samples"]) < 6:
            rep.sample({"session": sid, "operations": len(res["ops"]), "final_bytes": len(res["final"]),
                        "crash_images": res["images"], "outcomes": res["counts"]})
        seen_win = collections.Counter()
        for b in res["bad"]:
            win = window_of(res, b) if b["class"] == "wrong-contents" else b["class"]
            seen_win[win] += 1
            rep.dist("wrong_contents_window", win)
            if seen_win[win] > 1:
                continue
            if b["class"] == "final-not-new":
                text = "%s: the COMPLETED session leaves a file that does not open as the new member map: %s" % (sid, b["got"][:200])
            else:
                text = ("%s: crash point (k=%d, j=%d%s) leaves a file that opens WITHOUT error as %s -- neither the old nor "
                        "the new member map [%s]" % (sid, b["k"], b["j"], ", write %s lost" % b["lost"] if b["lost"] is not None else "",
                                                     b["got"][:160], win))
            rep.violation(text,
                          {"kind": "crash-image", "session": spec_json(spec), "k": b["k"], "j": b["j"], "lost": b["lost"],
                           "class": b["class"]},
                          concrete=True,
                          match_keys={"kind": "wrong-contents", "window": win, "mode": spec["mode"]})
        for h in res["hang"][:2]:
            rep.violation("%s: opening the file left at crash point (k=%d, j=%d%s) does not terminate (watchdog %g s): reader hangs on a "
                          "torn archive" % (sid, h["k"], h["j"], ", write %s lost" % h["lost"] if h["lost"] is not None else "", WATCHDOG),
                          {"kind": "crash-image", "session": spec_json(spec), "k": h["k"], "j": h["j"], "lost": h["lost"],
                           "class": "hang"},
                          concrete=True, match_keys={"kind": "hang-on-torn-archive"})
        try:
            correspond_session(ctx, rep, rng, res, tier)
            if spec.get("directed") == "start-crc-collision":
                check_start_crc_collision(ctx, rep, res)
        except Exception as e:  # noqa
            import traceback
            rep.violation("%s: correspondence raised %s: %s" % (sid, type(e).__name__, e),
                          {"kind": "exception", "session": spec_json(spec), "trace": traceback.format_exc()[-1500:]},
                          concrete=False, match_keys={"kind": "exception"})

    pool = multiprocessing.get_context("fork").Pool(nproc, maxtasksperchild=4)
    try:
        pending = [(s, pool.apply_async(explore_session, ((s, tier, ctx["seed"]),))) for s in specs]
        budget = 160 if tier == "quick" else 1500
        for s, p in pending:
            left = max(5.0, budget - (time.time() - t0))
            try:
                res = p.get(timeout=left)
            except multiprocessing.TimeoutError:
                rep.violation("session %s: exploration did not finish within the budget (a reader stuck outside Python code?)" % s["id"],
                              {"kind": "watchdog", "session": spec_json(s)}, concrete=False, match_keys={"kind": "watchdog"})
                continue
            except Exception as e:  # noqa
                rep.violation("session %s: exploration worker died: %s: %s" % (s["id"], type(e).__name__, e),
                              {"kind": "watchdog", "session": spec_json(s)}, concrete=False, match_keys={"kind": "worker"})
                continue
            results.append(res)
            handle(res)
    finally:
        pool.terminate()
        pool.join()
    rep.extra["outcomes_total"] = dict(total)
    rep.extra["sessions"] = len(results)
    rep.extra["hang_points"] = sum(len(r["hang"]) for r in results if not r["error"])
    rep.extra["explore_wall_s"] = round(time.time() - t0, 1)


# ------------------------------------------------------------------ replay
def replay(d):
    r = d["replay"]
    if r.get("kind") != "crash-image":
        import json
        print(json.dumps(r, default=str)[:2000])
        return 2
    spec = spec_from_json(r["session"])
    old, ops, final, _ = build(spec)
    pw = spec.get("password")
    newmap = open_image(final, pw, timeout=20)
    oldmap = open_image(old, pw, timeout=20) if spec["mode"] == "a" else None
    img = image_at(old, ops, r["k"], r["j"], lost=r.get("lost"))
    res = open_image(img, pw)
    c = classify(res, newmap, oldmap)
    print("session", spec["id"] if "id" in spec else "", "crash point", (r["k"], r["j"]), "lost", r.get("lost"))
    print("old names:", oldmap[1] if oldmap else None)
    print("new names:", newmap[1] if newmap[0] == "ok" else newmap)
    print("crash image (%d bytes) opens as: %s -> %s" % (len(img), repr(res)[:300], c))
    return 1 if c in ("wrong", "hang") else 0
