"""C08 -- append preserves history."""
import glob
import io
import os
import random
import shutil
import tempfile

import py7zr

from harness import arch, c06
from ref import refreader, refwriter

LEVEL = "proof"
TRUSTED_BASE = [
    "Coq 8.16.1 kernel, vm_compute; no axioms",
    "theories/Header.v (parser and writer models) + HeaderProofs.v header_roundtrip (what re-serialisation preserves: `norm`)",
    "theories/Spec.v spec_plans as the meaning of a header; tools/ref (independent writer/reader)",
    "extraction (ExtrOcamlBasic only) + ocaml/driver.ml",
]
ASSUMPTIONS = ["codec libraries are correct", "password constant over a history"]

NAMES = ["a.txt", "dir/b.bin", "dir/sub/c", "üñí.txt", "\U0001F600.bin", "sp ace", ".hidden", "k1", "k2", "k3", "k4", "k5", "k6"]


def opt_int(v):
    return None if v is None else int(v)


# the member map: (name, kind, bytes, (mtime, ctime, atime), attributes) per member; the three times are FILETIME
# integers or None when the entry has none
def member_map_py7zr(data, password=None):
    try:
        with py7zr.SevenZipFile(io.BytesIO(data), "r", password=password) as z:
            meta = [(f.filename, "dir" if f.is_directory else "file",
                     (opt_int(f.lastwritetime), opt_int(f._get_property("creationtime")), opt_int(f._get_property("lastaccesstime"))),
                     f._get_property("attributes")) for f in z.files]
            fac = arch.Collect()
            z.extractall(factory=fac)
            got = fac.as_dict()
        return ("ok", [(n, k, got.get(n, b"") if k == "file" else b"", mt, at) for n, k, mt, at in meta])
    except Exception as e:  # noqa
        return ("err", "%s: %s" % (type(e).__name__, str(e)[:150]))


def member_map_ref(ctx, data, password=None):
    try:
        r = refreader.read_archive(data, ctx["model"], password=password, strict_tiling=False)
        return ("ok", [(m["name"], "dir" if m["kind"] == "dir" else "file", m["data"], (m["mtime"], m["ctime"], m["atime"]), m["attr"])
                       for m in r["members"]])
    except Exception as e:  # noqa
        return ("err", "%s: %s" % (type(e).__name__, str(e)[:150]))


def packed_area(data):
    """(start, end) of the packed streams of the MAIN header as py7zr reads it, or None"""
    try:
        with py7zr.SevenZipFile(io.BytesIO(data), "r") as z:
            ms = z.header.main_streams
            if ms is None or ms.packinfo is None:
                return None
            a = z.afterheader + ms.packinfo.packpos
            return (a, a + sum(ms.packinfo.packsizes)), list(z.getnames())
    except Exception:  # noqa
        return None


def raw_only_case(ctx, rep, rng, idx):
    """bases whose members py7zr cannot decode (BCJ2 ...): appending must still leave every old packed byte and every
    old name in place"""
    fx = [p for p in sorted(glob.glob(os.path.join(os.environ.get("VERIF_REPO", "/repo"), "tests", "data", "*.7z")))
          if os.path.basename(p) in ("lzma_bcj2_1.7z", "lzma2bcj2.7z", "lzma2bcj2_2.7z", "test_lzma2bcj2.7z", "mblock_1.7z", "solid.7z")]
    path = fx[idx % len(fx)]
    data = open(path, "rb").read()
    pa = packed_area(data)
    if pa is None:
        return
    (a, b), names = pa
    bio = io.BytesIO(data)
    tmp = tempfile.mkdtemp(prefix="c08r_")
    try:
        sess = [("writestr", "zz_new_%d" % idx, arch.pattern_bytes(rng, rng.choice([1, 17, 3000]), "random"))]
        try:
            apply_session(bio, "a", sess, rng.choice(arch.FAST_CHAINS), None, "encoded", tmp)
        except Exception as e:  # noqa
            rep.violation("append session raises %s: %s [base %s]" % (type(e).__name__, e, os.path.basename(path)),
                          {"kind": "append-raises", "base": os.path.basename(path)},
                          match_keys={"kind": "append-raises", "base": "fixture-raw", "exc": type(e).__name__})
            return
        new = bio.getvalue()
        rep.count(("c08raw", os.path.basename(path), idx))
        rep.dist("raw_preservation_base", os.path.basename(path))
        if new[a:b] != data[a:b]:
            first = next(i for i in range(a, b) if new[i] != data[i])
            rep.violation("append overwrote packed data of existing members at offset %d (packed area %d..%d) [base %s]" % (
                first, a, b, os.path.basename(path)), {"kind": "packed-overwritten", "base": os.path.basename(path)},
                match_keys={"kind": "packed-overwritten"})
            return
        pb = packed_area(new)
        if pb is None or pb[1][: len(names)] != names or pb[0][0] != a or pb[0][1] < b:
            rep.violation("after an append the old names/packed area are not described any more [base %s]" % os.path.basename(path),
                          {"kind": "history-broken-raw", "base": os.path.basename(path)}, match_keys={"kind": "history-broken-raw"})
    finally:
        shutil.rmtree(tmp, ignore_errors=True)


def gen_session(rng, used, allow_empty=True):
    """a list of (how, name, bytes) for one session; how in writestr / writef / write / dir"""
    n = rng.choice([0, 1, 1, 2, 3]) if allow_empty else rng.choice([1, 2, 3])
    out = []
    for _ in range(n):
        free = [x for x in NAMES if x not in used]
        if not free:
            break
        nm = rng.choice(free)
        used.add(nm)
        how = rng.choice(["writestr", "writestr", "writef", "write", "dir"])
        size = rng.choice([0, 1, 16, 17, 100, 3000])
        out.append((how, nm, b"" if how == "dir" else arch.pattern_bytes(rng, size, rng.choice(["random", "text", "zeros"]))))
    return out


def apply_session(bio, mode, session, chain, password, header_mode, tmp):
    bio.seek(0)
    with py7zr.SevenZipFile(bio, mode, filters=arch.CHAINS[chain], password=password,
                            header_encryption=(header_mode == "encrypted")) as z:
        if header_mode == "raw":
            z.set_encoded_header_mode(False)
        for how, nm, d in session:
            if how == "writestr":
                z.writestr(d, nm)
            elif how == "writef":
                z.writef(io.BytesIO(d), nm)
            elif how == "write":
                p = os.path.join(tmp, "src_%d" % len(os.listdir(tmp)))
                with open(p, "wb") as f:
                    f.write(d)
                z.write(p, nm)
            else:
                p = os.path.join(tmp, "dir_%d" % len(os.listdir(tmp)))
                os.mkdir(p)
                z.write(p, nm)


def history_case(ctx, rep, rng, idx):
    tmp = tempfile.mkdtemp(prefix="c08_")
    try:
        used = set()
        k = rng.choice([1, 1, 2, 3])
        base_kind = ["py7zr", "py7zr", "ref", "fixture"][idx % 4]
        header_mode = rng.choice(["encoded", "encoded", "raw", "encrypted"])
        pw_chain = rng.random() < 0.2
        password = "pw-é" if (pw_chain or header_mode == "encrypted") else None
        chains = [rng.choice(["lzma2+aes", "copy+aes", "deflate+aes"]) if pw_chain else rng.choice(arch.FAST_CHAINS + ["lzma", "ppmd", "x86+lzma2"])
                  for _ in range(k + 1)]
        expected = []       # (name, kind, bytes) ; metadata of earlier members is captured after the base session
        bio = io.BytesIO()
        feats = []
        shape = []
        if base_kind == "py7zr":
            s0 = gen_session(rng, used)
            apply_session(bio, "w", s0, chains[0], password, header_mode, tmp)
            expected += [(nm, "dir" if how == "dir" else "file", d) for how, nm, d in s0]
            shape.append("w:" + ("data" if any(how != "dir" for how, _, _ in s0) else ("dirs" if s0 else "empty")))
        elif base_kind == "ref":
            members = c06.gen_members(rng)
            feature = rng.choice([None, None, "partial_vectors", "packpos", "zero_folder", "partial_crc"])
            feature = rng.choice([None, None, "partial_vectors", "no_substreams"])
            lay = c06.gen_layout(rng, members, feature)
            lay["header"] = "raw" if header_mode == "raw" else lay.get("header", "raw")
            feats = c06.classify(members, lay)
            if any(f in ("dir_without_dir_attribute", "emptyfile_with_dir_attribute") for f in feats):
                # not skipped any more (the C06 finding was repaired): the EmptyFile vector and the odd attribute words
                # must come back unchanged from every session
                rep.dist("base_feature", "dir/empty-file attributes at odds with EmptyFile")
            if any(m["mtime"] is None or m["attr"] is None for m in members):
                feats = sorted(set(feats + ["partial_vectors"]))
            if lay.get("crc") in ("folder", "folder-partial"):
                feats = sorted(set(feats + ["folder_crc"]))
            if lay.get("pack_crc"):
                feats = sorted(set(feats + ["pack_crc"]))
            if any(m["kind"] == "empty" for m in members):
                feats = sorted(set(feats + ["emptyfile_entries"]))
            # creation / access times (7-Zip -mtc/-mta) on some reference-written bases, partly defined; drawn from a
            # generator of its own so that the histories of the other cases stay what they were
            r2 = random.Random(idx * 7919 + 13)
            if r2.random() < 0.4:
                for m in members:
                    m["ctime"] = c06.FT + r2.randrange(10 ** 9) * 10 if r2.random() < 0.7 else None
                    m["atime"] = c06.FT + r2.randrange(10 ** 9) * 10 if r2.random() < 0.7 else None
                if any(m["ctime"] is not None or m["atime"] is not None for m in members):
                    feats = sorted(set(feats + ["ctime_atime"]))
            bio = io.BytesIO(refwriter.write_archive(members, lay))
            for m in members:
                used.add(m["name"])
            expected += [(m["name"], "dir" if m["kind"] == "dir" else "file", m["data"]) for m in members]
            password = None
            header_mode = "raw" if header_mode == "encrypted" else header_mode
            chains = [c for c in (rng.choice(arch.FAST_CHAINS) for _ in range(k + 1))]
            shape.append("ref:" + (",".join(feats) or "plain"))
        else:
            fx = sorted(glob.glob(os.path.join(os.environ.get("VERIF_REPO", "/repo"), "tests", "data", "*.7z")))
            good = [p for p in fx if os.path.basename(p) in ("test_1.7z", "test_2.7z", "test_3.7z", "copy.7z", "solid.7z",
                                                              "mblock_1.7z", "deflate.7z", "bzip2_2.7z", "zstd.7z", "ppmd.7z",
                                                              "lzma_1.7z", "lzma2_1.7z", "symlink.7z", "umlaut-solid.7z",
                                                              "umlaut-non_solid.7z", "zerosize.7z", "test_folder.7z", "copy_2.7z", "test_6.7z")]
            path = rng.choice(good)
            data = open(path, "rb").read()
            base = member_map_py7zr(data)
            if base[0] != "ok":
                return
            bio = io.BytesIO(data)
            expected += [(n, kd, d) for n, kd, d, _, _ in base[1]]
            for n, _, _, _, _ in base[1]:
                used.add(n)
            password = None
            header_mode = "encoded"
            chains = [rng.choice(arch.FAST_CHAINS) for _ in range(k + 1)]
            shape.append("fixture:" + os.path.basename(path))
        # metadata of the base members as read before any append
        base_read = member_map_py7zr(bio.getvalue(), password)
        base_meta = {n: (mt, at) for n, _, _, mt, at in base_read[1]} if base_read[0] == "ok" else None
        base_ref = member_map_ref(ctx, bio.getvalue(), password)
        ref_meta = {n: (mt, at) for n, _, _, mt, at in base_ref[1]} if base_ref[0] == "ok" else None
        for who, g in (("py7zr", base_read), ("reference reader", base_ref)):
            if g[0] != "ok" or [(n, kd, d) for n, kd, d, _, _ in g[1]] != expected:
                if base_kind == "py7zr":
                    rep.violation("%s does not read the freshly created archive as written: %s [history %s]" % (
                        who, g[1] if g[0] != "ok" else [(n, kd, len(d)) for n, kd, d, _, _ in g[1]], " ".join(shape)),
                        {"kind": "create-broken", "history": " ".join(shape), "seed_index": idx},
                        match_keys={"kind": "create-broken", "reader": who.split()[0], "session": shape[0]})
                else:
                    rep.dist("skipped_base", "%s does not read the base as the logical archive" % who)
                return
        key = ("c08", idx, tuple(shape))
        for si in range(1, k + 1):
            sess = gen_session(rng, used)
            kindstr = "data" if any(how != "dir" for how, _, _ in sess) else ("dirs" if sess else "empty")
            shape.append("a:" + kindstr)
            hist = " ".join(shape)
            mk = {"kind": "append", "base": shape[0].split(":")[0], "base_features": ",".join(feats) or "plain"}
            try:
                apply_session(bio, "a", sess, chains[si], password, header_mode, tmp)
            except Exception as e:  # noqa
                rep.count(key + (si,))
                rep.violation("append session raises %s: %s [history %s]" % (type(e).__name__, str(e)[:120], hist),
                              {"kind": "append-raises", "history": hist, "seed_index": idx},
                              match_keys=dict(mk, kind="append-raises", exc=type(e).__name__, session=kindstr,
                                              prev=shape[-2].split(":")[1] if ":" in shape[-2] else ""))
                return
            expected += [(nm, "dir" if how == "dir" else "file", d) for how, nm, d in sess]
            rep.count(key + (si,), nontrivial=bool(sess))
            rep.dist("base", shape[0])
            rep.dist("session_kind", kindstr)
            got = member_map_py7zr(bio.getvalue(), password)
            gotref = member_map_ref(ctx, bio.getvalue(), password)
            for who, g, meta in (("py7zr", got, base_meta), ("reference reader", gotref, ref_meta)):
                bad = None
                if g[0] != "ok":
                    bad = "%s cannot read the archive after session %d: %s" % (who, si, g[1])
                elif [(n, kd, d) for n, kd, d, _, _ in g[1]] != expected:
                    bad = "%s reads %r after session %d, history says %r" % (
                        who, [(n, kd, len(d)) for n, kd, d, _, _ in g[1]], si, [(n, kd, len(d)) for n, kd, d in expected])
                elif meta is not None:
                    for n, kd, d, mt, at in g[1]:
                        if n in meta and meta[n] != (mt, at):
                            bad = ("%s: metadata ((mtime, creation time, access time), attributes) of earlier member %r changed from %r "
                                   "to %r after session %d" % (who, n, meta[n], (mt, at), si))
                            break
                        if n not in meta and (mt[1] is not None or mt[2] is not None):
                            # py7zr stores neither for the members it adds (as 7-Zip without -mtc/-mta)
                            bad = "%s: new member %r carries a creation/access time %r after session %d" % (who, n, mt[1:], si)
                            break
                if bad:
                    rep.violation(bad + " [history %s; base features %s]" % (hist, ",".join(feats) or "plain"),
                                  {"kind": "history-broken", "history": hist, "archive": bio.getvalue().hex()[:200000], "seed_index": idx,
                                   "password": password},
                                  match_keys=dict(mk, reader=who.split()[0]))
                    return
            # the members of this session are "earlier members" for the next one
            if base_meta is not None and got[0] == "ok":
                base_meta = {n: (mt, at) for n, _, _, mt, at in got[1]}
            if ref_meta is not None and gotref[0] == "ok":
                ref_meta = {n: (mt, at) for n, _, _, mt, at in gotref[1]}
            if base_meta is not None and any(v[0][1] is not None or v[0][2] is not None for v in base_meta.values()):
                rep.dist("earlier_members_with_ctime_atime", shape[0])
        if idx < 3:
            rep.sample({"history": " ".join(shape), "members": [(n, kd, len(d)) for n, kd, d in expected]})
    finally:
        shutil.rmtree(tmp, ignore_errors=True)


def run(ctx):
    rep, tier = ctx["rep"], ctx["tier"]
    rng = random.Random(ctx["seed"])
    rep.cov["rule"] = ("histories w a{1..3}: base by py7zr / reference writer (C06 layouts) / tests/data fixture; sessions of 0..3 members "
                       "added via writestr, writef, write(file), write(directory); chains per session; header raw/encoded/encrypted; "
                       "after every session the member map (names, kinds, bytes; mtime, creation time, access time and attributes of every "
                       "earlier member, those of earlier sessions included; new members carry no creation/access time) is read by py7zr "
                       "and by the strict reference reader; non-trivial = non-empty session; distinct by (history index, session)")
    n = 80 if tier == "quick" else 3000
    for i in range(n):
        history_case(ctx, rep, rng, i)
        if len(rep.violations) > 25:
            break
    for i in range(12 if tier == "quick" else 120):
        raw_only_case(ctx, rep, rng, i)
    # correspondence of the append MODEL (Append.v) with the implementation: graph after open / at close / after re-open,
    # seek position, header bytes, tiling of the file image
    from harness import c08model
    c08model.check_append_model(ctx, rep, rng, tier)


def replay(d):
    print(str(d["replay"])[:300], d["what"][:500])
    return 2
