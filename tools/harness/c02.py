"""C02 -- directory tree round trip with metadata (writeall -> extractall).

Proof side (coq/props/C02.v): attribute coding for every st_mode (Mode.v/ModeProofs.v), the tree walk and
its reconstruction (Walk.v), the FILETIME conversion in binary64 (FileTime.v, Flocq).
This module ties the model to the code and explores the code:

  corr_attributes  _make_file_info on real files/directories/links of every S_IMODE vs classify/attributes_of;
                   ArchiveFile decoders vs decode_attr on produced, structured and random attribute words
  corr_filetime    ArchiveTimestamp.from_datetime / totimestamp vs the binary64 model, bit-exact
  corr_sort        sorted() of names and of PurePaths vs sort_ch / sort_paths
  explore          generated trees x (path form, arcname, dereference, password, entry point): members of the
                   archive vs walk; extracted tree vs rebuild(walk); extracted tree vs the source tree (the property)
"""
import fractions
import hashlib
import json
import math
import multiprocessing
import os
import pathlib
import random
import shutil
import stat
import sys
import tempfile
import time
import traceback

GEN_DEPS = ["ArchiveFile._test_attribute", "ArchiveFile._get_unix_extension", "ArchiveFile.archivable",
            "ArchiveFile.is_directory", "ArchiveFile.readonly", "ArchiveFile.is_symlink", "ArchiveFile.is_junction",
            "ArchiveFile.is_socket", "ArchiveFile.posix_mode", "ArchiveFile.st_fmt"]
LEVEL = "proof"
TRUSTED_BASE = [
    "Coq 8.16.1 kernel, vm_compute; FileTime.v: Flocq 4.1.0 binary64 and the standard library's classical reals "
    "(axioms sig_forall_dec, sig_not_dec, classic, functional_extensionality_dep); Mode.v/ModeProofs.v/Walk.v closed",
    "extraction (ExtrOcamlBasic only) + ocaml/driver.ml for running the model",
    "tools/translate.py + theories/PyPrims.v, PyStr.v, PyStat.v (semantics of the Python primitives and of the stat module; "
    "differential-tested here by harness/prims.py): the C02_gen_* theorems are about coq/gen/AttrDecoders.v, regenerated "
    "from class ArchiveFile of py7zr/py7zr.py on this run",
    "theories/Mode.v as transcription of _make_file_info, ArchiveFile, _writeall, _find_link_target, "
    "_sanitize_archive_arcname, _extract, _extract_single (correspondence checked here on every run)",
    "Linux VFS semantics of mkdir/open/symlink/chmod/utime as summarised by Mode.alter and the f_* functions",
    "CPython 3.12 float arithmetic = IEEE-754 binary64 round-to-nearest-even; sorted() of str by code point; "
    "PurePath ordering by parts",
]
ASSUMPTIONS = [
    "an entry (name, attributes, emptystream, lastwritetime, data) survives storage in the archive (C01, C06, C07, C17)",
    "names are Unicode scalar values without '/', '\\\\', NUL; components are not '', '.', '..'; UTF-8 and '/'-joining "
    "are invertible on them",
    "links are relative, their text stays lexically inside the tree; absolute link texts and links that leave the "
    "destination are outside the model",
    "dereference of cyclic links (cut by the kernel's ELOOP) is outside the model",
    "the checks run as root: DAC permission checks are bypassed by the kernel; that members of a directory of mode "
    "0o500 can be created is shown structurally (chmod happens in the post-pass) and by the unprivileged sub-run "
    "when setuid to nobody is possible",
    "st_mtime (float) <-> st_mtime_ns and os.utime's float -> timespec conversion are CPython's; the 5 microsecond "
    "bound on them is checked by exploration, the FILETIME conversion in between is proved",
]

UMASK = 0o022
LIMIT_NS = 5000
DEST0 = [1, 0, 0, []]

# ---------------------------------------------------------------------------------------------- helpers


def nm(s):
    return [ord(c) for c in s]


def unnm(l):
    return "".join(chr(c) for c in l)


def digest(b):
    return hashlib.sha1(b).digest()


def file_bytes(spec):
    from harness import arch
    if "hex" in spec:
        return bytes.fromhex(spec["hex"])
    return arch.pattern_bytes(random.Random(spec.get("seed", 0)), spec["size"], spec.get("tex", "random"))


def build_tree(spec, path, top=True):
    """create the tree described by spec at path (path must not exist); modes and times are set bottom-up"""
    k = spec["k"]
    if k == "f":
        with open(path, "wb") as f:
            f.write(file_bytes(spec))
        os.chmod(path, spec["m"])
        os.utime(path, ns=(spec["ns"], spec["ns"]))
    elif k == "l":
        os.symlink(spec["to"], path)
    else:
        os.mkdir(path)
        for n, c in spec["c"]:
            build_tree(c, os.path.join(path, n), False)
        os.chmod(path, spec["m"])
        os.utime(path, ns=(spec["ns"], spec["ns"]))


def snap(root, follow=False, limit=4000, depth=0, out=None, rel=""):
    """{relative path: (kind, mode, content-or-text, mtime_ns)}; '' is the root itself.
    follow: stat() semantics (what dereference should produce); raises RecursionError on runaway expansion"""
    if out is None:
        out = {}
    if len(out) > limit or depth > 40:
        raise RecursionError("expansion too large")
    st = os.stat(root) if follow else os.lstat(root)
    if stat.S_ISLNK(st.st_mode):
        out[rel] = ("link", 0, os.readlink(root), 0)
    elif stat.S_ISDIR(st.st_mode):
        out[rel] = ("dir", stat.S_IMODE(st.st_mode), None, st.st_mtime_ns)
        for n in sorted(os.listdir(root)):
            snap(os.path.join(root, n), follow, limit, depth + 1, out, (rel + "/" + n) if rel else n)
    else:
        with open(root, "rb") as f:
            out[rel] = ("file", stat.S_IMODE(st.st_mode), f.read(), st.st_mtime_ns)
    return out


def float_me(x):
    n, d = x.as_integer_ratio()
    return [n, -(d.bit_length() - 1)]


def me_fraction(me):
    m, e = me
    return fractions.Fraction(m) * (fractions.Fraction(2) ** e)


_FT_CACHE = {}


def model_ft(model, x):
    """FILETIME of the float timestamp x by the model"""
    if x not in _FT_CACHE:
        r = model.call("from_datetime", float_me(x))
        _FT_CACHE[x] = r[0] if r else None
    return _FT_CACHE[x]


def model_node(model, path):
    """the source tree as the model's node (contents replaced by their SHA-1: the model never looks inside)"""
    st = os.lstat(path)
    if stat.S_ISLNK(st.st_mode):
        return [2, [nm(c) for c in os.readlink(path).split("/")]]
    if stat.S_ISDIR(st.st_mode):
        return [1, stat.S_IMODE(st.st_mode), model_ft(model, st.st_mtime),
                [[nm(n), model_node(model, os.path.join(path, n))] for n in os.listdir(path)]]
    with open(path, "rb") as f:
        return [0, stat.S_IMODE(st.st_mode), model_ft(model, st.st_mtime), list(digest(f.read()))]


def node_to_map(node, rel="", out=None):
    """model node -> {relative path: (kind, mode, digest-or-text, ft)}"""
    if out is None:
        out = {}
    if node[0] == 0:
        out[rel] = ("file", node[1], bytes(node[3]), node[2])
    elif node[0] == 2:
        out[rel] = ("link", 0, "/".join(unnm(c) for c in node[1]), 0)
    else:
        out[rel] = ("dir", node[1], None, node[2])
        for n, c in node[3]:
            s = unnm(n)
            node_to_map(c, (rel + "/" + s) if rel else s, out)
    return out


def utime_ns(x):
    """st_mtime_ns after os.utime(times=(x, x)): CPython's float -> timespec conversion (round towards -inf)"""
    fp, ip = math.modf(x)
    fp *= 1e9
    ns = math.floor(fp)
    sec = int(ip)
    if ns >= 10 ** 9:
        ns -= 10 ** 9
        sec += 1
    elif ns < 0:
        ns += 10 ** 9
        sec -= 1
    return sec * 10 ** 9 + ns


_TS_CACHE = {}


def model_ts(model, ft):
    if ft not in _TS_CACHE:
        r = model.call("totimestamp", ft)
        _TS_CACHE[ft] = float(me_fraction(r[0])) if r else None
    return _TS_CACHE[ft]


# ---------------------------------------------------------------------------------------------- generation
SIMPLE = ["a", "b", "c", "d", "e", "f", "x", "y", "z", "aa", "ab", "abc", "a.b", "a-b", "a_b", "A", "B", "Z", "_", "0",
          "1", "10", "2", "data", "src", "lib", "x.txt", "README", "a.tar.gz", "b.7z", "out", "tmp", "r", "p"]
SPECIAL = [" lead", "trail ", "a b", "a\nb", "\x01", "\x7f", "-x", "--", "~", "*?", "...", ".hidden", "..a", "a..",
           "\u00e9", "e\u0301", "\u00df", "\u1e9e", "\U0001F600", "\u65e5\u672c\u8a9e", "\u200b", "\ufeff", "a:b", "ab:c",
           ":", "1:x", "\u0660", "\uffff", "\ud7ff", "\ue000", "\U0010ffff", "\u0130", "\u212a", "a\tb", "'", "\"", "$HOME",
           "%s", "\u202e", "con", "nul.txt", "x" * 255, "\u00e9" * 127, "\U0001F600" * 63, "a" * 100]
DRIVE = ["c:foo", "C:", "d:", "z:z", "Q:x y", "e:\u00e9"]


def rand_name(rng, used, allow_drive=False):
    for _ in range(50):
        r = rng.random()
        if r < 0.55:
            n = rng.choice(SIMPLE)
        elif r < 0.85:
            n = rng.choice(SPECIAL)
        elif allow_drive and r < 0.88:
            n = rng.choice(DRIVE)
        else:
            ln = rng.choice([1, 1, 2, 3, 8])
            cs = []
            while len(cs) < ln:
                c = rng.choice([rng.randrange(1, 0x80), rng.randrange(0x80, 0x800), rng.randrange(0x800, 0x10000),
                                rng.randrange(0x10000, 0x110000)])
                if 0xD800 <= c <= 0xDFFF or c in (0x2F, 0x5C, 0):
                    continue
                cs.append(chr(c))
            n = "".join(cs)
        if n in (".", "..", "") or n in used or len(n.encode("utf-8")) > 255:
            continue
        if not allow_drive and len(n) >= 2 and n[1] == ":" and n[0].isascii() and n[0].isalpha():
            continue
        return n
    i = 0
    while "n%d" % i in used:
        i += 1
    return "n%d" % i


def rand_ns(rng):
    r = rng.random()
    if r < 0.12:
        return rng.choice([0, 1, 999, 999999999, 10 ** 9, 2 ** 31 * 10 ** 9 - 1, 2 ** 31 * 10 ** 9, 2 ** 31 * 10 ** 9 + 1,
                           2 ** 32 * 10 ** 9 - 1, 2 ** 32 * 10 ** 9 + 1, 4102444799999999999, 4102444800000000000,
                           1234567890123456789, 1600000000000000050, 951782400000000000, 2777068800 * 10 ** 9 + 5])
    if r < 0.3:
        return rng.randrange(0, 4102444800) * 10 ** 9 + rng.choice([0, 1, 5 * 10 ** 8, 999999999, 100, 999999900, 123456789])
    return rng.randrange(0, 4102444800 * 10 ** 9)


def rand_fmode(rng):
    r = rng.random()
    if r < 0.25:
        return rng.choice([0o400, 0o444, 0o600, 0o644, 0o640, 0o755, 0o777, 0o500, 0o700, 0o666, 0o401])
    m = 0o400 | rng.randrange(0, 0o400)
    if rng.random() < 0.08:
        m |= rng.choice([0o4000, 0o2000, 0o1000, 0o6000, 0o7000])
    return m


def rand_dmode(rng):
    r = rng.random()
    if r < 0.25:
        return rng.choice([0o500, 0o555, 0o700, 0o755, 0o750, 0o777, 0o711, 0o501, 0o510])
    m = 0o500 | rng.randrange(0, 0o100) | (0o200 if rng.random() < 0.7 else 0)
    if rng.random() < 0.08:
        m |= rng.choice([0o1000, 0o2000, 0o3000])
    return m


def rand_file(rng, tier):
    r = rng.random()
    if r < 0.22:
        size = 0
    elif r < 0.5:
        size = rng.randrange(1, 64)
    elif r < 0.85:
        size = rng.randrange(64, 5000)
    elif r < 0.97:
        size = rng.choice([32767, 32768, 32769, 65536, 100000, 131071])
    else:
        size = rng.randrange(200000, 1200000 if tier == "quick" else 5000000)
    return {"k": "f", "m": rand_fmode(rng), "ns": rand_ns(rng), "size": size, "seed": rng.randrange(1 << 30),
            "tex": rng.choice(["random", "text", "zeros", "period", "code"])}


def rand_dir(rng, tier, depth, maxdepth, budget, allow_drive=False):
    """budget: mutable [remaining nodes]"""
    d = {"k": "d", "m": rand_dmode(rng), "ns": rand_ns(rng), "c": []}
    if depth >= maxdepth:
        nch = 0
    else:
        nch = rng.choice([0, 1, 2, 2, 3, 3, 4, 5])
    used = set()
    for _ in range(nch):
        if budget[0] <= 0:
            break
        budget[0] -= 1
        n = rand_name(rng, used, allow_drive)
        used.add(n)
        if depth + 1 <= maxdepth and rng.random() < 0.42:
            c = rand_dir(rng, tier, depth + 1, maxdepth, budget, allow_drive)
        else:
            c = rand_file(rng, tier)
        d["c"].append([n, c])
    return d


def all_nodes(spec, p=()):
    yield p, spec
    if spec["k"] == "d":
        for n, c in spec["c"]:
            yield from all_nodes(c, p + (n,))


def rel_text(src_dir, target):
    """relative text from directory src_dir (tuple) to target (tuple)"""
    i = 0
    while i < len(src_dir) and i < len(target) and src_dir[i] == target[i]:
        i += 1
    parts = [".."] * (len(src_dir) - i) + list(target[i:])
    return "/".join(parts) if parts else "."


def add_links(rng, spec, nlinks, unnormalised=False):
    for _ in range(nlinks):
        nodes = list(all_nodes(spec))
        dirs = [(p, s) for p, s in nodes if s["k"] == "d"]
        dp, dspec = rng.choice(dirs)
        cands = [(p, s) for p, s in nodes if p != dp]
        if not cands:
            continue
        tp, tspec = rng.choice(cands)
        text = rel_text(dp, tp)
        if text == ".":
            continue
        if unnormalised:
            forms = ["./" + text, "././" + text]
            if "/" in text:
                forms.append(text.replace("/", "//", 1))
                forms.append(text.replace("/", "/./", 1))
            if tspec["k"] == "d":
                forms += [text + "/", text + "/.", "./" + text + "/"]
            text = rng.choice(forms)
        used = {n for n, _ in dspec["c"]}
        n = rand_name(rng, used)
        dspec["c"].append([n, {"k": "l", "to": text}])


def gen_tree(rng, tier, maxdepth, cls="clean"):
    budget = [rng.choice([3, 6, 10, 16, 25]) if tier == "quick" else rng.choice([4, 10, 20, 40, 80])]
    spec = rand_dir(rng, tier, 0, maxdepth, budget, allow_drive=(cls == "drive"))
    if cls == "drive" and not any(n[1:2] == ":" for n, _ in spec["c"]):
        spec["c"].append([rng.choice(DRIVE), rand_file(rng, tier) if rng.random() < 0.6 else
                          {"k": "d", "m": 0o755, "ns": rand_ns(rng), "c": [["q:r", rand_file(rng, tier)]] if rng.random() < 0.5 else []}])
    if cls == "nolinks":
        return spec
    nl = rng.choice([0, 1, 2, 3, 5])
    if cls in ("capture", "unnorm") and nl == 0:
        nl = 2
    add_links(rng, spec, nl, unnormalised=(cls == "unnorm"))
    if cls == "capture":
        # a link in a subdirectory whose text, read from the root, names an earlier member
        dirs = [(p, s) for p, s in all_nodes(spec) if s["k"] == "d" and len(p) >= 1]
        if not dirs:
            sub = {"k": "d", "m": 0o755, "ns": rand_ns(rng), "c": []}
            spec["c"].append(["sub", sub])
            dirs = [(("sub",), sub)]
        dp, dspec = rng.choice(dirs)
        n = "aaa"
        if not any(x == n for x, _ in spec["c"]):
            spec["c"].append([n, rand_file(rng, tier)])
        if not any(x == n for x, _ in dspec["c"]):
            dspec["c"].append([n, rand_file(rng, tier)])
        if not any(x == "zz_link" for x, _ in dspec["c"]):
            dspec["c"].append(["zz_link", {"k": "l", "to": n}])
    return spec


MODES = ["dot", "rel", "abs", "arc", "arc2", "dotarc", "cwdsub"]


def gen_cfg(rng, spec, cls):
    r = rng.random()
    if cls == "capture":
        mode = rng.choice(["dot", "dot", "dotarc", "rel"])
    elif cls == "drive":
        mode = rng.choice(["dot", "dot", "arc", "rel"])
    elif cls == "cwd":          # the current directory is inside the tree / is the root with an arcname
        mode = rng.choice(["dotarc", "cwdsub", "cwdsub"])
    else:
        mode = rng.choice(["dot", "dot", "rel", "rel", "abs", "arc", "arc", "arc2"])
    cfg = {"mode": mode, "deref": False, "pw": None, "entry": "api", "relout": rng.random() < 0.3}
    if cls in ("clean", "nolinks"):
        r = rng.random()
        if r < 0.25:
            cfg["deref"] = True
        elif r < 0.33:
            cfg["pw"] = "s\u00e9cret"
        elif r < 0.45 and mode in ("dot", "rel"):
            cfg["entry"] = "shutil"
        elif r < 0.55 and mode in ("rel", "abs"):
            cfg["entry"] = "cli"
    if cfg["entry"] == "api" and rng.random() < 0.08:
        cfg["xnone"] = True       # extractall() without a path, in the destination as current directory
    if mode == "cwdsub":
        dirs = [p for p, s in all_nodes(spec) if s["k"] == "d" and len(p) >= 1]
        cfg["cwd"] = list(rng.choice(dirs)) if dirs else []
        if not dirs:
            cfg["mode"] = "dotarc"
    return cfg


# ---------------------------------------------------------------------------------------------- one case
def register_shutil():
    import py7zr
    try:
        shutil.register_archive_format("7zip", py7zr.pack_7zarchive, description="7zip archive")
    except Exception:  # noqa
        pass
    try:
        shutil.register_unpack_format("7zip", [".7z"], py7zr.unpack_7zarchive)
    except Exception:  # noqa
        pass


def pathlib_norm(text):
    return pathlib.PurePosixPath(text).as_posix()


def run_impl(spec, cfg, base):
    """build the tree, archive it, extract it.  Returns dict with: src (root of the source tree), prefix (where the
    tree is expected below the destination), out, members, exc"""
    import py7zr
    os.umask(UMASK)
    work = os.path.join(base, "w")
    os.mkdir(work)
    src = os.path.join(work, "src")
    build_tree(spec, src)
    try:
        expmap = snap(src, follow=cfg["deref"])
    except (RecursionError, OSError) as e:
        return {"src": src, "skip": "cyclic under dereference: %s" % type(e).__name__}
    ar = os.path.join(base, "t.7z")
    out = os.path.join(base, "out")
    mode = cfg["mode"]
    res = {"src": src, "ar": ar, "out": out, "exc": None, "stage": None, "expmap": expmap}
    arcname = None
    if mode == "dot":
        cwd, path, prefix = src, ".", []
    elif mode == "rel":
        cwd, path, prefix = work, "src", ["src"]
    elif mode == "abs":
        cwd, path, prefix = base, src, [c for c in src.split("/") if c]
    elif mode == "arc":
        cwd, path, arcname, prefix = base, src, "x", ["x"]
    elif mode == "arc2":
        cwd, path, arcname, prefix = work, "src", "x/y z", ["x", "y z"]
    elif mode == "dotarc":
        cwd, path, arcname, prefix = src, ".", "x", ["x"]
    elif mode == "cwdsub":
        cwd, path, arcname, prefix = os.path.join(src, *cfg["cwd"]), src, "r", ["r"]
    else:
        raise ValueError(mode)
    res["prefix"] = prefix
    res["ctx"] = [1 if (mode in ("abs", "arc", "cwdsub")) else 0,
                  [nm(c) for c in path.split("/") if c and c != "."],
                  [[nm(c) for c in arcname.split("/")]] if arcname is not None else [],
                  1 if cfg["deref"] else 0]
    os.chdir(cwd)
    try:
        res["stage"] = "write"
        if cfg["entry"] == "shutil":
            register_shutil()
            if mode == "dot":
                shutil.make_archive(os.path.join(base, "t"), "7zip", root_dir=src)
            else:
                shutil.make_archive(os.path.join(base, "t"), "7zip", root_dir=work, base_dir="src")
        elif cfg["entry"] == "cli":
            from py7zr.cli import Cli
            rc = Cli().run(["c", ar, path])
            if rc != 0:
                raise RuntimeError("cli c returned %r" % rc)
        else:
            with py7zr.SevenZipFile(ar, "w", dereference=cfg["deref"], password=cfg["pw"]) as z:
                z.writeall(path, arcname)
        os.chdir(base)
        res["stage"] = "list"
        with py7zr.SevenZipFile(ar, "r", password=cfg["pw"]) as z:
            members = []
            for f in z.files:
                members.append([f.filename, f._file_info.get("attributes"), bool(f.emptystream),
                                int(f.lastwritetime) if f.lastwritetime is not None else None])
            from harness import arch
            fac = arch.Collect()
            z.extractall(factory=fac)
            res["members"] = members
            res["contents"] = fac.as_list()
        res["stage"] = "extract"
        odir = "out" if cfg.get("relout") else out
        if cfg["entry"] == "shutil":
            shutil.unpack_archive(ar, odir, "7zip")
        elif cfg["entry"] == "cli":
            from py7zr.cli import Cli
            rc = Cli().run(["x", ar, odir])
            if rc != 0:
                raise RuntimeError("cli x returned %r" % rc)
        elif cfg.get("xnone"):
            os.makedirs(out)
            os.chdir(out)
            with py7zr.SevenZipFile(ar, "r", password=cfg["pw"]) as z:
                z.extractall()
        else:
            with py7zr.SevenZipFile(ar, "r", password=cfg["pw"]) as z:
                z.extractall(odir)
        res["stage"] = "done"
    except BaseException as e:  # noqa
        res["exc"] = [type(e).__name__, str(e)[:300], traceback.format_exc()[-1200:]]
    finally:
        os.chdir(base)
    return res


def classify_diff(p, exp, got, expmap, gotmap, cfg, spec):
    """name of the known defect shape a difference belongs to, or 'unclassified'"""
    mode = cfg["mode"]
    if exp is not None and got is not None and exp[0] == "link" and got[0] == "link":
        if pathlib_norm(exp[2]) == got[2]:
            return "link-text-normalised"
        return "unclassified"
    if mode == "dot":
        # first components that _sanitize_archive_arcname mangles, and the names they turn into
        def drive(t):
            return len(t) >= 2 and t[1] == ":" and t[0].isascii() and t[0].isalpha()
        top = p.split("/")[0]
        if drive(top):
            return "drive-letter-name"
        for q in expmap:
            t = q.split("/")[0]
            if drive(t):
                rest = q.split("/")[1:]
                mangled = ([t[2:]] if t[2:] else []) + rest
                tgt = "/".join(mangled)
                if p == tgt or p.startswith(tgt + "_") or p.startswith(tgt + "/") or (tgt and tgt.startswith(p + "/")):
                    return "drive-letter-name"
    return "unclassified"


def compare_property(expmap, gotmap, cfg, spec, root_has_entry):
    """the property: extracted == source.  Returns list of (path, class, text)"""
    diffs = []
    for p in sorted(set(expmap) | set(gotmap)):
        e, g = expmap.get(p), gotmap.get(p)
        if p == "" and not root_has_entry:
            continue
        what = None
        if e is None:
            what = "extra %s" % (g[0],)
        elif g is None:
            what = "missing %s" % (e[0],)
        elif e[0] != g[0]:
            what = "kind %s -> %s" % (e[0], g[0])
        elif e[0] == "link":
            if e[2] != g[2]:
                what = "link text %r -> %r" % (e[2], g[2])
        else:
            if e[0] == "file" and e[2] != g[2]:
                what = "content differs (%d -> %d bytes)" % (len(e[2]), len(g[2]))
            elif e[1] != g[1]:
                what = "mode %o -> %o" % (e[1], g[1])
            elif abs(e[3] - g[3]) > LIMIT_NS:
                what = "mtime %d -> %d (%d ns)" % (e[3], g[3], g[3] - e[3])
        if what:
            diffs.append((p, classify_diff(p, e, g, expmap, gotmap, cfg, spec), what))
    return diffs


_MODEL = None


def get_model():
    global _MODEL
    if _MODEL is None:
        import vlib
        _MODEL = vlib.Model()
    return _MODEL


def sub(m, prefix):
    """the part of a path map below prefix, re-rooted; None if the prefix is absent"""
    pre = "/".join(prefix)
    if not pre:
        return dict(m)
    if pre not in m:
        return None
    out = {}
    for p, v in m.items():
        if p == pre:
            out[""] = v
        elif p.startswith(pre + "/"):
            out[p[len(pre) + 1:]] = v
    return out


def run_case(arg):
    """worker: returns a JSON-able result"""
    spec, cfg, use_model = arg["spec"], arg["cfg"], arg.get("model", True)
    base = tempfile.mkdtemp(prefix="c02_")
    r = {"cfg": cfg, "diffs": [], "model": [], "exc": None, "stats": {}}
    try:
        t0 = time.time()
        res = run_impl(spec, cfg, base)
        if res.get("skip"):
            r["skip"] = res["skip"]
            return r
        r["exc"] = res["exc"]
        r["stage"] = res["stage"]
        src = res["src"]
        nodes = list(all_nodes(spec))
        r["stats"] = {"nodes": len(nodes), "links": sum(1 for _, s in nodes if s["k"] == "l"),
                      "empty_dirs": sum(1 for _, s in nodes if s["k"] == "d" and not s["c"]),
                      "empty_files": sum(1 for _, s in nodes if s["k"] == "f" and s.get("size", 1) == 0),
                      "depth": max(len(p) for p, _ in nodes),
                      "bytes": sum(s.get("size", len(s.get("hex", "")) // 2) for _, s in nodes if s["k"] == "f")}
        # ---- expected by the property
        expmap = res["expmap"]
        root_has_entry = cfg["mode"] not in ("dot",)
        gotmap = None
        if res["exc"] is None:
            allout = snap(res["out"]) if os.path.isdir(res["out"]) else {"": ("dir", 0, None, 0)}
            gotmap = sub(allout, res["prefix"])
            if gotmap is None:
                gotmap = {}
            # nothing but the prefix chain may exist outside the subtree
            pre = "/".join(res["prefix"])
            for p in allout:
                if p and not (p == pre or p.startswith(pre + "/") or pre.startswith(p + "/")) and pre:
                    r["diffs"].append((p, "unclassified", "path outside the expected prefix"))
            r["diffs"] += compare_property(expmap, gotmap, cfg, spec, root_has_entry)
        else:
            cls = "unclassified"
            if res["exc"][0] == "AbsolutePathError" and cfg["mode"] in ("dot",):
                cls = "drive-letter-name"
            r["diffs"].append(("", cls, "exception at stage %s: %s: %s" % (res["stage"], res["exc"][0], res["exc"][1])))
        # ---- the model
        if use_model:
            model = get_model()
            mnode = model_node(model, src)
            ctx = res["ctx"]
            w = model.call("walk", [ctx, mnode])
            if res["exc"] is not None and res["stage"] == "write":
                if w[0] == 0:
                    r["model"].append("writeall raised %s but the model's walk succeeds" % res["exc"][0])
            elif "members" in res:
                if w[0] != 0:
                    r["model"].append("model walk fails (%r) but writeall succeeded" % (w[1],))
                else:
                    ents = w[1]
                    cont_it = iter(res["contents"])     # products of the non-directory members, in member order
                    real = res["members"]
                    if len(ents) != len(real):
                        r["model"].append("member count: model %d, archive %d" % (len(ents), len(real)))
                    for i, (e, m) in enumerate(zip(ents, real)):
                        name = "/".join(unnm(c) for c in e[0]) or "."
                        if name != m[0]:
                            r["model"].append("member %d name: model %r, archive %r" % (i, name, m[0]))
                            break
                        if e[2] != m[1] or bool(e[4]) != m[2]:
                            r["model"].append("member %r: model attr %x empty %d, archive attr %r empty %r" % (name, e[2], e[4], m[1], m[2]))
                        is_link = (e[2] >> 16) & 0o170000 == 0o120000
                        if not is_link and e[3] != m[3]:
                            r["model"].append("member %r: model FILETIME %d, archive %r" % (name, e[3], m[3]))
                        if not (e[2] & 0x10):
                            b = next(cont_it, (None, None))[1]
                            if b is None:
                                r["model"].append("member %r: no content read from the archive" % name)
                            elif is_link:
                                if b.decode("utf-8") != unnm(e[5]):
                                    r["model"].append("member %r: link text model %r, archive %r" % (name, unnm(e[5]), b))
                            elif digest(b) != bytes(e[5]):
                                r["model"].append("member %r: content differs from the source file" % name)
            if res["exc"] is None:
                rt = model.call("roundtrip", [ctx, mnode, DEST0])
                if rt[0] != 0:
                    r["model"].append("model round trip fails (%r) but the implementation succeeded" % (rt[1],))
                else:
                    mm = node_to_map(rt[1])
                    allout = snap(res["out"]) if os.path.isdir(res["out"]) else {"": ("dir", 0, None, 0)}
                    for p in sorted(set(mm) | set(allout)):
                        if p == "":
                            continue
                        a, b = mm.get(p), allout.get(p)
                        if a is None or b is None or a[0] != b[0]:
                            r["model"].append("extracted %r: model %s, implementation %s" % (p, a and a[0], b and b[0]))
                            continue
                        if a[0] == "link":
                            if a[2] != b[2]:
                                r["model"].append("extracted link %r: model %r, implementation %r" % (p, a[2], b[2]))
                            continue
                        if a[1] != b[1]:
                            r["model"].append("extracted %r: mode model %o, implementation %o" % (p, a[1], b[1]))
                        if a[0] == "file" and a[2] != digest(b[2]):
                            r["model"].append("extracted %r: content" % p)
                        if a[3] != 0:
                            ts = model_ts(model, a[3])
                            if ts is None or utime_ns(ts) != b[3]:
                                r["model"].append("extracted %r: mtime_ns model %r (FILETIME %d), implementation %d" % (
                                    p, ts is not None and utime_ns(ts), a[3], b[3]))
            elif res["stage"] == "extract":
                rt = model.call("roundtrip", [ctx, mnode, DEST0])
                if rt[0] == 0 and not cfg.get("xnone"):
                    r["model"].append("extractall raised %s but the model's rebuild succeeds" % res["exc"][0])
        # an exception in writeall('.') on a tree with a letter+colon name at the top, which the model (that has
        # _sanitize_archive_arcname in it) predicts as well, belongs to that defect
        if res["exc"] is not None and cfg["mode"] == "dot" and not r["model"] and any(
                len(n) >= 2 and n[1] == ":" and n[0].isascii() and n[0].isalpha() for n, _ in spec.get("c", [])):
            predicted = True
            if use_model:
                if res["stage"] == "write":
                    predicted = w[0] != 0
                elif res["stage"] == "extract":
                    predicted = model.call("roundtrip", [ctx, mnode, DEST0])[0] != 0
            if predicted:
                r["diffs"] = [(p, "drive-letter-name" if c == "unclassified" and w_.startswith("exception") else c, w_)
                              for p, c, w_ in r["diffs"]]
        r["time"] = round(time.time() - t0, 3)
        r["model"] = r["model"][:6]
        r["diffs"] = [list(d) for d in r["diffs"][:12]]
    except BaseException as e:  # noqa
        r["crash"] = traceback.format_exc()[-1500:]
    finally:
        os.chdir("/")
        for dp, dns, fns in os.walk(base):
            for d in dns:
                try:
                    os.chmod(os.path.join(dp, d), 0o700)
                except OSError:
                    pass
        shutil.rmtree(base, ignore_errors=True)
    return r


# ---------------------------------------------------------------------------------------------- correspondence
def corr_attributes(ctx, rep, rng, tier):
    import py7zr
    from py7zr.py7zr import ArchiveFile
    model = ctx["model"]
    base = tempfile.mkdtemp(prefix="c02a_")
    bad = []
    words = set()
    try:
        f = os.path.join(base, "f")
        d = os.path.join(base, "d")
        open(f, "wb").write(b"x")
        os.mkdir(d)
        os.symlink("f", os.path.join(base, "lf"))
        os.symlink("d", os.path.join(base, "ld"))
        os.symlink("nowhere", os.path.join(base, "lx"))
        os.mkfifo(os.path.join(base, "fifo"))
        step = 1 if tier == "thorough" else 1
        imodes = range(0, 4096, step)
        for m in imodes:
            os.chmod(f, m)
            os.chmod(d, m)
            for name, deref in (("f", False), ("d", False), ("lf", False), ("lf", True), ("ld", True), ("ld", False)):
                if name.startswith("l") and m % 64 != 0 and tier == "quick":
                    continue
                p = pathlib.Path(base, name)
                info = py7zr.SevenZipFile._make_file_info(p, "n", deref)
                lm, sm = p.lstat().st_mode, p.stat().st_mode
                mk = model.call("classify", [1 if deref else 0, lm, sm])
                rep.count(("mfi", name, deref, m), nontrivial=True)
                if not mk or mk[0][1] != info["attributes"] or bool(mk[0][2]) != info["emptystream"]:
                    bad.append("_make_file_info(%s, dereference=%s) st_mode %o/%o: attributes %x emptystream %s; model %r" % (
                        name, deref, lm, sm, info["attributes"], info["emptystream"], mk))
                    continue
                k = mk[0][0]
                a2 = model.call("attributes_of", [k, sm if deref else lm])
                if a2 != info["attributes"]:
                    bad.append("attributes_of(%d, %o) = %x, implementation %x" % (k, lm, a2, info["attributes"]))
                words.add(info["attributes"])
                if info["attributes"] >> 32:
                    bad.append("attributes %x do not fit 32 bits" % info["attributes"])
        # no branch: fifo, dangling link under dereference (f has no 'attributes')
        for name, deref in (("fifo", False), ("lx", True)):
            p = pathlib.Path(base, name)
            try:
                info = py7zr.SevenZipFile._make_file_info(p, "n", deref)
                has = "attributes" in info
            except OSError:
                has = None
            if name == "fifo":
                mk = model.call("classify", [0, p.lstat().st_mode, p.lstat().st_mode])
                if has or mk:
                    bad.append("fifo: implementation has attributes=%r, model %r" % (has, mk))
    finally:
        shutil.rmtree(base, ignore_errors=True)
    # decoders
    vals = [None] + sorted(words)
    vals += [1 << i for i in range(32)] + [0, 0xFFFFFFFF, 0x8000, 0x8010, 0x8020, 0x8400, 0x410, 0x400, 0x10, 0x20, 0x1]
    for fmt in range(16):
        for low in (0, 0x10, 0x20, 0x400, 0x410, 0x8000, 0x8010, 0x8420, 0x8001, 0x1):
            vals.append(((fmt << 12 | 0o644) << 16) | low)
    for _ in range(4000 if tier == "quick" else 150000):
        vals.append(rng.getrandbits(32))
    for v in vals:
        af = ArchiveFile(0, {"attributes": v})
        real = [af.is_directory, af.is_symlink, af.is_junction, af.is_socket, af.readonly, af.posix_mode, af.st_fmt]
        md = model.call("decode_attr", [] if v is None else [v])
        mreal = [bool(md[0]), bool(md[1]), bool(md[2]), bool(md[3]), bool(md[4]), md[5][0] if md[5] else None,
                 md[6][0] if md[6] else None]
        rep.count(("dec", v), nontrivial=v is not None and v != 0)
        if real != mreal:
            bad.append("ArchiveFile decoders on attributes %r: implementation %r, model %r" % (v, real, mreal))
    rep.extra["attribute_words_checked"] = len(vals)
    for b in bad[:3]:
        rep.violation("attribute coding: " + b, {"kind": "corr-attributes", "what": b}, concrete=False,
                      match_keys={"kind": "corr-attributes"})
    return not bad


def ft_values(rng, tier):
    vals = [0.0, 1e-9, 1e-7, 1.0, 0.5, 0.9999999, 1234567890.1234567, 1600000000.00000005, 2147483647.9999999,
            2147483648.0, 4102444799.9999995, 4102444800.0, 4200000000.0, 2777068799.9999995, 2777068800.0,
            2755526399.9999995, 2755526400.5, 951782400.0, 5e-324, 2.0 ** -30, 86400.0 * 365]
    # neighbourhood of the binade boundary of the product (2^57 / 1e7 - 11644473600) and of t + A = 2^34
    b = 2.0 ** 57 / 1e7 - 11644473600
    x = b
    for _ in range(40):
        vals.append(x)
        x = math.nextafter(x, math.inf)
    x = b
    for _ in range(40):
        x = math.nextafter(x, -math.inf)
        vals.append(x)
    for _ in range(3000 if tier == "quick" else 120000):
        r = rng.random()
        if r < 0.6:
            vals.append(rng.randrange(0, 4200000000 * 10 ** 9) / 1e9)
        elif r < 0.8:
            vals.append(float(rng.randrange(0, 4200000000)) + rng.choice([0.0, 0.5, 0.25, 1e-6, 0.999999, 1e-7, 0.1]))
        elif r < 0.9:
            vals.append(rng.uniform(0, 4.2e9))
        else:
            vals.append(rng.choice([-1.0, 1.0]) * rng.uniform(0, 1e11))   # outside the theorem's range: still bit-exact
    return vals


def corr_filetime(ctx, rep, rng, tier):
    from py7zr.helpers import ArchiveTimestamp
    model = ctx["model"]
    bad = []
    worst = 0.0
    for x in ft_values(rng, tier):
        real = int(ArchiveTimestamp.from_datetime(x))
        m = model.call("from_datetime", float_me(x))
        rep.count(("ft", x), nontrivial=x != 0.0)
        if not m or m[0] != real:
            bad.append("from_datetime(%s): implementation %d, model %r" % (x.hex(), real, m))
            continue
        back = ArchiveTimestamp(real).totimestamp()
        mb = model.call("totimestamp", real)
        if not mb or me_fraction(mb[0]) != fractions.Fraction(back):
            bad.append("totimestamp(%d): implementation %s, model %r" % (real, back.hex(), mb))
            continue
        if 0 <= x <= 4.2e9:
            err = abs(fractions.Fraction(back) - fractions.Fraction(x))
            worst = max(worst, float(err))
            if err > fractions.Fraction(5, 10 ** 6):
                rep.violation("mtime conversion error %.3g s for t = %s exceeds 5 microseconds" % (float(err), x.hex()),
                              {"kind": "filetime-bound", "t": x.hex()}, match_keys={"kind": "filetime-bound"})
    # totimestamp on arbitrary stored values (int -> float conversion rounds when >= 2^53)
    for _ in range(1500 if tier == "quick" else 60000):
        ft = rng.choice([rng.getrandbits(64), rng.getrandbits(57), rng.randrange(116444736000000000, 158444736000000000),
                         2 ** 53 + rng.randrange(-3, 4), 2 ** 63 + rng.randrange(-2000, 2000)])
        back = ArchiveTimestamp(ft).totimestamp()
        mb = model.call("totimestamp", ft)
        rep.count(("ts", ft), nontrivial=True)
        if not mb or me_fraction(mb[0]) != fractions.Fraction(back):
            bad.append("totimestamp(%d): implementation %s, model %r" % (ft, back.hex(), mb))
    rep.extra["filetime_worst_error_seconds"] = worst
    for b in bad[:3]:
        rep.violation("FILETIME conversion: " + b, {"kind": "corr-filetime", "what": b}, concrete=False,
                      match_keys={"kind": "corr-filetime"})
    return not bad


def corr_sort(ctx, rep, rng, tier):
    model = ctx["model"]
    bad = []
    for i in range(150 if tier == "quick" else 3000):
        used = set()
        names = []
        for _ in range(rng.randrange(0, 12)):
            n = rand_name(rng, used, allow_drive=True)
            used.add(n)
            names.append(n)
        if rng.random() < 0.3 and names:
            names += [names[0] + "x", names[0][:-1] or "q", names[0] + "\x00"[:0] + "\U0010ffff"]
            names = list(dict.fromkeys(names))
        rng.shuffle(names)
        got = [unnm(x) for x in model.call("sort_names", [nm(n) for n in names])]
        rep.count(("sort", tuple(names)), nontrivial=len(names) > 1)
        if got != sorted(names):
            bad.append("sorted(%r): python %r, model %r" % (names, sorted(names), got))
        paths = []
        for _ in range(rng.randrange(0, 10)):
            paths.append([rng.choice(names or ["a"]) for _ in range(rng.randrange(0, 4))])
        real = sorted(pathlib.PurePosixPath("/dest", *p) for p in paths)
        gotp = model.call("sort_paths", [[nm(c) for c in p] for p in paths])
        gotp = [pathlib.PurePosixPath("/dest", *[unnm(c) for c in p]) for p in gotp]
        if gotp != real:
            bad.append("sorted(paths %r): python %r, model %r" % (paths, real, gotp))
    for b in bad[:3]:
        rep.violation("ordering: " + b, {"kind": "corr-sort", "what": b}, concrete=False, match_keys={"kind": "corr-sort"})
    return not bad


# ---------------------------------------------------------------------------------------------- fixed cases
def fixed_cases():
    f = lambda size=3, m=0o644, ns=1234567890123456789, seed=1: {"k": "f", "m": m, "ns": ns, "size": size, "seed": seed, "tex": "text"}  # noqa
    d = lambda c, m=0o755, ns=1500000000500000000: {"k": "d", "m": m, "ns": ns, "c": c}  # noqa
    ln = lambda to: {"k": "l", "to": to}  # noqa
    out = []
    base = d([["a", f(5, 0o640)], ["zero", f(0, 0o600, 1000000000000000001)], ["empty", d([], 0o711, 999999999999999999)],
              ["d", d([["a", f(7, 0o755)], ["e", d([["f", f(4, 0o400)], ["l_up2", ln("../../zero")]], 0o500)],
                       ["l_dir", ln("e")], ["l_up", ln("../a")], ["l_root", ln("..")]])],
              ["l_down", ln("d/e/f")], ["l_l", ln("l_down")]])
    for mode in MODES:
        cfg = {"mode": mode, "deref": False, "pw": None, "entry": "api", "relout": False}
        if mode == "cwdsub":
            cfg["cwd"] = ["d", "e"]
        out.append(("fixed-base", base, cfg))
    nol = d([["a", f(5, 0o640)], ["z", f(0)], ["e", d([])], ["d", d([["l", ln("../a")], ["m", ln("../e")], ["b", f(9)]])]])
    out.append(("fixed-deref", nol, {"mode": "dot", "deref": True, "pw": None, "entry": "api", "relout": False}))
    out.append(("fixed-deref", nol, {"mode": "arc", "deref": True, "pw": None, "entry": "api", "relout": True}))
    out.append(("fixed-pw", base, {"mode": "rel", "deref": False, "pw": "secret", "entry": "api", "relout": False}))
    out.append(("fixed-shutil", base, {"mode": "rel", "deref": False, "pw": None, "entry": "shutil", "relout": False}))
    out.append(("fixed-shutil", nol, {"mode": "dot", "deref": False, "pw": None, "entry": "shutil", "relout": False}))
    out.append(("fixed-cli", base, {"mode": "rel", "deref": False, "pw": None, "entry": "cli", "relout": False}))
    out.append(("fixed-cli", base, {"mode": "abs", "deref": False, "pw": None, "entry": "cli", "relout": True}))
    # shapes
    out.append(("empty-root", d([]), {"mode": "dot", "deref": False, "pw": None, "entry": "api", "relout": False}))
    out.append(("empty-root", d([], 0o700), {"mode": "arc", "deref": False, "pw": None, "entry": "api", "relout": False}))
    out.append(("empty-root", d([], 0o700), {"mode": "dotarc", "deref": False, "pw": None, "entry": "api", "relout": False}))
    out.append(("only-zero-file", d([["z", f(0)]]), {"mode": "dot", "deref": False, "pw": None, "entry": "api", "relout": False}))
    out.append(("only-dirs", d([["e1", d([["e2", d([], 0o500)]], 0o500)]]), {"mode": "rel", "deref": False, "pw": None, "entry": "api", "relout": False}))
    out.append(("only-links", d([["l", ln("m")], ["m", ln("l2")], ["l2", ln(".")]]), {"mode": "dot", "deref": False, "pw": None, "entry": "api", "relout": False}))
    out.append(("special-bits", d([["su", f(1, 0o4755)], ["st", d([], 0o1777)], ["sg", d([["x", f(2, 0o2644)]], 0o2750)]]),
                {"mode": "arc", "deref": False, "pw": None, "entry": "api", "relout": False}))
    # shapes of repaired and of known defects
    cap = d([["a", f(5)], ["d", d([["a", f(7)], ["l", ln("a")]])]])
    out.append(("capture", cap, {"mode": "dot", "deref": False, "pw": None, "entry": "api", "relout": False}))
    out.append(("capture", cap, {"mode": "rel", "deref": False, "pw": None, "entry": "api", "relout": False}))
    out.append(("unnorm", d([["a", f(5)], ["l1", ln("./a")], ["d", d([["l2", ln("..//a")], ["l3", ln("../d/")]])]]),
                {"mode": "rel", "deref": False, "pw": None, "entry": "api", "relout": False}))
    out.append(("drive", d([["c:foo", f(5)], ["foo", f(6, seed=2)]]), {"mode": "dot", "deref": False, "pw": None, "entry": "api", "relout": False}))
    out.append(("drive", d([["c:foo", f(5)]]), {"mode": "dot", "deref": False, "pw": None, "entry": "api", "relout": False}))
    out.append(("drive", d([["d:", d([["q:r", f(1)]])]]), {"mode": "dot", "deref": False, "pw": None, "entry": "api", "relout": False}))
    out.append(("drive", d([["c:foo", f(5)], ["d:", d([["q:r", f(1)]])]]), {"mode": "arc", "deref": False, "pw": None, "entry": "api", "relout": False}))
    out.append(("xnone", d([["f", f(1)], ["l", ln("f")]]), {"mode": "dot", "deref": False, "pw": None, "entry": "api", "relout": False, "xnone": True}))
    out.append(("xnone", d([["f", f(1)], ["g", d([])]]), {"mode": "dot", "deref": False, "pw": None, "entry": "api", "relout": False, "xnone": True}))
    return out


WHAT = {
    "link-text-normalised": "link text is stored after pathlib normalisation ('./x', 'x//y', 'x/' lose characters)",
    "drive-letter-name": "a first path component starting with letter+colon is mangled or rejected on POSIX",
}


def explore(ctx, rep, rng, tier):
    maxdepth = 3 if tier == "quick" else 5
    cases = [(c, s, g) for c, s, g in fixed_cases()]
    n = 140 if tier == "quick" else 2600
    classes = ["clean"] * 10 + ["nolinks"] * 2 + ["capture", "unnorm", "drive", "cwd"]
    for i in range(n):
        cls = rng.choice(classes)
        r2 = random.Random(rng.getrandbits(64))
        spec = gen_tree(r2, tier, r2.choice([1, 2, maxdepth, maxdepth]), cls)
        cfg = gen_cfg(r2, spec, cls)
        cases.append((cls, spec, cfg))
    args = [{"spec": s, "cfg": g, "model": ctx["model"] is not None} for _, s, g in cases]
    nproc = min(16, os.cpu_count() or 4)
    results = []
    ctxm = multiprocessing.get_context("fork")
    with ctxm.Pool(nproc, maxtasksperchild=200) as pool:
        pend = [pool.apply_async(run_case, (a,)) for a in args]
        for (cls, spec, cfg), p in zip(cases, pend):
            try:
                results.append((cls, spec, cfg, p.get(timeout=300)))
            except multiprocessing.TimeoutError:
                results.append((cls, spec, cfg, {"crash": "timeout (300 s): the implementation hangs", "diffs": [], "model": []}))
                break
    reported = set()
    for cls, spec, cfg, r in results:
        key = json.dumps([spec, cfg], sort_keys=True)
        st = r.get("stats", {})
        nontrivial = st.get("nodes", 0) >= 2
        rep.count(("case", key), nontrivial=nontrivial)
        rep.dist("class", cls)
        rep.dist("mode", cfg["mode"] + ("+deref" if cfg["deref"] else "") + ("+pw" if cfg["pw"] else "") +
                 ("" if cfg["entry"] == "api" else "+" + cfg["entry"]) + ("+nopath" if cfg.get("xnone") else ""))
        rep.dist("nodes", min(st.get("nodes", 0) // 5 * 5, 60))
        rep.dist("depth", st.get("depth", 0))
        rep.dist("links", min(st.get("links", 0), 6))
        rep.dist("empty_dirs", min(st.get("empty_dirs", 0), 5))
        rep.dist("empty_files", min(st.get("empty_files", 0), 5))
        rep.dist("bytes_log2", st.get("bytes", 0).bit_length())
        if r.get("skip"):
            rep.dist("skipped", r["skip"][:40])
            continue
        rep.sample({"class": cls, "cfg": cfg, "nodes": st.get("nodes")})
        replay = {"kind": "case", "spec": spec, "cfg": cfg}
        if r.get("crash"):
            rep.violation("harness/implementation crash: %s" % r["crash"][-400:], replay, concrete=False,
                          match_keys={"defect": "crash"})
            continue
        for p, c, what in r["diffs"]:
            k = (c, cfg["mode"], cfg["deref"])
            if c == "unclassified":
                k = (c, cfg["mode"], cfg["deref"], what.split(" ")[0], len([x for x in reported if x[0] == c]) // 4)
                if len([x for x in reported if x[0] == c]) >= 24:
                    continue
            if k in reported:
                continue
            reported.add(k)
            rep.violation("writeall(%s%s)+extractall: %r: %s [%s]%s" % (
                cfg["mode"], ", dereference" if cfg["deref"] else "", p, what, c,
                (" -- " + WHAT[c]) if c in WHAT else ""), dict(replay, path=p, defect=c),
                match_keys={"defect": c, "mode": cfg["mode"]})
        for m in r["model"][:2]:
            nmd = len([x for x in reported if x[0] == "model-disagrees"])
            if nmd >= 12:
                break
            reported.add(("model-disagrees", nmd))
            rep.violation("model and implementation disagree: %s" % m, dict(replay, defect="model-disagrees"),
                          concrete=False, match_keys={"defect": "model-disagrees"})
    rep.extra["cases"] = len(results)
    rep.extra["case_seconds_total"] = round(sum(r.get("time", 0) for _, _, _, r in results), 1)


def unprivileged(ctx, rep):
    """a few cases as an ordinary user, so that the kernel's permission checks apply (directories 0o500, files 0o400)"""
    f = lambda size=3, m=0o644: {"k": "f", "m": m, "ns": 1234567890123456789, "size": size, "seed": 1, "tex": "text"}  # noqa
    d = lambda c, m=0o755: {"k": "d", "m": m, "ns": 1500000000500000000, "c": c}  # noqa
    spec = d([["ro", d([["f", f(4, 0o400)], ["z", f(0, 0o400)], ["sub", d([["g", f(2, 0o444)]], 0o500)], ["l", {"k": "l", "to": "f"}]], 0o500)],
              ["x", d([], 0o500)]], 0o755)
    from harness.sandbox import run_sandboxed
    out = run_sandboxed("harness.c02:unpriv_worker", {"spec": spec}, timeout=120, mem_mb=0)
    rep.extra["unprivileged_run"] = out if out.get("status") != "ok" else out["value"].get("note", "ran")
    if out.get("status") == "ok" and out["value"].get("ran"):
        for cfgname, r in out["value"]["results"]:
            rep.count(("unpriv", cfgname), nontrivial=True)
            for p, c, what in r["diffs"]:
                rep.violation("as uid nobody: writeall(%s)+extractall: %r: %s" % (cfgname, p, what),
                              {"kind": "unpriv", "spec": spec, "mode": cfgname}, match_keys={"defect": "unprivileged-" + c})


def unpriv_worker(arg):
    import pwd
    try:
        pw = pwd.getpwnam("nobody")
    except KeyError:
        return {"ran": False, "note": "no user nobody"}
    # the interpreter's library may be unreadable for nobody: load everything that is needed first
    try:
        import platform, getpass, shutil, tempfile, hashlib, traceback, stat, lzma, bz2, zlib, encodings.idna  # noqa
        import py7zr, py7zr.cli, py7zr.compressor, py7zr.helpers  # noqa
        from harness import arch  # noqa
        tempfile.gettempdir()
        warm = {"k": "d", "m": 0o755, "ns": 10 ** 18, "c": [["f", {"k": "f", "m": 0o644, "ns": 10 ** 18, "hex": "00"}],
                                                          ["l", {"k": "l", "to": "f"}]]}
        wr = run_case({"spec": warm, "cfg": {"mode": "rel", "deref": False, "pw": None, "entry": "api", "relout": False},
                       "model": False})
        if wr.get("crash") or wr.get("exc"):
            return {"ran": False, "note": "warm-up failed: %r" % (wr.get("crash") or wr.get("exc"),)}
    except Exception as e:  # noqa
        return {"ran": False, "note": "import failed: %s" % e}
    if os.getuid() != 0:
        uid = os.getuid()
    else:
        try:
            os.setgroups([])
            os.setgid(pw.pw_gid)
            os.setuid(pw.pw_uid)
        except OSError as e:
            return {"ran": False, "note": "cannot drop privileges: %s" % e}
        uid = pw.pw_uid
    try:
        import py7zr  # noqa
    except Exception as e:  # noqa
        return {"ran": False, "note": "py7zr not importable as nobody: %s" % e}
    results = []
    for mode in ("dot", "rel", "arc"):
        cfg = {"mode": mode, "deref": False, "pw": None, "entry": "api", "relout": False}
        results.append((mode, run_case({"spec": arg["spec"], "cfg": cfg, "model": False})))
    for _, r in results:
        if r.get("crash"):
            r["diffs"].append(["", "unclassified", "crash: " + r["crash"][-300:]])
    return {"ran": True, "uid": uid, "note": "ran as uid %d" % uid, "results": results}


def check_translation(ctx, rep, rng, tier):
    """translation validation: the ArchiveFile decoders generated from the current py7zr/py7zr.py (coq/gen/AttrDecoders.v,
    extracted) against the Python properties they were generated from; and the primitives against CPython"""
    import vlib
    from harness import prims
    from py7zr.py7zr import ArchiveFile
    model = ctx["model"]
    if model is None or "gen_attr_rows" not in vlib.fn_table():
        return
    prims.check_prims(ctx, rep)
    if model.call("gen_is_directory", [0x10]) != [0, 1]:
        return   # not the executable that contains the generated functions (its build failure is reported by verif.py)
    vals = [None, 0, 1, 0x10, 0x20, 0x400, 0x410, 0x8000, 0x8010, 0x8020, 0x8400, 0xFFFFFFFF, 0x7FFFFFFF, 0x80000000]
    vals += [1 << i for i in range(50)] + [(1 << i) | 0x8000 for i in range(50)]
    for fmt in range(16):
        for perm in (0, 0o644, 0o755, 0o7777, 0o4000):
            for low in (0, 0x10, 0x20, 0x400, 0x410, 0x8000, 0x8010, 0x8420, 0x8001, 0x1, 0x8430):
                vals.append(((fmt << 12 | perm) << 16) | low)
    for _ in range(3000 if tier == "quick" else 100000):
        vals.append(rng.getrandbits(32))
    for _ in range(200):
        vals.append(rng.getrandbits(rng.choice([33, 40, 47, 48, 49, 64])))

    def py(f):
        try:
            return [0, f()]
        except (OverflowError, TypeError, ValueError) as e:
            return [1, type(e).__name__]

    def canon(r, kind):
        if r[0] != 0:
            return [1, None]
        if kind == "bool":
            return [0, r[1] == 1]
        return [0, r[1][0] if r[1] else None]

    names = ["is_directory", "is_symlink", "is_junction", "is_socket", "readonly", "posix_mode", "st_fmt", "archivable"]
    kinds = ["bool", "bool", "bool", "bool", "bool", "opt", "opt", "bool"]
    cnt = 0
    for off in range(0, len(vals), 512):
        blk = vals[off:off + 512]
        rows = model.call("gen_attr_rows", [[] if v is None else [v] for v in blk])
        for v, row in zip(blk, rows):
            af = ArchiveFile(0, {"attributes": v})
            for i, (nm, kd) in enumerate(zip(names, kinds)):
                want = py(lambda: getattr(af, nm))
                got = canon(row[i], kd)
                cnt += 1
                if got[0] != want[0] or (want[0] == 0 and got[1] != want[1]):
                    rep.violation("the function translated from ArchiveFile.%s disagrees with the Python on attributes %r: "
                                  "generated %r, Python %r" % (nm, v, got, want),
                                  {"kind": "translation", "fn": nm, "attributes": v}, concrete=False,
                                  match_keys={"kind": "translation", "fn": nm})
                    return
            want = py(af._get_unix_extension)
            got = canon(row[8], "opt")
            cnt += 1
            if got[0] != want[0] or (want[0] == 0 and got[1] != want[1]):
                rep.violation("the function translated from ArchiveFile._get_unix_extension disagrees with the Python on "
                              "attributes %r: generated %r, Python %r" % (v, got, want),
                              {"kind": "translation", "fn": "_get_unix_extension", "attributes": v}, concrete=False,
                              match_keys={"kind": "translation", "fn": "_get_unix_extension"})
                return
    # is_directory also reads the "emptystream" / "emptyfile" entries of the file info (F22 repair): absent / False / True each
    flagged = vals[:60] + [rng.choice(vals) for _ in range(300 if tier == "quick" else 5000)]
    for v in flagged:
        for es in (None, False, True):
            for ef in (None, False, True):
                info = {"attributes": v}
                if es is not None:
                    info["emptystream"] = es
                if ef is not None:
                    info["emptyfile"] = ef
                af = ArchiveFile(0, info)
                want = py(lambda: af.is_directory)
                got = canon(model.call("gen_is_directory", [[] if v is None else [v], [] if es is None else [es],
                                                            [] if ef is None else [ef]]), "bool")
                cnt += 1
                rep.dist("translation_is_directory_flags", "emptystream=%r emptyfile=%r -> %r" % (es, ef, want[1] if want[0] == 0 else "raises"))
                if got[0] != want[0] or (want[0] == 0 and got[1] != want[1]):
                    rep.violation("the function translated from ArchiveFile.is_directory disagrees with the Python on attributes %r, "
                                  "emptystream %r, emptyfile %r: generated %r, Python %r" % (v, es, ef, got, want),
                                  {"kind": "translation", "fn": "is_directory", "attributes": v, "emptystream": es, "emptyfile": ef},
                                  concrete=False, match_keys={"kind": "translation", "fn": "is_directory"})
                    return
    for v in vals[:400]:
        for bit in (0, 1, 0x10, 0x410, 0x8000, 0xFFFF0000, rng.getrandbits(32)):
            af = ArchiveFile(0, {"attributes": v})
            want = py(lambda: af._test_attribute(bit))
            got = canon(model.call("gen_test_attribute", [[] if v is None else [v], bit]), "bool")
            cnt += 1
            if got != want:
                rep.violation("the function translated from ArchiveFile._test_attribute disagrees with the Python on (%r, %r): "
                              "generated %r, Python %r" % (v, bit, got, want),
                              {"kind": "translation", "fn": "_test_attribute", "attributes": v, "bit": bit}, concrete=False,
                              match_keys={"kind": "translation", "fn": "_test_attribute"})
                return
    rep.extra["translation_validation_cases"] = cnt
    rep.count(("translation", cnt), nontrivial=True, n=cnt)


def run(ctx):
    rep, tier = ctx["rep"], ctx["tier"]
    rng = random.Random(ctx["seed"])
    rep.cov["rule"] = ("a tree case is non-trivial when the tree has at least two nodes; a correspondence evaluation when "
                       "its input is not the zero/None value")
    os.umask(UMASK)
    if ctx["model"] is None:
        explore(ctx, rep, rng, tier)
        return
    try:
        check_translation(ctx, rep, random.Random(ctx["seed"] ^ 0x7A11), tier)
    except Exception as e:  # noqa
        rep.violation("check_translation raised %s: %s" % (type(e).__name__, e),
                      {"kind": "exception", "part": "check_translation", "trace": traceback.format_exc()[-1500:]},
                      concrete=False, match_keys={"kind": "exception", "part": "check_translation"})
    corr_attributes(ctx, rep, random.Random(rng.getrandbits(64)), tier)
    corr_filetime(ctx, rep, random.Random(rng.getrandbits(64)), tier)
    corr_sort(ctx, rep, random.Random(rng.getrandbits(64)), tier)
    explore(ctx, rep, random.Random(rng.getrandbits(64)), tier)
    try:
        unprivileged(ctx, rep)
    except Exception as e:  # noqa
        rep.extra["unprivileged_run"] = "failed: %s" % e


def replay(d):
    r = d.get("replay", d)
    if r.get("kind") == "case":
        res = run_case({"spec": r["spec"], "cfg": r["cfg"], "model": False})
        want = r.get("defect")
        if res.get("crash"):
            print(res["crash"])
            return 1
        hits = [x for x in res["diffs"] if want in (None, "model-disagrees") or x[1] == want]
        for p, c, what in hits:
            print("%r: %s [%s]" % (p, what, c))
        return 1 if hits else 0
    print("nothing to re-run for", r.get("kind"))
    return 2
