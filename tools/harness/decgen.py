"""Translation validation of compressor.SevenZipDecompressor (third wave, stage 7): the methods _decompress / _read_data /
decompress generated from the current py7zr/compressor.py (coq/gen/DecompChain.v, extracted and run with Decomp.v's toy
stages and Crc32.v's CRC) against a real SevenZipDecompressor whose chain holds the Python mirrors of the toy stages
(harness/c01.py ToyDec), call by call, with a file that returns short reads; after the last call the whole object state
(stage states, _unpacked, consumed, _unused, _buf, _pos, digest, _delivered) and the rest of the file are compared."""


def check_decompress(ctx, rep, rng, n_cases):
    import vlib
    from harness import c01
    model = ctx.get("model")
    if model is None or "gen_decompress_trace" not in vlib.fn_table():
        return 0
    cnt = 0
    for case in range(n_cases):
        stages = c01.rand_stages(rng, False)
        plen = rng.choice([0, 1, 5, 15, 16, 17, 31, 32, 33, 48, 64, 80, 100, 120])
        packed = bytes(rng.randrange(256) for _ in range(plen))
        isz = rng.choice([len(packed)] * 4 + [max(0, len(packed) - 3), len(packed) + 5, 0])
        bsz = rng.choice([1, 2, 3, 5, 7, 8, 15, 16, 17, 32, 33, 64, 1000])
        us = [rng.choice([1000, 1000, 1000, 10, 3, 0]) for _ in stages]
        if rng.random() < 0.08 and len(us) > 1:
            us = us[:-1]                       # _unpacksizes shorter than the chain: IndexError
        calls = [(rng.choice([-1, 0, 1, 2, 3, 5, 8, 16, 17, 33, 100]), rng.choice([0, 1, 2, 3, 7, 15, 16, 17, 40, 200]))
                 for _ in range(rng.randrange(1, 14))]
        got = model.call("gen_decompress_trace", [[c01.stage_tree(s) for s in stages], us, isz, bsz, list(packed),
                                                  [[a, b] for a, b in calls]])
        d = c01.make_decompressor(stages, us, isz, bsz)
        fp = c01.SchedFp(packed)
        want = []
        for ml, rd in calls:
            fp.k = rd
            try:
                want.append([0, list(d.decompress(fp, ml))])
            except Exception as e:  # noqa
                want.append([1, c01._exc_code(e)])
                break
        raised = bool(want) and want[-1][0] == 1
        if raised:
            # the call that raises leaves the Python object half-updated (the error monad of the generated code has no state
            # on an error): only the results are compared
            got = got[:len(want)]
        else:
            want.append([[s.tree() for s in d.chain], list(d._unpacked), d.consumed, list(d._unused), list(d._buf), d._pos, d.digest,
                         d._delivered])
            want.append(list(packed[fp.pos:]))
        cnt += 1
        rep.dist("translation_SevenZipDecompressor", "%d stages, %s" % (len(stages), "raises" if raised else "ok"))
        if got != want:
            rep.violation("the functions translated from SevenZipDecompressor (_decompress / _read_data / decompress) disagree with the "
                          "Python on stages %r, unpacksizes %r, input_size %d, block_size %d, packed %s, calls %r: generated %r, Python %r"
                          % (stages, us, isz, bsz, packed.hex(), calls, got, want),
                          {"kind": "translation", "fn": "SevenZipDecompressor.decompress", "stages": [list(s) for s in stages], "us": us,
                           "isz": isz, "bsz": bsz, "packed": packed.hex(), "calls": [list(c) for c in calls]},
                          concrete=False, match_keys={"kind": "translation", "fn": "SevenZipDecompressor.decompress"})
            return cnt
    rep.extra["translation_validation_cases_decompressor"] = cnt
    return cnt
