"""arch.py -- shared helpers: build small archives with py7zr, read them back, canonicalise results."""
import io
import os

import py7zr
from py7zr.properties import FILTER_ARM, FILTER_BROTLI, FILTER_BZIP2, FILTER_COPY, FILTER_CRYPTO_AES256_SHA256, FILTER_DEFLATE
from py7zr.properties import FILTER_DEFLATE64, FILTER_DELTA, FILTER_LZMA, FILTER_LZMA2, FILTER_PPMD, FILTER_X86, FILTER_ZSTD
from py7zr.io import Py7zIO, WriterFactory

AES = {"id": FILTER_CRYPTO_AES256_SHA256}
CHAINS = {
    "lzma2": [{"id": FILTER_LZMA2, "preset": 1}],
    "lzma": [{"id": FILTER_LZMA}],
    "bzip2": [{"id": FILTER_BZIP2}],
    "deflate": [{"id": FILTER_DEFLATE}],
    "copy": [{"id": FILTER_COPY}],
    "zstd": [{"id": FILTER_ZSTD, "level": 3}],
    "ppmd": [{"id": FILTER_PPMD, "order": 6, "mem": 20}],
    "brotli": [{"id": FILTER_BROTLI, "level": 5}],
    "delta+lzma2": [{"id": FILTER_DELTA}, {"id": FILTER_LZMA2, "preset": 1}],
    "x86+lzma2": [{"id": FILTER_X86}, {"id": FILTER_LZMA2, "preset": 1}],
    "delta+x86+lzma2": [{"id": FILTER_DELTA}, {"id": FILTER_X86}, {"id": FILTER_LZMA2, "preset": 1}],      # three coders
    "delta+x86+arm+lzma2": [{"id": FILTER_DELTA}, {"id": FILTER_X86}, {"id": FILTER_ARM}, {"id": FILTER_LZMA2, "preset": 1}],  # four
    "arm+lzma": [{"id": FILTER_ARM}, {"id": FILTER_LZMA}],
    "x86+deflate": [{"id": FILTER_X86}, {"id": FILTER_DEFLATE}],
    "x86+bzip2": [{"id": FILTER_X86}, {"id": FILTER_BZIP2}],
    "lzma2+aes": [{"id": FILTER_LZMA2, "preset": 1}, AES],
    "copy+aes": [{"id": FILTER_COPY}, AES],
    "aes": [AES],
    "deflate+aes": [{"id": FILTER_DEFLATE}, AES],
    "zstd+aes": [{"id": FILTER_ZSTD, "level": 3}, AES],
    "bzip2+aes": [{"id": FILTER_BZIP2}, AES],
}
FAST_CHAINS = ["copy", "lzma2", "deflate", "bzip2", "zstd"]


def needs_pw(chain):
    return any(f["id"] == FILTER_CRYPTO_AES256_SHA256 for f in CHAINS[chain]) if isinstance(chain, str) else \
        any(f["id"] == FILTER_CRYPTO_AES256_SHA256 for f in chain)


class _Buf(Py7zIO):
    def __init__(self):
        self.b = bytearray()

    def write(self, s):
        self.b += s
        return len(s)

    def read(self, size=None):
        return bytes(self.b)

    def seek(self, offset, whence=0):
        return 0

    def flush(self):
        pass

    def size(self):
        return len(self.b)


class Collect(WriterFactory):
    """WriterFactory collecting every product in order of creation"""

    def __init__(self):
        self.products = []   # (name, _Buf)

    def create(self, filename):
        b = _Buf()
        self.products.append((filename, b))
        return b

    def as_list(self):
        return [(n, bytes(b.b)) for n, b in self.products]

    def as_dict(self):
        return {n: bytes(b.b) for n, b in self.products}


def make_archive(members, chain="copy", password=None, header_enc=False, encoded=True, target=None, sessions=None):
    """members: list of (name, bytes) written with writestr in one session; `sessions` (list of
    (members, chain)) appends further sessions -> one folder per session.  Returns the archive bytes
    (or writes to `target` path and returns None)."""
    filters = CHAINS[chain] if isinstance(chain, str) else chain
    if needs_pw(filters) and password is None:
        password = "secret"
    bio = io.BytesIO() if target is None else None
    dest = bio if target is None else target
    with py7zr.SevenZipFile(dest, "w", filters=filters, password=password, header_encryption=header_enc) as z:
        if not encoded:
            z.set_encoded_header_mode(False)
        for n, d in members:
            z.writestr(d, n)
    for ms, ch in (sessions or []):
        f2 = CHAINS[ch] if isinstance(ch, str) else ch
        if bio is not None:
            bio.seek(0)
        with py7zr.SevenZipFile(dest, "a", filters=f2, password=password, header_encryption=header_enc) as z:
            if not encoded:
                z.set_encoded_header_mode(False)
            for n, d in ms:
                z.writestr(d, n)
    return bio.getvalue() if bio is not None else None


def read_archive(data, password=None):
    """('ok', names, [(name, bytes)...]) or ('err', exception class name, message)"""
    try:
        src = io.BytesIO(data) if isinstance(data, (bytes, bytearray)) else data
        with py7zr.SevenZipFile(src, "r", password=password) as z:
            names = z.getnames()
            fac = Collect()
            z.extractall(factory=fac)
        return ("ok", names, fac.as_list())
    except Exception as e:  # noqa
        return ("err", type(e).__name__, str(e)[:200])


def exc_class(e):
    """the small enum the model uses"""
    n = type(e).__name__ if not isinstance(e, str) else e
    return {"Bad7zFile": "Bad7z", "CrcError": "Crc", "PasswordRequired": "Password",
            "UnsupportedCompressionMethodError": "Unsupported", "EOFError": "Eof", "LZMAError": "Eof",
            "error": "Eof", "ZstdError": "Eof"}.get(n, "Other")


_CRC_T = []
for _i in range(256):
    _c = _i
    for _ in range(8):
        _c = (_c >> 1) ^ 0xEDB88320 if _c & 1 else _c >> 1
    _CRC_T.append(_c)
_CRC_REV = {_CRC_T[_i] >> 24: _i for _i in range(256)}


def forge_crc(prefix, target):
    """prefix + 4 bytes whose CRC-32 is `target`"""
    import zlib
    x, idx = target ^ 0xFFFFFFFF, []
    for _ in range(4):
        i = _CRC_REV[x >> 24]
        idx.append(i)
        x = ((x ^ _CRC_T[i]) << 8) & 0xFFFFFFFF
    c, out = zlib.crc32(prefix) ^ 0xFFFFFFFF, bytearray()
    for i in reversed(idx):
        b = (c ^ i) & 0xFF
        out.append(b)
        c = (c >> 8) ^ _CRC_T[(c ^ b) & 0xFF]
    data = bytes(prefix) + bytes(out)
    assert zlib.crc32(data) == target
    return data


def pattern_bytes(rng, n, texture="random"):
    """n bytes of the given texture; about one member in sixteen (4 <= n <= 1 MiB, not for 'zeros') gets its last four bytes
    chosen so that its CRC-32 is a boundary value (0, which is falsy in Python, or 0xFFFFFFFF)"""
    data = _pattern_bytes(rng, n, texture)
    if texture != "zeros" and 4 <= n <= (1 << 20) and rng.random() < 0.0625:
        data = forge_crc(data[:-4], rng.choice([0, 0, 0xFFFFFFFF]))
    return data


def _pattern_bytes(rng, n, texture="random"):
    if texture == "zeros":
        return bytes(n)
    if texture == "period":
        p = bytes(rng.randrange(256) for _ in range(rng.choice([1, 3, 7, 16])))
        return (p * (n // len(p) + 1))[:n]
    if texture == "text":
        words = [b"alpha ", b"beta ", b"gamma\n", b"delta-", b"7zip ", b"\x00\x01"]
        out = bytearray()
        while len(out) < n:
            out += rng.choice(words)
        return bytes(out[:n])
    if texture == "code":
        out = bytearray()
        while len(out) < n:
            out += rng.choice([b"\xe8" + rng.randbytes(4), b"\x55\x89\xe5", b"\xe9" + rng.randbytes(4), b"\x90", rng.randbytes(3)])
        return bytes(out[:n])
    return rng.randbytes(n)


def tree_snapshot(root):
    """sorted list of (relative path, kind, mode, size/target, mtime_ns) under root (no following of links)"""
    out = []
    for dp, dns, fns in os.walk(root, followlinks=False):
        for n in sorted(dns + fns):
            p = os.path.join(dp, n)
            st = os.lstat(p)
            rel = os.path.relpath(p, root)
            import stat as _s
            if _s.S_ISLNK(st.st_mode):
                out.append((rel, "link", 0, os.readlink(p), 0))
            elif _s.S_ISDIR(st.st_mode):
                out.append((rel, "dir", _s.S_IMODE(st.st_mode), 0, st.st_mtime_ns))
            else:
                out.append((rel, "file", _s.S_IMODE(st.st_mode), st.st_size, st.st_mtime_ns))
    return sorted(out)
