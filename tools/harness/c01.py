"""C01 -- content round trip: what is written is what is read, for every codec chain.

Proof side: coq/props/C01.v (models Comp.v, Decomp.v, Aes.v, RoundTrip.v).
This module ties the models to the implementation and explores the implementation:

 (a) toy-codec correspondence: real SevenZipCompressor / SevenZipDecompressor / Worker.decompress /
     AESCompressor / AESDecompressor objects whose `.chain` (resp. `.cipher`) is replaced by Python
     mirrors of the Coq toy stages (resp. toy cipher) are driven with random adversarial call
     sequences (max_length values, short-read schedules) and every call's result is compared with the
     extracted model;
 (b) contract validation of every real codec wrapper class (the hypotheses of C01_roundtrip_chain):
     decoding any chunked encoding under any chunking / max_length pattern yields the input as a prefix;
 (c) end-to-end sessions through the public API over chains x password x header mode x target kind x
     block size x chunk limit x member lengths/textures/names, each in a sandboxed child process.
"""
import io
import json
import os
import random
import shutil
import sys
import tempfile
import time
import traceback
import zlib
from concurrent.futures import ThreadPoolExecutor

GEN_DEPS = ["AESCompressor.compress", "AESCompressor.flush", "AESDecompressor.decompress", "calculate_crc32", "SevenZipDecompressor", "SevenZipDecompressor._decompress", "SevenZipDecompressor._read_data", "SevenZipDecompressor.decompress", "SevenZipCompressor", "SevenZipCompressor.compress", "SevenZipCompressor.flush"]
LEVEL = "proof"
TRUSTED_BASE = [
    "Coq 8.16.1 kernel, vm_compute (no native_compute); no axioms (Print Assumptions: closed)",
    "hand models theories/Comp.v, Decomp.v, Aes.v (line-by-line transcriptions of AESCompressor/AESDecompressor, "
    "SevenZipDecompressor._decompress/_read_data/decompress, SevenZipCompressor.compress/flush/unpacksizes in compressor.py "
    "and Worker.decompress in py7zr.py), tied to the implementation by the per-call correspondence of this check",
    "the stage codecs (liblzma, zlib, bz2, pyzstd, pyppmd, brotli, bcj, inflate64, pycryptodome AES) are NOT modelled: "
    "their stream-encoder / prefix-safe-decoder / inverse contracts are hypotheses of the theorems, validated here on "
    "random chunkings",
    "theories/Crc32.v crc32_update as zlib.crc32 (differential-tested here)",
    "extraction (ExtrOcamlBasic only) + ocaml/driver.ml for running the model",
    "CPython 3.12 bytes/bytearray/memoryview slice semantics as modelled by py_slice / py_index",
]
ASSUMPTIONS = [
    "round trip theorems are partial-correctness statements (if the loops return, they return the members); that the "
    "implementation does return is explored under a watchdog",
    "header encoding/decoding of names, sizes and CRCs is covered by C07/C17/C06; here only through the end-to-end sessions",
    "fp.write appends (sequential writes into a fresh region of the file)",
]

_T0 = time.time()


# ======================================================================================================
# Python mirrors of the Coq toy stages (Decomp.toy_dstep, Comp.toy_cstep/toy_cflush) and of the toy cipher
# ======================================================================================================
class ToyDec:
    def __init__(self, tag, k, pend=b""):
        self.tag, self.k, self.pend = tag, k, bytes(pend)

    def decompress(self, data, max_length=-1):
        data = bytes(data)
        if self.tag == 1:
            avail = self.pend + data
            nrel = len(avail) if len(data) == 0 else max(0, len(avail) - max(self.k, 0))
            nout = nrel if max_length < 0 else min(nrel, max_length)
            self.pend = avail[nout:]
            return avail[:nout]
        if self.tag == 2:
            return bytes(b for x in data for b in (x, x))
        return data

    def tree(self):
        return [self.tag, self.k, list(self.pend)]


class ToyEnc:
    def __init__(self, tag, k, pend=b""):
        self.tag, self.k, self.pend = tag, k, bytes(pend)

    def compress(self, data):
        data = bytes(data)
        if self.tag == 1:
            avail = self.pend + data
            nout = max(0, len(avail) - max(self.k, 0))
            self.pend = avail[nout:]
            return avail[:nout]
        if self.tag == 2:
            return bytes(b for x in data for b in (x, x))
        if self.tag == 3:
            self.pend += data
            return b""
        if self.tag == 4:
            avail = self.pend + data
            kk = max(1, self.k)
            nout = len(avail) - len(avail) % kk
            self.pend = avail[nout:]
            return avail[:nout]
        return data

    def flush(self):
        if self.tag in (1, 3):
            out, self.pend = self.pend, b""
            return out
        if self.tag == 4:
            kk = max(1, self.k)
            if len(self.pend) == 0:
                return b""
            out = self.pend + bytes((-len(self.pend)) % kk)
            self.pend = b""
            return out
        if self.tag == 5:
            return bytes([self.k % 256])
        return b""

    def tree(self):
        return [self.tag, self.k, list(self.pend)]


class ToyCipher:
    """CBC over the block function x -> x xor 90 (Aes.toyE / toyD); raises like pycryptodome on misaligned data"""

    def __init__(self, iv):
        self.c = bytes(iv)

    def encrypt(self, data):
        data = bytes(data)
        if len(data) % 16:
            raise ValueError("Data must be padded to 16 byte boundary in CBC mode")
        out = bytearray()
        for i in range(0, len(data), 16):
            blk = data[i:i + 16]
            c = bytes((a ^ b) ^ 90 for a, b in zip(blk, self.c))
            out += c
            self.c = c
        return bytes(out)

    def decrypt(self, data):
        data = bytes(data)
        if len(data) % 16:
            raise ValueError("Data must be padded to 16 byte boundary in CBC mode")
        out = bytearray()
        for i in range(0, len(data), 16):
            blk = data[i:i + 16]
            out += bytes((a ^ 90) ^ b for a, b in zip(blk, self.c))
            self.c = blk
        return bytes(out)


def toy_aes_dec(iv, blocksize):
    import py7zr.compressor as C
    from py7zr.io import Buffer
    d = object.__new__(C.AESDecompressor)
    d.cipher = ToyCipher(iv)
    d.buf = Buffer(size=blocksize + 16)
    return d


def toy_aes_enc(iv, blocksize):
    import py7zr.compressor as C
    from py7zr.io import Buffer
    c = object.__new__(C.AESCompressor)
    c.cipher = ToyCipher(iv)
    c.buf = Buffer(size=blocksize + 32)
    c.flushed = False
    c.iv = bytes(iv)
    c.salt = b""
    c.cycles = 19
    return c


class SchedFp:
    """fp for SevenZipDecompressor: read(n) returns at most `k` bytes (k set by the driver before every call);
    mirrors Decomp.fp_read"""

    def __init__(self, data):
        self.data, self.pos, self.k = bytes(data), 0, None

    def read(self, n=-1):
        k = len(self.data) if self.k is None else self.k
        m = min(max(n, 0), k)
        out = self.data[self.pos:self.pos + m]
        self.pos += len(out)
        return out

    def tell(self):
        return self.pos


class SchedFd:
    """member source for SevenZipCompressor.compress: mirrors Comp.fd_read / fd_hd"""

    def __init__(self, data, sched):
        self.data, self.pos, self.sched = bytes(data), 0, list(sched)

    def read(self, n=-1):
        rest = len(self.data) - self.pos
        k = self.sched.pop(0) if self.sched else rest
        m = max(1, k) if n < 0 else min(n, max(1, k))
        out = self.data[self.pos:self.pos + m]
        self.pos += len(out)
        return out


ERR = {"EOFError": 5, "IndexError": 6, "ValueError": 6, "Bad7zFile": 1}


def _exc_code(e):
    return ERR.get(type(e).__name__)


def copy_coder():
    from py7zr.compressor import SupportedMethods
    from py7zr.properties import FILTER_COPY
    return {"method": SupportedMethods.get_method_id(FILTER_COPY), "properties": None, "numinstreams": 1, "numoutstreams": 1}


def make_decompressor(stages, us, isz, bsz):
    """a real SevenZipDecompressor whose chain is replaced; stages: list of ('toy', tag, k) | ('aes', iv)"""
    import py7zr.compressor as C
    n = max(1, min(4, len(stages)))
    d = C.SevenZipDecompressor([copy_coder() for _ in range(n)], isz, [0] * n, None, None, bsz)
    chain = []
    for s in stages:
        chain.append(ToyDec(s[1], s[2]) if s[0] == "toy" else toy_aes_dec(s[1], bsz))
    d.chain = chain
    d._unpacksizes = list(us)
    d._unpacked = [0 for _ in us]
    return d


def stage_tree(s):
    return [s[1], s[2], []] if s[0] == "toy" else [9, list(s[1]), []]


def rand_stages(rng, allow_aes, dec=True):
    n = rng.choice([1, 1, 2, 2, 3])
    stages = []
    for i in range(n):
        tags = [0, 1, 1, 2] if dec else [0, 1, 2, 3, 4, 5]
        stages.append(("toy", rng.choice(tags), rng.choice([0, 1, 2, 3, 5, -1, 16])))
    if allow_aes and rng.random() < 0.5:
        iv = bytes(rng.randrange(256) for _ in range(16))
        if dec:
            stages[0] = ("aes", iv)       # AES decrypts first
        else:
            stages[-1] = ("aes", iv)      # AES encrypts last
    return stages


# ======================================================================================================
# (a) correspondence
# ======================================================================================================
def corr_decompress(ctx, rep, rng, n_cases):
    model = ctx["model"]
    for case in range(n_cases):
        mixed = rng.random() < 0.45
        stages = rand_stages(rng, mixed)
        plen = rng.choice([0, 1, 5, 15, 16, 17, 31, 32, 33, 48, 64, 80, 100, 120])
        packed = bytes(rng.randrange(256) for _ in range(plen))
        if any(s[0] == "aes" for s in stages) and rng.random() < 0.7:
            packed = packed[:len(packed) - len(packed) % 16]
        isz = rng.choice([len(packed)] * 4 + [max(0, len(packed) - 3), len(packed) + 5, 0])
        bsz = rng.choice([1, 2, 3, 5, 7, 8, 15, 16, 17, 32, 33, 64, 1000])
        us = [rng.choice([1000, 1000, 1000, 10, 3, 0]) for _ in stages]
        if rng.random() < 0.05 and len(us) > 1:
            us = us[:-1]
        if mixed:
            # which of two exceptions of one call wins (the AES stage's ValueError or a later stage's closed gate) is not
            # modelled: with an AES stage all gates stay open; the gates are exercised by the pure toy chains
            us = [1000 for _ in stages]
        calls = [(rng.choice([-1, 0, 1, 2, 3, 5, 8, 16, 17, 33, 100]), rng.choice([0, 1, 2, 3, 7, 15, 16, 17, 40, 200]))
                 for _ in range(rng.randrange(1, 14))]
        fn = "mix_run_t" if mixed else "toy_run_t"
        want = model.call(fn, [[stage_tree(s) for s in stages], us, isz, bsz, list(packed), [[a, b] for a, b in calls]])
        d = make_decompressor(stages, us, isz, bsz)
        fp = SchedFp(packed)
        key = ("dec", tuple(stages), plen, isz, bsz, tuple(us), tuple(calls))
        rep.count(key, nontrivial=plen > 0)
        rep.dist("decompress_chain", "+".join("aes" if s[0] == "aes" else "toy%d" % s[1] for s in stages))
        bad = None
        for i, (ml, rd) in enumerate(calls):
            fp.k = rd
            try:
                got = ("ok", bytes(d.decompress(fp, ml)))
            except Exception as e:  # noqa
                got = ("err", _exc_code(e), type(e).__name__)
            if i >= len(want):
                bad = "model trace ended before call %d" % i
                break
            w = want[i]
            if w[0] == 0:
                if got[0] != "ok" or got[1] != bytes(w[1]):
                    bad = "call %d decompress(max_length=%d, read<=%d): implementation %r, model Ok %s" % (
                        i, ml, rd, got if got[0] != "ok" else got[1].hex(), bytes(w[1]).hex())
                    break
            else:
                if got[0] != "err" or got[1] != w[1]:
                    bad = "call %d decompress(max_length=%d, read<=%d): implementation %r, model Err %d" % (i, ml, rd, got, w[1])
                break
        if bad:
            rep.violation("SevenZipDecompressor with toy stages disagrees with Decomp.v: " + bad,
                          {"kind": "corr-decompress", "stages": [list(map(_js, s)) for s in stages], "us": us, "isz": isz, "bsz": bsz,
                           "packed": packed.hex(), "calls": calls}, concrete=False, match_keys={"kind": "corr-decompress"})
            return
    rep.extra["corr_decompress_cases"] = n_cases


def _js(x):
    return x.hex() if isinstance(x, (bytes, bytearray)) else x


class _Spin(Exception):
    pass


class _Proxy:
    def __init__(self, d, fp, sched, fuel):
        self.d, self.fp, self.sched, self.fuel = d, fp, list(sched), fuel
        self.crc = None

    def decompress(self, fp, max_length=-1):
        if self.fuel <= 0:
            raise _Spin()
        self.fuel -= 1
        self.fp.k = self.sched.pop(0) if self.sched else len(self.fp.data) - self.fp.pos
        return self.d.decompress(fp, max_length)

    def check_crc(self):
        return True

    def __getattr__(self, name):
        return getattr(self.d, name)


class _Folder:
    def __init__(self, proxy):
        self.proxy = proxy

    def get_decompressor(self, compressed_size, reset=False):
        return self.proxy


def corr_worker(ctx, rep, rng, n_cases):
    """Worker.decompress (the caller loop, with its stall guard) on real objects against RoundTrip.gworker / gextract"""
    import py7zr.py7zr as P
    model = ctx["model"]
    saved = P.get_memory_limit
    try:
        for case in range(n_cases):
            stages = rand_stages(rng, True)
            plen = rng.choice([0, 3, 16, 32, 48, 64, 96])
            packed = bytes(rng.randrange(256) for _ in range(plen))
            isz = rng.choice([plen, plen, plen, max(0, plen - 16)])
            bsz = rng.choice([1, 3, 7, 16, 17, 32, 1000])
            us = [1000 for _ in stages]
            mb = rng.choice([1, 2, 7, 16, 1000])
            nm = rng.randrange(1, 4)
            sizes = [rng.choice([0, 1, 5, 16, 17, 40]) for _ in range(nm)]
            scheds = [[rng.choice([1, 2, 7, 16, 17, 100]) for _ in range(rng.randrange(0, 5))] for _ in range(nm)]
            fuel = 60
            want = model.call("mix_extract_t", [fuel, [stage_tree(s) for s in stages], us, isz, bsz, list(packed), sizes, mb, scheds])
            P.get_memory_limit = lambda: mb
            d = make_decompressor(stages, us, isz, bsz)
            fp = SchedFp(packed)
            w = P.Worker([], 0, None)
            outs, err = [], None
            for size, sched in zip(sizes, scheds):
                proxy = _Proxy(d, fp, sched, fuel)
                fq = io.BytesIO()
                try:
                    w.decompress(fp, _Folder(proxy), fq, size, None, 1 << 60, None)
                    outs.append(fq.getvalue())
                except _Spin:
                    err = 7
                    break
                except Exception as e:  # noqa
                    err = _exc_code(e) or type(e).__name__
                    break
            rep.count(("worker", tuple(stages), plen, isz, bsz, mb, tuple(sizes), repr(scheds)), nontrivial=sum(sizes) > 0)
            rep.dist("worker_outcome", "ok" if err is None else "err%s" % err)
            ok = (want[0] == 0 and err is None and [bytes(x) for x in want[1]] == outs) or (want[0] == 1 and err == want[1])
            if not ok:
                rep.violation("Worker.decompress with toy stages disagrees with Decomp.worker_decompress: implementation %s, model %r" % (
                    ("Ok %r" % [o.hex() for o in outs]) if err is None else "Err %s" % err, want),
                    {"kind": "corr-worker", "stages": [list(map(_js, s)) for s in stages], "isz": isz, "bsz": bsz, "packed": packed.hex(),
                     "sizes": sizes, "mb": mb, "scheds": scheds}, concrete=False, match_keys={"kind": "corr-worker"})
                return
    finally:
        P.get_memory_limit = saved
    rep.extra["corr_worker_cases"] = n_cases


def make_compressor(stages, bsz):
    import py7zr.compressor as C
    from py7zr.properties import FILTER_COPY
    n = max(1, min(4, len(stages)))
    c = C.SevenZipCompressor(filters=[{"id": FILTER_COPY} for _ in range(n)], blocksize=bsz)
    c.chain = [ToyEnc(s[1], s[2]) if s[0] == "toy" else toy_aes_enc(s[1], abs(bsz)) for s in stages]
    c._unpacksizes = [0 for _ in stages]
    return c


def corr_compress(ctx, rep, rng, n_cases):
    model = ctx["model"]
    for case in range(n_cases):
        mixed = rng.random() < 0.4
        stages = rand_stages(rng, mixed, dec=False)
        if rng.random() < 0.03:
            stages = []
        bsz = rng.choice([1, 2, 3, 5, 7, 15, 16, 17, 32, 100, -1])
        members = []
        for _ in range(rng.randrange(0, 4)):
            n = rng.choice([0, 1, 2, 15, 16, 17, 31, 33, 50])
            members.append((bytes(rng.randrange(256) for _ in range(n)), [rng.choice([0, 1, 2, 3, 16, 17, 100]) for _ in range(rng.randrange(0, 6))]))
        fuel = 80
        want = model.call("mix_session_t", [fuel, [stage_tree(s) for s in stages], bsz, [[list(m), s] for m, s in members]])
        c = make_compressor(stages, bsz)
        fp = io.BytesIO()
        infos, err = [], None
        try:
            for m, s in members:
                infos.append(list(c.compress(SchedFd(m, s), fp)))
            n = c.flush(fp)
        except Exception as e:  # noqa
            err = "%s: %s" % (type(e).__name__, e)
        rep.count(("comp", tuple(stages), bsz, tuple(members and [(m, tuple(s)) for m, s in members])), nontrivial=any(len(m) for m, _ in members))
        rep.dist("compress_chain", "+".join("aes" if s[0] == "aes" else "toy%d" % s[1] for s in stages) or "(empty)")
        bad = None
        if want[0] != 0:
            bad = "model returns Err %r" % (want,)
        elif err:
            bad = "implementation raises %s" % err
        else:
            (us, dg, ps, out, sts), winfos, wn = want[1]
            if [list(x) for x in winfos] != infos:
                bad = "(insize, foutsize, crc) per member: implementation %r model %r" % (infos, winfos)
            elif wn != n:
                bad = "flush returned %r, model %r" % (n, wn)
            elif bytes(out) != fp.getvalue():
                bad = "bytes written: implementation %s model %s" % (fp.getvalue().hex(), bytes(out).hex())
            elif list(us) != list(c._unpacksizes) or dg != c.digest or ps != c.packsize:
                bad = "_unpacksizes/digest/packsize: implementation %r model %r" % ((c._unpacksizes, c.digest, c.packsize), (us, dg, ps))
        if bad:
            rep.violation("SevenZipCompressor with toy stages disagrees with Comp.v: " + bad,
                          {"kind": "corr-compress", "stages": [list(map(_js, s)) for s in stages], "bsz": bsz,
                           "members": [[m.hex(), s] for m, s in members]}, concrete=False, match_keys={"kind": "corr-compress"})
            return
    rep.extra["corr_compress_cases"] = n_cases


def corr_aes(ctx, rep, rng, n_cases):
    """AESCompressor / AESDecompressor objects with the toy cipher against Aes.v, call by call"""
    model = ctx["model"]
    for case in range(n_cases):
        iv = bytes(rng.randrange(256) for _ in range(16))
        # compressor
        ops, py_ops = [], []
        for _ in range(rng.randrange(1, 9)):
            if rng.random() < 0.15:
                ops.append(0)
                py_ops.append(None)
            else:
                n = rng.choice([0, 1, 2, 7, 15, 16, 17, 31, 32, 33, 47, 48, 64, 100])
                b = bytes(rng.randrange(256) for _ in range(n))
                ops.append(list(b))
                py_ops.append(b)
        ops.append(0)
        py_ops.append(None)
        want = model.call("aes_c_run_t", [list(iv), [], ops])
        c = toy_aes_enc(iv, rng.choice([1, 16, 17, 64]))
        bad = None
        for i, op in enumerate(py_ops):
            try:
                got = ("ok", bytes(c.flush() if op is None else c.compress(op)))
            except Exception as e:  # noqa
                got = ("err", type(e).__name__)
            w = want[i]
            if (w[0] == 0 and (got[0] != "ok" or got[1] != bytes(w[1]))) or (w[0] == 1 and got[0] != "err"):
                bad = "AESCompressor op %d (%s): implementation %r, model %r" % (i, "flush" if op is None else "compress(%d bytes)" % len(op), got, w)
                break
            if w[0] == 1:
                break
        rep.count(("aesc", iv, tuple(map(lambda o: o if o is None else bytes(o), py_ops))), nontrivial=True)
        if bad:
            rep.violation(bad, {"kind": "corr-aes", "side": "compress", "iv": iv.hex(), "ops": [o if o is None else o.hex() for o in py_ops]},
                          concrete=False, match_keys={"kind": "corr-aes"})
            return
        # decompressor
        chunks = []
        for _ in range(rng.randrange(1, 9)):
            n = rng.choice([0, 0, 1, 5, 11, 15, 16, 17, 31, 32, 33, 48, 64])
            chunks.append(bytes(rng.randrange(256) for _ in range(n)))
        want = model.call("aes_d_run_t", [list(iv), [], [list(x) for x in chunks]])
        d = toy_aes_dec(iv, rng.choice([1, 16, 17, 64]))
        for i, ch in enumerate(chunks):
            try:
                got = ("ok", bytes(d.decompress(ch)))
            except Exception as e:  # noqa
                got = ("err", type(e).__name__)
            w = want[i]
            if (w[0] == 0 and (got[0] != "ok" or got[1] != bytes(w[1]))) or (w[0] == 1 and got[0] != "err"):
                bad = "AESDecompressor call %d (%d bytes): implementation %r, model %r" % (i, len(ch), got, w)
                break
            if w[0] == 1:
                rep.dist("aes_decompress_raises", "residue+chunk<16")
                break
        rep.count(("aesd", iv, tuple(chunks)), nontrivial=True)
        if bad:
            rep.violation(bad, {"kind": "corr-aes", "side": "decompress", "iv": iv.hex(), "chunks": [x.hex() for x in chunks]},
                          concrete=False, match_keys={"kind": "corr-aes"})
            return
    rep.extra["corr_aes_cases"] = n_cases


def check_translation(ctx, rep, rng, n_cases):
    """translation validation: the methods generated from the current py7zr/compressor.py (coq/gen/AesBuf.v, extracted, run
    with Aes.v's toy CBC cipher) against real AESCompressor / AESDecompressor objects carrying ToyCipher, call by call
    with the object state (bytes of buf.view, chaining value) compared after every call; calculate_crc32 generated from
    py7zr/helpers.py (with Crc32.v's CRC in the place of zlib.crc32) against the Python; and the primitives (py7zr.io.Buffer
    included) against CPython (harness/prims.py)"""
    import vlib
    import zlib
    import py7zr.helpers as H
    from harness import prims
    model = ctx["model"]
    if model is None or "gen_aes_compress" not in vlib.fn_table():
        return
    prims.check_prims(ctx, rep)
    probe = model.call("gen_aes_flush", [[], [0] * 16])
    if probe != [0, [[], [], [0] * 16]]:
        return   # not the executable that contains the generated functions (its build failure is reported by verif.py)
    cnt = 0
    sizes = [0, 1, 2, 7, 15, 16, 17, 31, 32, 33, 47, 48, 64, 100]

    def state(o):
        return bytes(o.buf.view), bytes(o.cipher.c)

    for case in range(n_cases):
        iv = bytes(rng.randrange(256) for _ in range(16))
        for side in ("compress", "decompress"):
            obj = toy_aes_enc(iv, rng.choice([1, 16, 17, 64])) if side == "compress" else toy_aes_dec(iv, rng.choice([1, 16, 17, 64]))
            nops = rng.randrange(1, 9)
            for i in range(nops + 1):
                flush = side == "compress" and (i == nops or rng.random() < 0.12)
                d = b"" if (side == "decompress" and i == nops) else bytes(rng.randrange(256) for _ in range(rng.choice(sizes)))
                buf0, c0 = state(obj)
                ml = rng.choice([-1, 0, 16, 100])
                if flush:
                    g = model.call("gen_aes_flush", [list(buf0), list(c0)])
                    call = "flush()"
                elif side == "compress":
                    g = model.call("gen_aes_compress", [list(buf0), list(c0), list(d)])
                    call = "compress(%d bytes)" % len(d)
                else:
                    g = model.call("gen_aes_decompress", [list(buf0), list(c0), list(d), ml])
                    call = "decompress(%d bytes, %d)" % (len(d), ml)
                try:
                    out = bytes(obj.flush() if flush else obj.compress(d) if side == "compress" else obj.decompress(d, ml))
                    got = [0, [list(out), list(state(obj)[0]), list(state(obj)[1])]]
                except ValueError:
                    got = [1, 6]
                cnt += 1
                if g != got:
                    rep.violation("the method translated from %s.%s disagrees with the Python on %s with %d bytes buffered: "
                                  "generated %r, Python %r" % ("AESCompressor" if side == "compress" else "AESDecompressor", call.split("(")[0],
                                                               call, len(buf0), _short_tree(g), _short_tree(got)),
                                  {"kind": "translation", "side": side, "buf": buf0.hex(), "cst": c0.hex(), "data": d.hex(), "call": call},
                                  concrete=False, match_keys={"kind": "translation", "side": side})
                    return
                if got[0] == 1:
                    rep.dist("translation_aes_raises", side)
                    break
    for bs in (1, 2, 3, 16, 17, 1000):
        for n in sorted(set([0, 1, bs - 1, bs, bs + 1, 2 * bs - 1, 2 * bs, 2 * bs + 1, 3 * bs + 2, rng.randrange(0, 6 * bs + 2)])):
            if n < 0 or n > 4000:
                continue
            data = bytes(rng.randrange(256) for _ in range(n))
            for v in (0, 1, 0xFFFFFFFF, rng.getrandbits(32)):
                g = model.call("gen_calculate_crc32", [list(data), v, bs])
                want = H.calculate_crc32(data, v, bs)
                cnt += 1
                if g != [0, want] or want != zlib.crc32(data, v):
                    rep.violation("the function translated from helpers.calculate_crc32 disagrees with the Python on %d bytes, value "
                                  "%d, blocksize %d: generated %r, Python %r, zlib %r" % (n, v, bs, g, want, zlib.crc32(data, v)),
                                  {"kind": "translation", "side": "crc", "data": data.hex(), "value": v, "blocksize": bs},
                                  concrete=False, match_keys={"kind": "translation", "side": "crc"})
                    return
    rep.extra["translation_validation_cases"] = cnt
    rep.count(("translation", cnt), nontrivial=True, n=cnt)


def _short_tree(t):
    r = repr(t)
    return r if len(r) < 300 else r[:300] + "..."


def corr_unpacksizes(ctx, rep, rng, n_cases):
    import py7zr.compressor as C
    from harness import arch
    model = ctx["model"]
    c = C.SevenZipCompressor(filters=[{"id": arch.FILTER_COPY}])
    for case in range(n_cases):
        mm = [rng.random() < 0.5 for _ in range(rng.randrange(0, 5))]
        us = [rng.randrange(0, 1000) for _ in range(rng.randrange(0, 5))]
        c.methods_map, c._unpacksizes = list(mm), list(us)
        try:
            got = [0, c.unpacksizes]
        except IndexError:
            got = [1, 6]
        want = model.call("unpacksizes_prop_t", [[1 if b else 0 for b in mm], us])
        rep.count(("unpacksizes", tuple(mm), tuple(us)), nontrivial=bool(mm))
        if got != want:
            rep.violation("SevenZipCompressor.unpacksizes %r on methods_map=%r _unpacksizes=%r, model %r" % (got, mm, us, want),
                          {"kind": "corr-unpacksizes", "mm": mm, "us": us}, concrete=False, match_keys={"kind": "corr-unpacksizes"})
            return
    # the decompressor's mirror, on chains the compressor accepts (all of them in the thorough tier)
    names = sorted(all_chains())
    if ctx["tier"] == "quick":
        names = [n for n in names if "aes" not in n][::3] + ["lzma2+aes", "copy+aes", "x86+lzma2+aes", "x86+zstd+aes"]
    for name in names:
        filters = all_chains()[name]
        try:
            comp = C.SevenZipCompressor(filters=filters, password="p" if arch.needs_pw(filters) else None)
        except Exception:  # noqa
            continue
        n = len(comp.coders)
        unp = [rng.randrange(1, 1000) for _ in range(n)]
        try:
            d = C.SevenZipDecompressor(comp.coders, 100, unp, None, "p", 64)
        except Exception as e:  # noqa
            rep.violation("SevenZipDecompressor cannot be built for the coders SevenZipCompressor made of %s: %s" % (name, e),
                          {"kind": "chain-construction", "chain": name}, match_keys={"kind": "chain-construction", "chain": name})
            continue
        # the constructor's `hack` may have changed methods_map after _unpacksizes... no: before; use the final map
        want = model.call("dec_unpacksizes_t", [[1 if b else 0 for b in d.methods_map], unp])
        rep.count(("dec_unpacksizes", name, tuple(unp)), nontrivial=True)
        if want != [0, list(d._unpacksizes)]:
            rep.violation("SevenZipDecompressor._unpacksizes %r for %s (methods_map %r, unpacksizes %r), model %r" % (
                d._unpacksizes, name, d.methods_map, unp, want), {"kind": "corr-unpacksizes", "chain": name}, concrete=False,
                match_keys={"kind": "corr-unpacksizes"})
            return


def corr_crc(ctx, rep, rng, n_cases):
    model = ctx["model"]
    from py7zr.helpers import calculate_crc32
    for _ in range(n_cases):
        n = rng.choice([0, 1, 2, 16, 100, 1000])
        b = bytes(rng.randrange(256) for _ in range(n))
        v = rng.choice([0, 0, rng.getrandbits(32)])
        got = calculate_crc32(b, v)
        want = model.call("crc32_update", [v, list(b)])
        rep.count(("crc", v, b), nontrivial=n > 0)
        if got != want or got != zlib.crc32(b, v):
            rep.violation("calculate_crc32 differs from Crc32.crc32_update on %d bytes" % n, {"kind": "corr-crc", "v": v, "data": b.hex()},
                          concrete=False, match_keys={"kind": "corr-crc"})
            return
    # the 1 MiB chunk loop of calculate_crc32 (not modelled): against zlib on a long buffer
    b = bytes(rng.randrange(256) for _ in range(1 << 10)) * 2100
    if calculate_crc32(b, 7) != zlib.crc32(b, 7):
        rep.violation("calculate_crc32 differs from zlib.crc32 on %d bytes" % len(b), {"kind": "corr-crc", "len": len(b)},
                      match_keys={"kind": "corr-crc"})


# ======================================================================================================
# chains
# ======================================================================================================
def all_chains():
    from harness import arch
    from py7zr.properties import FILTER_ARMTHUMB, FILTER_IA64, FILTER_POWERPC, FILTER_SPARC
    A = arch
    ch = dict(A.CHAINS)
    bcj = {"x86": A.FILTER_X86, "arm": A.FILTER_ARM, "armt": FILTER_ARMTHUMB, "ppc": FILTER_POWERPC, "sparc": FILTER_SPARC}
    comp = {"lzma2": {"id": A.FILTER_LZMA2, "preset": 1}, "lzma": {"id": A.FILTER_LZMA}, "bzip2": {"id": A.FILTER_BZIP2},
            "deflate": {"id": A.FILTER_DEFLATE}, "deflate64": {"id": A.FILTER_DEFLATE64}, "copy": {"id": A.FILTER_COPY},
            "zstd": {"id": A.FILTER_ZSTD, "level": 3}, "ppmd": {"id": A.FILTER_PPMD, "order": 6, "mem": 20},
            "brotli": {"id": A.FILTER_BROTLI, "level": 5}}
    for fn, fid in list(bcj.items()) + [("delta", A.FILTER_DELTA), ("ia64", FILTER_IA64)]:
        for cn in ("lzma2", "lzma"):
            ch["%s+%s" % (fn, cn)] = [{"id": fid}, comp[cn]]
            if cn == "lzma2" or fn in ("delta", "ia64"):
                ch["%s+%s+aes" % (fn, cn)] = [{"id": fid}, comp[cn], A.AES]
    for fn, fid in bcj.items():
        for cn in ("bzip2", "deflate", "deflate64", "copy", "zstd", "ppmd", "brotli"):
            ch["%s+%s" % (fn, cn)] = [{"id": fid}, comp[cn]]
            ch["%s+%s+aes" % (fn, cn)] = [{"id": fid}, comp[cn], A.AES]
    for cn in comp:
        ch.setdefault(cn, [comp[cn]])
        ch.setdefault(cn + "+aes", [comp[cn], A.AES])
    ch["delta4+lzma2"] = [{"id": A.FILTER_DELTA, "dist": 4}, comp["lzma2"]]
    ch["delta+x86+lzma2"] = [{"id": A.FILTER_DELTA}, {"id": A.FILTER_X86}, comp["lzma2"]]
    ch["delta+x86+lzma2+aes"] = [{"id": A.FILTER_DELTA}, {"id": A.FILTER_X86}, comp["lzma2"], A.AES]
    # parameter ranges
    ch["lzma2-p0"] = [{"id": A.FILTER_LZMA2, "preset": 0}]
    ch["lzma2-p6"] = [{"id": A.FILTER_LZMA2, "preset": 6}]
    ch["lzma2-p9e"] = [{"id": A.FILTER_LZMA2, "preset": 9 | 0x80000000}]
    ch["lzma-p6"] = [{"id": A.FILTER_LZMA, "preset": 6}]
    ch["zstd-1"] = [{"id": A.FILTER_ZSTD, "level": 1}]
    ch["zstd-19"] = [{"id": A.FILTER_ZSTD, "level": 19}]
    ch["brotli-0"] = [{"id": A.FILTER_BROTLI, "level": 0}]
    ch["brotli-11"] = [{"id": A.FILTER_BROTLI, "level": 11}]
    ch["ppmd-o2-m16"] = [{"id": A.FILTER_PPMD, "order": 2, "mem": 16}]
    ch["ppmd-o8-m24"] = [{"id": A.FILTER_PPMD, "order": 8, "mem": 24}]
    ch["ppmd-o6-16m"] = [{"id": A.FILTER_PPMD, "order": 6, "mem": "16m"}]
    ch["ppmd-o32-m26"] = [{"id": A.FILTER_PPMD, "order": 32, "mem": 26}]
    ch["default"] = None
    return ch


SLOW = ("lzma2-p9e", "lzma2-p6", "lzma-p6", "zstd-19", "brotli-11", "default", "ppmd-o32-m26")


# ======================================================================================================
# (b) contract validation of the real codec wrapper classes
# ======================================================================================================
def codec_pairs():
    """name -> (make_encoder, make_decoder(unpacksize), honours_max_length)"""
    import bz2
    import lzma
    import py7zr.compressor as C
    ppmd_props = C.PpmdCompressor.encode_filter_properties({"order": 6, "mem": 20})
    zv = __import__("pyzstd").zstd_version_info
    zprops = bytes([zv[0], zv[1], 3, 0, 0])

    def lz(filters):
        return (lambda: C.LZMA1Compressor(filters)), (lambda n: lzma.LZMADecompressor(format=lzma.FORMAT_RAW, filters=filters))
    out = {
        "copy": (lambda: C.CopyCompressor(), lambda n: C.CopyDecompressor()),
        "deflate": (lambda: C.DeflateCompressor(), lambda n: C.DeflateDecompressor()),
        "deflate64": (lambda: C.Deflate64Compressor(), lambda n: C.Deflate64Decompressor()),
        "bzip2": (lambda: bz2.BZ2Compressor(), lambda n: bz2.BZ2Decompressor()),
        "zstd": (lambda: C.ZstdCompressor(3), lambda n: C.ZstdDecompressor(zprops, 1 << 20)),
        "brotli": (lambda: C.BrotliCompressor(5), lambda n: C.BrotliDecompressor(bytes([1, 0, 5]), 1 << 20)),
        "ppmd": (lambda: C.PpmdCompressor(ppmd_props), lambda n: C.PpmdDecompressor(ppmd_props)),
        "x86": (lambda: C.BCJEncoder(), lambda n: C.BCJDecoder(n)),
        "arm": (lambda: C.BcjArmEncoder(), lambda n: C.BcjArmDecoder(n)),
        "armt": (lambda: C.BcjArmtEncoder(), lambda n: C.BcjArmtDecoder(n)),
        "ppc": (lambda: C.BcjPpcEncoder(), lambda n: C.BcjPpcDecoder(n)),
        "sparc": (lambda: C.BcjSparcEncoder(), lambda n: C.BcjSparcDecoder(n)),
        "lzma2": lz([{"id": lzma.FILTER_LZMA2, "preset": 1}]),
        "lzma1": (lambda: C.LZMA1Compressor([{"id": lzma.FILTER_LZMA1, "preset": 1}]),
                  lambda n: C.LZMA1Decompressor([{"id": lzma.FILTER_LZMA1, "preset": 1}], n)),
        "delta+lzma2": lz([{"id": lzma.FILTER_DELTA, "dist": 1}, {"id": lzma.FILTER_LZMA2, "preset": 1}]),
        "x86+lzma2": lz([{"id": lzma.FILTER_X86}, {"id": lzma.FILTER_LZMA2, "preset": 1}]),
        "ia64+lzma2": lz([{"id": lzma.FILTER_IA64}, {"id": lzma.FILTER_LZMA2, "preset": 1}]),
    }
    return out


def _aes_pair(pw="pässwörd"):
    import py7zr.compressor as C
    enc = C.AESCompressor(pw)
    props = enc.encode_filter_properties()
    return enc, (lambda n: C.AESDecompressor(props, pw, 1 << 20))


def contract_case(arg):
    """one case, run in a sandbox child (a codec may crash the interpreter): encode under a random chunking,
    decode under a random chunking / max_length pattern as SevenZipDecompressor would drive it; returns a verdict"""
    from harness import arch
    _die_with_parent()
    name, seed, n, texture = arg["codec"], arg["seed"], arg["n"], arg["texture"]
    rng = random.Random(seed)
    data = arch.pattern_bytes(rng, n, texture)
    if name == "aes":
        enc, mkdec = _aes_pair()
    else:
        mkenc, mkdec = codec_pairs()[name]
        enc = mkenc()

    def encode(e, cuts):
        out, pos = bytearray(), 0
        for k in cuts:
            out += e.compress(data[pos:pos + k])
            pos += k
        out += e.compress(data[pos:])
        out += e.flush()
        return bytes(out)
    cuts = [rng.choice([0, 1, 2, 7, 16, 17, 100, 4096, 32768, 70000]) for _ in range(rng.randrange(0, 12))]
    if arg.get("blocks"):
        # the chunking SevenZipCompressor.compress itself produces: whole blocks of the I/O block size
        cuts = [arg["blocks"]] * (n // arg["blocks"])
    blob = encode(enc, cuts)
    res = {"packed": len(blob)}
    if name != "aes":
        res["chunking_independent"] = blob == encode(codec_pairs()[name][0](), [])
    # decode: feed chunks (sizes from a schedule), each with a max_length, then empty chunks until enough or stalled
    dec = mkdec(n)
    want = data if name != "aes" else data + bytes((-len(data)) % 16)
    rs = rng.choice([1, 7, 16, 17, 100, 4096, 1 << 20]) if name != "aes" else rng.choice([16, 17, 100, 4096, 1 << 20])
    if arg.get("blocks"):
        rs = arg["blocks"]
    out, pos, stalled, over = bytearray(), 0, 0, False
    first = True
    while len(out) < len(want) and stalled < 3:
        # _read_data hands out min(block size, rest) bytes: never fewer than 16 at the start of a stream
        ch = blob[pos:pos + (max(rs, 16) if first else rs)]
        first = False
        pos += len(ch)
        ml = rng.choice([-1, len(want) - len(out), max(1, (len(want) - len(out)) // 3), 1])
        if arg.get("blocks"):
            ml = len(want) - len(out)         # Worker.decompress asks for what is left of the member
        got = dec.decompress(ch, ml)
        if ml >= 0 and len(got) > ml:
            over = True
        out += got
        stalled = stalled + 1 if (len(ch) == 0 and len(got) == 0) else 0
    res["honours_max_length"] = not over
    res["prefix_ok"] = bytes(out[:len(want)]) == want[:len(out)] if len(out) <= len(want) else bytes(out[:len(want)]) == want
    res["complete"] = len(out) >= len(want)
    res["got"] = len(out)
    return res


BCJ_TAIL_WITNESSES = {   # data (hex), number of bytes delivered in the second piece
    "x86": ("a461b5e8f22106ff", 1), "arm": ("3aeb64" * 10 + "3aeb", 2), "armt": ("e8f748fe", 3), "ppc": ("9250b7974a9b5289", 1),
    "sparc": ("e90dc50bb3fe7e2d5589e5e9402249e0", 3),
}


def contract_bcj_tail(arg):
    """run in a sandbox child: the BCJ decoder of `codec` fed its own encoder's output in two pieces, the second holding the
    last 1..7 bytes (what a previous stage does that delivers the end of its stream in a separate call, as PpmdDecompressor
    always does); prefix safety demands the same bytes as when fed in one piece"""
    from harness import arch
    _die_with_parent()
    name = arg["codec"]
    mkenc, mkdec = codec_pairs()[name]
    rng = random.Random(arg["seed"])

    def split_wrong(data, k):
        n = len(data)
        e = mkenc()
        blob = e.compress(data) + e.flush()
        d = mkdec(n)
        out = d.decompress(blob[:n - k]) + d.decompress(blob[n - k:])
        g = 0
        while len(out) < n and g < 3:
            out += d.decompress(b"")
            g += 1
        return None if out == data else out
    fails, first = 0, None
    cases = [(bytes.fromhex(BCJ_TAIL_WITNESSES[name][0]), BCJ_TAIL_WITNESSES[name][1])]
    for _ in range(arg["trials"]):
        n = rng.choice([4, 8, 15, 16, 17, 31, 32, 33, 64, 200])
        cases.append((arch.pattern_bytes(rng, n, rng.choice(["period", "code", "random"])), rng.randrange(1, min(8, n))))
    for data, k in cases:
        out = split_wrong(data, k)
        if out is not None:
            fails += 1
            if first is None:
                first = {"data": data.hex(), "second_piece": k, "got": out.hex()}
    return {"trials": len(cases), "fails": fails, "first": first}


def check_contracts(ctx, rep, rng, tier):
    from harness.sandbox import run_sandboxed
    names = sorted(codec_pairs()) + ["aes"]
    sizes = [0, 1, 15, 16, 17, 100, 4097, 32769, 70001] + ([200003] if tier == "quick" else [200003, 1048577, 2097153])
    jobs = []
    per = 5 if tier == "quick" else 40
    for name in names:
        for i in range(per):
            n = sizes[(i * 3 + len(name)) % len(sizes)] if i < len(sizes) else rng.choice(sizes)
            if name in ("ppmd",) and i % 2 == 0:
                n = rng.choice([70001, 200003])
            jobs.append({"codec": name, "seed": rng.getrandbits(32), "n": n,
                         "texture": rng.choice(["random", "period", "text", "code", "zeros"])})
    # every codec also exactly as the two drivers drive it: encoder fed whole I/O blocks (1 MiB), decoder fed whole
    # blocks and asked for what is left of the member -- on incompressible data, where one call produces the most output
    for name in names:
        for n in ([40000, 200003] if tier == "quick" else [40000, 70001, 200003, 1048577, 2097153]):
            jobs.append({"codec": name, "seed": rng.getrandbits(32), "n": n, "texture": "random", "blocks": 1 << 20})
    # pyppmd: its encoder loses bytes when one encode() call produces more than 32 KiB (incompressible input of more than
    # 32 KiB in one block), and its decoder then returns wrong bytes, stalls, hangs or crashes: fixed witnesses
    for n, seed in ((40000, 2), (70001, 2), (70001, 5), (200003, 6)):
        jobs.append({"codec": "ppmd", "seed": seed, "n": n, "texture": "random", "blocks": 1 << 20})
    table = rep.extra.setdefault("codec_contracts", {})

    def one(job):
        out = run_sandboxed("harness.c01:contract_case", job, timeout=30, mem_mb=3000)
        if out["status"] == "timeout":      # a loaded machine is not a hanging codec: once more, generously
            out = run_sandboxed("harness.c01:contract_case", job, timeout=150, mem_mb=3000)
        return job, out
    with ThreadPoolExecutor(16) as ex:
        results = list(ex.map(one, jobs))
    faults = {}
    for job, out in results:
        name = job["codec"]
        t = table.setdefault(name, {"cases": 0, "chunking_independent": True, "honours_max_length": True, "faults": 0})
        t["cases"] += 1
        rep.count(("contract", name, job["seed"], job["n"]), nontrivial=job["n"] > 0)
        if out["status"] == "ok":
            v = out["value"]
            if v.get("chunking_independent") is False:
                t["chunking_independent"] = False
            if not v["honours_max_length"]:
                t["honours_max_length"] = False
            if v["prefix_ok"] and v["complete"]:
                continue
            what = "decoder output is not the encoded input" if not v["prefix_ok"] else \
                "decoder stalls after %d of %d bytes with all input given" % (v["got"], job["n"])
            outcome = "wrong-bytes" if not v["prefix_ok"] else "stall"
        elif out["status"] == "exc":
            what, outcome = "raises %s: %s" % (out["type"], out["msg"][:80]), out["type"]
        else:
            what, outcome = "child %s (rc=%s)" % (out["status"], out.get("rc")), out["status"]
        t["faults"] += 1
        faults.setdefault(name, []).append(outcome)
        rep.violation("codec contract: %s round trip of %d %s bytes through the wrapper classes alone: %s" % (name, job["n"], job["texture"], what),
                      {"kind": "codec-contract", **job, "outcome": outcome},
                      match_keys={"kind": "codec-contract", "codec": name, "large": job["n"] >= 32768, "outcome": outcome})
    for name in sorted(BCJ_TAIL_WITNESSES):
        out = run_sandboxed("harness.c01:contract_bcj_tail", {"codec": name, "seed": rng.getrandbits(32),
                                                              "trials": 1500 if tier == "quick" else 30000}, timeout=300, mem_mb=3000)
        t = table.setdefault(name, {"cases": 0, "chunking_independent": True, "honours_max_length": True, "faults": 0})
        if out["status"] != "ok":
            rep.violation("codec contract: %s decoder tail-split run: child %s" % (name, out), {"kind": "codec-contract", "codec": name,
                          "mode": "tail-split"}, concrete=False, match_keys={"kind": "codec-contract-run", "codec": name})
            continue
        v = out["value"]
        t["tail_split_trials"], t["tail_split_fails"] = v["trials"], v["fails"]
        rep.count(("contract-tail", name, v["trials"]), nontrivial=True, n=v["trials"])
        if v["fails"]:
            faults.setdefault(name, []).append("tail-split")
            rep.violation("codec contract: %s decoder is not prefix safe: fed %s in two pieces, the second holding the last %d bytes, it "
                          "returns %s (its own encoder's output; fed in one piece it returns the input); %d of %d such cases" % (
                              name, v["first"]["data"], v["first"]["second_piece"], v["first"]["got"], v["fails"], v["trials"]),
                          {"kind": "codec-contract", "codec": name, "mode": "tail-split", **v["first"]},
                          match_keys={"kind": "codec-contract", "codec": name, "mode": "tail-split"})
    ctx["codec_faults"] = faults
    rep.extra["codec_contract_cases"] = len(jobs)


# ======================================================================================================
# (c) end-to-end sessions through the public API
# ======================================================================================================
TEXTURES = ["random", "period", "text", "code", "zeros"]


def rand_component(rng):
    pools = [(0x21, 0x7E), (0x21, 0x7E), (0x20, 0x20), (0x01, 0x1F), (0x7F, 0xFF), (0x100, 0x2FFF), (0x3000, 0xD7FF), (0xE000, 0xFFFD),
             (0x10000, 0x10FFFF)]
    while True:
        n = rng.choice([1, 1, 2, 3, 8, 20])
        out = []
        while len(out) < n:
            lo, hi = rng.choice(pools)
            c = rng.randrange(lo, hi + 1)
            if c in (0x2F, 0x5C, 0):
                continue
            out.append(chr(c))
        s = "".join(out)
        if rng.random() < 0.1:
            s = "." + s
        if s not in (".", ".."):
            return s


def rand_name(rng):
    comps = [rand_component(rng) for _ in range(rng.choice([1, 1, 1, 2, 2, 3, 6]))]
    if rng.random() < 0.06:
        comps[0] = rng.choice(["c:", "C:x", "z:"]) + comps[0]
    return "/".join(comps)


def member_lengths(rng, block, tier):
    base = [0, 1, 15, 16, 17, 31, 32, 33]
    b = block
    around = [b - 1, b, b + 1, 2 * b - 1, 2 * b, 2 * b + 1]
    return base, [x for x in around if x >= 0]


def gen_spec(rng, tier, idx, chains, fast_only=False):
    """one session description (JSON-able); member bytes are regenerated from (n, texture, seed)"""
    names = sorted(chains)
    if fast_only:
        names = [n for n in names if n.split("+")[-1 if not n.endswith("+aes") else -2] in ("copy", "zstd", "deflate") or n in ("copy+aes", "lzma2", "aes")]
    if fast_only:
        chain = rng.choice(names)
    elif idx < len(names):
        chain = names[idx]                      # every chain at least once
    else:
        plain = [n for n in names if not n.endswith("aes")]
        chain = rng.choice(plain if rng.random() < 0.65 else names)
    aes = chain.endswith("aes")
    target = rng.choice(["path", "bytesio", "fileobj", "rawfile", "multivolume", "multivolume"])
    # block sizes below 16 and short reads at volume boundaries hand AESDecompressor chunks that do not complete a block
    # (ValueError before the repair of its unaligned branch: findings C01-aes-small-block, C01-short-read-aes, now fixed)
    block = rng.choice([None, None, 16, 17, 4096, 32768] + ([7, 7, 1] if aes and rng.random() < 0.3 else []))
    if fast_only:
        block = None
    limit = rng.choice([None, None, 1, 7, 4096])
    eff_block = block or (1 << 20)
    base, around = member_lengths(rng, eff_block, tier)
    nm = rng.choice([0, 1, 1, 2, 3, 5]) if not fast_only else rng.choice([1, 2])
    members, seen = [], set()
    total = 0
    for _ in range(nm):
        while True:
            name = rand_name(rng)
            if name not in seen:
                seen.add(name)
                break
        if rng.random() < (0.55 if not fast_only else 1.0) and (eff_block <= 32768 or fast_only):
            n = rng.choice(around)
        else:
            n = rng.choice(base + [rng.randrange(0, 3000)])
        if limit in (1, 7) and n > (600 if "ppmd" in chain else 4200):
            n = rng.choice(base)       # a chunk limit of 1 byte on a megabyte member is a million calls
        if chain in SLOW and n > 70000:
            n = rng.choice(base + [4097])
        total += n
        members.append([name, {"n": n, "texture": rng.choice(TEXTURES), "seed": rng.getrandbits(32)}])
    volume = rng.choice([64, 70, 100, 257, 1000, 4096, 4100])
    if target == "multivolume" and total // volume > 3000:
        volume = 4096 if total // 4096 <= 3000 else 1 << 20
    header = rng.choice(["raw", "encoded", "encoded", "encrypted"] if aes or rng.random() < 0.5 else ["raw", "encoded"])
    password = "pässwörd-%d" % rng.randrange(100) if (aes or header == "encrypted" or rng.random() < 0.1) else None
    if header == "encrypted" and password is None:
        header = "encoded"
    return {"chain": chain, "password": password, "header": header, "target": target, "volume": volume, "block": block, "limit": limit,
            "members": members, "api": rng.choice(["writestr", "writestr", "writef", "writef-buffered"])}


def member_bytes(m):
    from harness import arch
    return arch.pattern_bytes(random.Random(m["seed"]), m["n"], m["texture"])


class _Patched:
    def __init__(self, block, limit):
        self.block, self.limit = block, limit

    def __enter__(self):
        import py7zr.compressor as C
        import py7zr.py7zr as P
        self.saved = (C.get_default_blocksize, P.get_default_blocksize, P.get_memory_limit)
        if self.block:
            C.get_default_blocksize = lambda: self.block
            P.get_default_blocksize = lambda: self.block
        if self.limit:
            P.get_memory_limit = lambda: self.limit

    def __exit__(self, *a):
        import py7zr.compressor as C
        import py7zr.py7zr as P
        C.get_default_blocksize, P.get_default_blocksize, P.get_memory_limit = self.saved


def _read_back(src, password):
    import py7zr
    from harness import arch
    with py7zr.SevenZipFile(src, "r", password=password) as z:
        names = z.getnames()
        fac = arch.Collect()
        z.extractall(factory=fac)
    return names, fac.as_list()


def run_session(spec):
    """write, reopen, compare.  Returns {"status": "ok"} or {"status": "fail", "stage", "exc", "msg", ...}"""
    import multivolumefile
    import py7zr
    chains = all_chains()
    filters = chains[spec["chain"]]
    members = [(name, member_bytes(m)) for name, m in spec["members"]]
    tmp = tempfile.mkdtemp(prefix="s-", dir=spec.get("_tmp"))   # inside the parent's scratch root: removed even if this child dies
    info = {"packsize": None}
    try:
        with _Patched(spec["block"], spec["limit"]):
            path = os.path.join(tmp, "a.7z")
            kind = spec["target"]
            bio = None
            stage = "write"
            try:
                if kind == "path":
                    dest, closer = path, None
                elif kind == "bytesio":
                    dest = bio = io.BytesIO()
                    closer = None
                elif kind == "fileobj":
                    dest = closer = open(path, "w+b")
                elif kind == "rawfile":
                    dest = closer = open(path, "w+b", buffering=0)
                else:
                    dest = closer = multivolumefile.open(path, "wb", volume=spec["volume"])
                try:
                    with py7zr.SevenZipFile(dest, "w", filters=filters, password=spec["password"],
                                            header_encryption=spec["header"] == "encrypted") as z:
                        if spec["header"] == "raw":
                            z.set_encoded_header_mode(False)
                        for i, (name, data) in enumerate(members):
                            if spec["api"] == "writestr":
                                z.writestr(data, name)
                            elif spec["api"] == "writef":
                                z.writef(io.BytesIO(data), name)
                            else:
                                src = os.path.join(tmp, "src%d" % i)
                                with open(src, "wb") as f:
                                    f.write(data)
                                with open(src, "rb") as f:
                                    z.writef(f, name)
                        stage = "close"
                    info["packsize"] = None
                finally:
                    if closer is not None:
                        closer.close()
                stage = "read"
                if kind == "path":
                    names, prods = _read_back(path, spec["password"])
                elif kind == "bytesio":
                    bio.seek(0)
                    names, prods = _read_back(bio, spec["password"])
                elif kind == "fileobj":
                    with open(path, "rb") as f:
                        names, prods = _read_back(f, spec["password"])
                elif kind == "rawfile":
                    with open(path, "rb", buffering=0) as f:
                        names, prods = _read_back(f, spec["password"])
                else:
                    info["volumes"] = len(os.listdir(tmp))
                    with multivolumefile.open(path, "rb") as mv:
                        names, prods = _read_back(mv, spec["password"])
            except Exception as e:  # noqa
                out = {"status": "fail", "stage": stage, "exc": type(e).__name__, "msg": str(e)[:160],
                       "where": traceback.extract_tb(e.__traceback__)[-1].name, **info}
                if kind == "multivolume" and stage == "read":
                    # does the same archive read back when the volumes are presented as one stream with full reads?
                    try:
                        vols = sorted(p for p in os.listdir(tmp) if p.startswith("a.7z."))
                        whole = b"".join(open(os.path.join(tmp, v), "rb").read() for v in vols)
                        names, prods = _read_back(io.BytesIO(whole), spec["password"])
                        out["fullread_ok"] = names == [n for n, _ in members] and prods == [(n, d) for n, d in members]
                        if out["fullread_ok"]:
                            out["packsize"] = _packsize(whole, spec["password"])
                    except Exception as e2:  # noqa
                        out["fullread_ok"] = False
                        out["fullread_exc"] = "%s: %s" % (type(e2).__name__, str(e2)[:100])
                return out
        want_names = [n for n, _ in members]
        if names != want_names:
            return {"status": "fail", "stage": "names", "exc": "", "msg": "getnames() = %r, written %r" % (names[:4], want_names[:4]), **info}
        if [n for n, _ in prods] != want_names:
            return {"status": "fail", "stage": "product-names", "exc": "",
                    "msg": "delivered under %r, written %r" % ([n for n, _ in prods][:4], want_names[:4]), **info}
        for (n, got), (_, want) in zip(prods, members):
            if got != want:
                i = next((k for k in range(min(len(got), len(want))) if got[k] != want[k]), min(len(got), len(want)))
                return {"status": "fail", "stage": "content", "exc": "",
                        "msg": "member %r: %d bytes delivered, %d written, first difference at %d" % (n, len(got), len(want), i), **info}
        return {"status": "ok", **info}
    finally:
        shutil.rmtree(tmp, ignore_errors=True)


def _packsize(blob, password):
    """[pack size of the folder, offset of the next header]: the folder's packed stream occupies 32 .. 32+packsize, the
    packed stream of an encoded header 32+packsize .. 32+nextheaderofs"""
    import py7zr
    with py7zr.SevenZipFile(io.BytesIO(blob), "r", password=password) as z:
        ms = z.header.main_streams
        return [0 if ms is None else int(sum(ms.packinfo.packsizes)), int(z.sig_header.nextheaderofs)]


class _Alarm(Exception):
    pass


def _die_with_parent():
    """a sandbox child that spins must not outlive a killed check"""
    try:
        import ctypes
        import signal
        ctypes.CDLL("libc.so.6", use_errno=True).prctl(1, signal.SIGKILL)   # PR_SET_PDEATHSIG
    except Exception:  # noqa
        pass


class NoProgress(Exception):
    """SevenZipDecompressor.decompress returned nothing 100000 times in a row without consuming input or advancing any
    coder of its chain: the caller loops
    (Worker.decompress, Header._read) have no progress guard and would never return (Decomp.worker_spins)"""


def _install_spin_detector():
    import py7zr.compressor as C
    if getattr(C.SevenZipDecompressor.decompress, "_c01", False):
        return
    orig = C.SevenZipDecompressor.decompress

    def decompress(self, fp, max_length=-1):
        before = (self.consumed, sum(self._unpacked))     # an inner coder that advances is progress
        res = orig(self, fp, max_length)
        if len(res) == 0 and (self.consumed, sum(self._unpacked)) == before and max_length != 0:
            self._c01_idle = getattr(self, "_c01_idle", 0) + 1
            if self._c01_idle > 100000:
                raise NoProgress("decompress() idle 100000 times: the extraction loop does not terminate")
        else:
            self._c01_idle = 0
        return res
    decompress._c01 = True
    C.SevenZipDecompressor.decompress = decompress


def batch_worker(specs):
    """runs in a sandbox child.  A session that spins in Python code (Worker.decompress has no progress guard) is ended by
    SIGALRM; one stuck inside a C extension is ended by the parent's timeout on the whole child"""
    import signal
    _die_with_parent()
    _install_spin_detector()

    def on_alarm(signum, frame):
        raise _Alarm()
    signal.signal(signal.SIGALRM, on_alarm)
    out = []
    limit = specs[0].get("_alarm", 45) if specs else 45
    for s in specs:
        t = time.time()
        signal.alarm(limit)
        try:
            r = run_session(s)
        except _Alarm:
            r = {"status": "fail", "stage": "spin", "exc": "timeout", "msg": "session did not finish within %d s" % limit}
        except BaseException as e:  # noqa
            r = {"status": "fail", "stage": "harness", "exc": type(e).__name__, "msg": str(e)[:200]}
        finally:
            signal.alarm(0)
        r["t"] = round(time.time() - t, 2)
        out.append(r)
    return out


def run_specs(specs, per_batch, timeout_one=200, unexplained=None, stop_after=40):
    """every session in a child process (a codec may crash or the extraction loop may spin); a batch that dies is
    re-run one by one to find the session responsible; a session ended by the alarm is run once more alone with a
    longer limit (a loaded machine is not a spinning loop).  `unexplained(spec, result)` says whether a failure is
    outside the listed findings: after `stop_after` of those no further batches are started (the verdict is settled;
    a tree on which every second extraction spins would otherwise take hours)."""
    from harness.sandbox import run_sandboxed
    root = tempfile.mkdtemp(prefix="c01-")
    try:
        return _run_specs(run_sandboxed, [dict(s, _tmp=root) for s in specs], specs, per_batch, unexplained, stop_after)
    finally:
        shutil.rmtree(root, ignore_errors=True)


def _run_specs(run_sandboxed, tspecs, specs, per_batch, unexplained, stop_after):
    """tspecs = specs with the scratch root added (what the children get); results are paired with the plain specs"""
    plain = {id(t): s for t, s in zip(tspecs, specs)}
    batches = [tspecs[i:i + per_batch] for i in range(0, len(tspecs), per_batch)]
    state = {"bad": 0, "skipped": 0}

    def single(s, limit):
        r = run_sandboxed("harness.c01:batch_worker", [dict(s, _alarm=limit)], timeout=limit + 60, mem_mb=4000)
        if r["status"] == "ok":
            return r["value"][0]
        return {"status": "fail", "stage": "process", "exc": r["status"], "msg": "child %s rc=%s %s" % (
            r["status"], r.get("rc"), (r.get("stderr") or "")[-120:])}

    def do(batch):
        if state["bad"] >= stop_after:
            state["skipped"] += len(batch)
            return []
        res = run_sandboxed("harness.c01:batch_worker", batch, timeout=50 * len(batch) + 40, mem_mb=4000)
        if res["status"] == "ok":
            out = [(s, r if r.get("stage") != "spin" else single(s, 150)) for s, r in zip(batch, res["value"])]
        else:
            out = [(s, single(s, 150)) for s in batch]
        out = [(plain[id(s)], r) for s, r in out]
        if unexplained is not None:
            state["bad"] += sum(1 for s, r in out if r["status"] != "ok" and unexplained(s, r))
        return out
    with ThreadPoolExecutor(16) as ex:
        parts = list(ex.map(do, batches))
    run_specs.skipped = state["skipped"]
    return [x for p in parts for x in p]


def classify(ctx, spec, r):
    """(description, match_keys) of a failed session"""
    model = ctx["model"]
    chain = spec["chain"]
    parts = chain.split("+")
    aes = chain.endswith("aes")
    total = sum(m["n"] for _, m in spec["members"])
    keys = {"kind": "roundtrip", "chain": chain, "stage": r["stage"], "exc": r["exc"], "target": spec["target"]}
    desc = "%s %s %s" % (r["stage"], r["exc"], r["msg"])
    if spec["target"] == "multivolume" and r["stage"] == "read" and r.get("fullread_ok") is False and r.get("fullread_exc"):
        # the archive does not read back from one full-read stream either: judge that failure (the volumes only add to it)
        e, _, m = r["fullread_exc"].partition(": ")
        r = dict(r, exc=e, msg=m)
        desc = "%s %s %s (also when the volumes are presented as one stream)" % (r["stage"], r["exc"], r["msg"])
        keys.update(exc=e)
    if spec["target"] == "multivolume" and r["stage"] == "read" and r.get("fullread_ok"):
        # the archive is intact: the same bytes read back through a stream that never returns short reads
        where = "aes" if (r["exc"] == "ValueError" and "16 byte" in r["msg"]) else "header"
        keys = {"kind": "short-read", "where": where}
        desc = "multi-volume archive (volume size %d, %s volumes) is written correctly (reads back as one stream) but through " \
               "multivolumefile, whose read() stops at volume boundaries, reopening fails: %s" % (spec["volume"], r.get("volumes"), desc)
        if where == "aes" and model is not None and r.get("packsize"):
            # the model's verdict on the read schedule _read_data produces on these volumes (RoundTrip.mv_chunks /
            # dec_sizes_ok = Aes.dec_chunks_ok): for the folder's stream and for the stream of an encrypted header
            bs = spec["block"] or (1 << 20)
            psz, nho = r["packsize"]
            ok_all = True
            if aes and psz > 0:
                ok_all = ok_all and model.call("mv_chunks_t", [200000, 32, psz, bs, spec["volume"]])[1] == 1
            if spec["header"] == "encrypted" and nho > psz:
                ok_all = ok_all and model.call("mv_chunks_t", [200000, 32 + psz, nho - psz, bs, spec["volume"]])[1] == 1
            if ok_all:
                keys = {"kind": "short-read-unexplained", "where": "aes"}   # the model says these schedules are fine
                desc = "MODEL DISAGREES (predicts a safe read schedule): " + desc
        return desc, keys
    if spec["target"] == "multivolume" and r["exc"] == "RecursionError" and r["stage"] in ("write", "close"):
        keys = {"kind": "multivolume-recursion"}
        return "multivolumefile.MultiVolume.write() recurses once per volume: one fp.write() spanning about 1000 volumes or more " \
               "(volume size %d) exceeds the recursion limit while the archive is being written: %s" % (spec["volume"], desc), keys
    if aes and spec["block"] is not None and spec["block"] < 16 and r["exc"] == "ValueError" and (
            "16 byte" in r["msg"] or ("ppmd" in chain and "Not enough data" in r["msg"])):
        keys = {"kind": "aes-small-block", "block": spec["block"]}
        return "I/O block size %d < 16 with 7zAES: AESDecompressor receives chunks that leave 0 < residue+chunk < 16: %s" % (spec["block"], desc), keys
    if aes and "brotli" in parts and r["stage"] == "read" and r["exc"] == "error":
        keys = {"kind": "aes-padding", "codec": "brotli"}
        return "brotli followed by 7zAES: the zero padding AES adds to the packed brotli stream is handed to the brotli decoder " \
               "(the gate on _unpacksizes does not trim it): %s" % desc, keys
    bcjs = [p for p in parts if p in ("x86", "arm", "armt", "ppc", "sparc")]
    if aes and bcjs and "lzma2" not in parts and r["stage"] == "read" and r["exc"] == "CrcError" and model is not None:
        # diagnosis: the same members round trip when either the BCJ filter or 7zAES is left out of the chain
        base = dict(spec, target="bytesio", block=None, limit=None)
        without_aes = dict(base, chain="+".join(parts[:-1]), password=None, header="encoded")
        without_bcj = dict(base, chain="+".join(p for p in parts if p not in bcjs))
        both = run_specs([base, without_aes, without_bcj], 1)
        if [x[1]["status"] for x in both] == ["fail", "ok", "ok"]:
            keys = {"kind": "aes-padding", "codec": "bcj"}
            return "BCJ filter (%s) with 7zAES: the zero padding AES adds travels through the chain into the BCJ decoder, which then " \
                   "converts an opcode in the last bytes of the stream that the encoder left alone (same members are fine without 7zAES " \
                   "and without the filter): %s" % (bcjs[0], desc), keys
    if bcjs and "lzma2" not in parts and r["stage"] == "read" and r["exc"] == "CrcError" and model is not None \
            and ctx.get("codec_faults", {}).get(bcjs[0]):
        # diagnosis: the same session (same block size and chunk limit) is fine without the BCJ filter
        without_bcj = dict(spec, chain="+".join(p for p in parts if p not in bcjs), target="bytesio" if spec["target"] == "multivolume" else spec["target"])
        if run_specs([without_bcj], 1)[0][1]["status"] == "ok":
            keys = {"kind": "bcj-tail", "filter": bcjs[0]}
            return "BCJ filter (%s) in front of a non-LZMA codec: the codec's decoder delivers the end of its stream in a separate piece and " \
                   "pybcj's decoder has by then flushed the beginning of the last instruction word unconverted (the codec contract " \
                   "validation shows the same on the wrapper class alone; the same session is fine without the filter): %s" % (bcjs[0], desc), keys
    if any(p.startswith("ppmd") for p in parts) and total >= 32768 and r["stage"] == "process" and r["exc"] in ("crash", "timeout"):
        # the interpreter died or hung inside pyppmd's decoder (a race between its decoder thread and the caller; about two
        # in a hundred long runs of many decode calls; the contract validation shows it on the wrapper class alone)
        keys = {"kind": "codec-fault", "codec": "ppmd", "outcome": r["exc"]}
        return "PPMd member data of %d bytes: the process %s inside pyppmd's Ppmd7Decoder: %s" % (
            total, "crashed" if r["exc"] == "crash" else "hung", desc), keys
    if any(p.startswith("ppmd") for p in parts) and total >= 32768 and (
            r["exc"] in ("crash", "ValueError", "timeout", "CrcError", "Bad7zFile", "NoProgress") or r["stage"] in ("content", "process", "spin")):
        if ctx.get("codec_faults", {}).get("ppmd"):
            keys = {"kind": "codec-fault", "codec": "ppmd", "outcome": r["exc"] or r["stage"]}
            return "PPMd member data of %d bytes: pyppmd's decoder fails on its own encoder's output (the codec contract " \
                   "validation shows the same without py7zr's containers): %s" % (total, desc), keys
    return desc, keys


def check_e2e(ctx, rep, rng, tier):
    chains = all_chains()
    n = 440 if tier == "quick" else 11000
    specs = [gen_spec(rng, tier, i, chains) for i in range(n)]
    # default block size with members around the block size: fast chains only
    nbig = 24 if tier == "quick" else 400
    specs += [gen_spec(rng, tier, i, chains, fast_only=True) for i in range(nbig)]
    if tier != "quick":
        # slower codecs at the default block size
        for i in range(160):
            s = gen_spec(rng, tier, i, chains, fast_only=True)
            s["chain"] = rng.choice(["lzma2", "lzma", "bzip2", "ppmd", "brotli", "x86+lzma2", "delta+lzma2", "lzma2+aes", "x86+bzip2", "deflate64"])
            if s["chain"].endswith("aes") and not s["password"]:
                s["password"] = "pw"
            specs.append(s)
    # the public-API scenario of the AES short-chunk refutation at the DEFAULT block size:
    # volumes of 1 MiB + 4 bytes, a little over 2 MiB of encrypted data
    specs.append({"chain": "copy+aes", "password": "pw", "header": "encoded", "target": "multivolume", "volume": (1 << 20) + 4,
                  "block": None, "limit": None, "api": "writestr",
                  "members": [["big.bin", {"n": 2097200 - 32 - 16, "texture": "random", "seed": 7}], ["tail", {"n": 40, "texture": "text", "seed": 8}]]})
    # one fixed witness per listed finding, so that its KNOWN-FINDING line does not depend on the random draw
    specs.append({"chain": "copy+aes", "password": "pw", "header": "encoded", "target": "bytesio", "volume": 4096, "block": 7,
                  "limit": None, "api": "writestr", "members": [["s", {"n": 40, "texture": "text", "seed": 2}]]})
    specs.append({"chain": "brotli+aes", "password": "pw", "header": "encoded", "target": "bytesio", "volume": 4096, "block": None,
                  "limit": None, "api": "writestr", "members": [["b", {"n": 300, "texture": "text", "seed": 3}]]})
    for nbytes in (1, 2, 3, 4, 5, 6, 7, 8):   # the header lands on a boundary of the 64-byte volumes for some of these
        specs.append({"chain": "copy", "password": None, "header": "raw", "target": "multivolume", "volume": 64, "block": None,
                      "limit": None, "api": "writestr", "members": [["h", {"n": nbytes, "texture": "text", "seed": 4}]]})
    specs.append({"chain": "x86+copy+aes", "password": "pw", "header": "encoded", "target": "bytesio", "volume": 4096, "block": None,
                  "limit": None, "api": "writestr",
                  "members": [["a", {"n": 2259, "texture": "random", "seed": 247785857}], ["b", {"n": 16, "texture": "code", "seed": 3529851951}],
                              ["c", {"n": 17, "texture": "text", "seed": 3335807435}], ["d", {"n": 15, "texture": "zeros", "seed": 3738665499}],
                              ["e", {"n": 34, "texture": "code", "seed": 4084298911}]]})
    # ARM filter in front of PPMd, 32 bytes whose last word is a branch instruction: everything else at its default
    specs.append({"chain": "arm+ppmd", "password": None, "header": "encoded", "target": "bytesio", "volume": 4096, "block": None,
                  "limit": None, "api": "writestr", "members": [["t", {"n": 32, "texture": "period", "seed": 3267632319}]]})
    for n_, seed_ in ((40000, 2), (70001, 2), (70001, 5), (200003, 6)):     # PPMd on incompressible data of more than 32 KiB
        specs.append({"chain": "ppmd", "password": None, "header": "encoded", "target": "bytesio", "volume": 4096, "block": None,
                      "limit": None, "api": "writestr", "members": [["p", {"n": n_, "texture": "random", "seed": seed_}]]})
    # one write() spanning more than 1000 volumes of 64 bytes
    specs.append({"chain": "copy", "password": None, "header": "encoded", "target": "multivolume", "volume": 64, "block": None,
                  "limit": None, "api": "writestr", "members": [["m", {"n": 100000, "texture": "text", "seed": 1}]]})
    def unexplained(spec, r):
        return "ppmd" not in spec["chain"] and classify(dict(ctx, model=None), spec, r)[1]["kind"] in ("roundtrip", "short-read-unexplained")
    results = run_specs(specs, per_batch=6 if tier == "quick" else 20, unexplained=unexplained)
    if run_specs.skipped:
        rep.extra["e2e_sessions_not_run"] = "%d (stopped after 40 failures outside the listed findings)" % run_specs.skipped
    if ctx.get("contracts_thread") is not None:
        ctx["contracts_thread"].join()      # classification of PPMd failures looks at the contract validation
    ok = 0
    for spec, r in results:
        nontrivial = any(m["n"] > 0 for _, m in spec["members"])
        rep.count(("e2e", json.dumps(spec, sort_keys=True)), nontrivial=nontrivial)
        rep.dist("e2e_chain", spec["chain"])
        rep.dist("e2e_target", spec["target"])
        rep.dist("e2e_header", spec["header"])
        rep.dist("e2e_block", spec["block"])
        rep.dist("e2e_limit", spec["limit"])
        rep.dist("e2e_members", len(spec["members"]))
        for _, m in spec["members"]:
            rep.dist("e2e_member_len", _len_class(m["n"], spec["block"] or (1 << 20)))
        if r["status"] == "ok":
            ok += 1
            continue
        desc, keys = classify(ctx, spec, r)
        rep.dist("e2e_failure_kind", keys["kind"])
        rep.violation("session [chain %s, password %s, header %s, target %s, block %s, chunk limit %s, %d members, %s]: %s" % (
            spec["chain"], "yes" if spec["password"] else "no", spec["header"], spec["target"], spec["block"], spec["limit"],
            len(spec["members"]), spec["api"], desc), {"kind": "session", "spec": spec, "result": r}, match_keys=keys)
    rep.sample({"session": specs[0]})
    rep.extra["e2e_sessions"] = len(specs)
    rep.extra["e2e_ok"] = ok


def _len_class(n, b):
    if n in (0, 1, 15, 16, 17, 31, 32, 33):
        return str(n)
    for k, name in ((b - 1, "block-1"), (b, "block"), (b + 1, "block+1"), (2 * b - 1, "2block-1"), (2 * b, "2block"), (2 * b + 1, "2block+1")):
        if n == k:
            return name
    return "other<%d" % (10 ** len(str(n)))


# ------------------------------------------------------------------------------------------------------
# archives py7zr cannot write itself: two size-changing coders in one solid folder (reference writer of C06)
FOREIGN_CHAINS = ["deflate>lzma2", "lzma2>deflate", "bzip2>copy", "delta+lzma2"]


def foreign_batch(cases):
    """run in a sandbox child.  A solid folder [coder A, coder B] with tiny and empty members: SevenZipDecompressor passes
    the member's max_length to every coder, so the inner coder hands the outer one a few bytes per round and many rounds
    deliver nothing although the chain advances (the stall guard must not mistake them for the end of the stream)."""
    import py7zr  # noqa
    from harness import arch
    from ref import refwriter
    _die_with_parent()
    _install_spin_detector()
    out = []
    for c in cases:
        rng = random.Random(c["seed"])
        members = []
        for i, n in enumerate(c["sizes"]):
            members.append({"name": "m%d" % i, "kind": "file", "data": arch.pattern_bytes(rng, n, c["texture"]),
                            "mtime": 132223106129620810 + i, "attr": 0x20, "ctime": None, "atime": None})
        blob = refwriter.write_archive(members, {"folders": [list(range(len(members)))], "coders": [c["chain"]],
                                                "crc": c["crc"], "header": "raw"})
        with _Patched(c["block"], c["limit"]):
            r = arch.read_archive(blob)
        want = [(m["name"], m["data"]) for m in members]
        if r[0] == "ok" and r[1] == [n for n, _ in want] and r[2] == want:
            out.append({"status": "ok"})
        else:
            out.append({"status": "fail", "exc": r[1] if r[0] == "err" else "", "msg": r[2] if r[0] == "err" else "wrong members"})
    return out


def check_foreign(ctx, rep, rng, tier):
    from harness.sandbox import run_sandboxed
    shapes = [[2, 0, 1000], [0, 1, 1], [1, 1, 1, 1, 1], [3, 70000], [0], [1], [5000, 0, 2, 0, 1], [17, 16, 15]]
    cases = []
    for chain in FOREIGN_CHAINS:
        for sizes in shapes:
            for limit in ((None, 1, 7) if tier == "quick" else (None, 1, 2, 7, 4096)):
                cases.append({"chain": chain, "sizes": sizes, "limit": limit, "block": rng.choice([None, None, 16, 4096]),
                              "crc": rng.choice(["substream", "folder"]), "texture": rng.choice(["text", "random", "period"]),
                              "seed": rng.getrandbits(32)})
    # fixed witness of the listed finding C01-foreign-gate-eof (block size 16: the end of the inner stream arrives after the
    # last coder has delivered its declared size)
    cases.append({"chain": "deflate>lzma2", "sizes": [1000, 16, 2, 3, 1], "limit": 4096, "block": 16, "crc": "folder",
                  "texture": "text", "seed": 2634434070})
    if tier != "quick":
        for _ in range(600):
            cases.append({"chain": rng.choice(FOREIGN_CHAINS), "sizes": [rng.choice([0, 1, 2, 3, 15, 16, 17, 100, 1000, 5000])
                                                                          for _ in range(rng.randrange(1, 7))],
                          "limit": rng.choice([None, 1, 2, 7, 4096]), "block": rng.choice([None, 16, 17, 4096]),
                          "crc": rng.choice(["substream", "folder"]), "texture": rng.choice(TEXTURES), "seed": rng.getrandbits(32)})
    batches = [cases[i:i + 12] for i in range(0, len(cases), 12)]

    def do(batch):
        res = run_sandboxed("harness.c01:foreign_batch", batch, timeout=60 * len(batch), mem_mb=4000)
        if res["status"] == "ok":
            return list(zip(batch, res["value"]))
        return [(c, {"status": "fail", "exc": res["status"], "msg": "child %s" % res.get("rc")}) for c in batch]
    with ThreadPoolExecutor(16) as ex:
        results = [x for part in ex.map(do, batches) for x in part]
    for c, r in results:
        rep.count(("foreign", json.dumps(c, sort_keys=True)), nontrivial=sum(c["sizes"]) > 0)
        rep.dist("foreign_chain", c["chain"])
        if r["status"] != "ok":
            rep.violation("solid folder %s (written by the reference writer) with members of %r bytes, chunk limit %s, block size %s: "
                          "%s %s" % (c["chain"], c["sizes"], c["limit"], c["block"], r["exc"], r["msg"]),
                          {"kind": "foreign", "case": c, "result": r},
                          match_keys={"kind": "foreign-two-coder", "chain": c["chain"], "exc": r["exc"]})
    rep.extra["foreign_cases"] = len(cases)


# ======================================================================================================
def run(ctx):
    rep, tier = ctx["rep"], ctx["tier"]
    rng = random.Random(ctx["seed"])
    rep.cov["rule"] = ("correspondence: random call sequences on real objects with toy stages, distinct by (stages, sizes, schedule); "
                       "contracts: every codec wrapper x lengths 0..2 MiB x textures x chunkings; sessions: every accepted chain x "
                       "header mode x target kind x block size x chunk limit x boundary-directed member lengths; non-trivial = "
                       "some member/packed stream non-empty; distinct by the whole case description")
    q = tier == "quick"
    if ctx["model"] is not None:
        from harness import decgen, compgen
        for part, n in ((check_translation, 400 if q else 5000), (decgen.check_decompress, 3000 if q else 60000), (compgen.check_compress, 2000 if q else 40000), (corr_crc, 60 if q else 400), (corr_aes, 1500 if q else 20000), (corr_decompress, 3000 if q else 40000),
                        (corr_worker, 1500 if q else 20000), (corr_compress, 2000 if q else 30000), (corr_unpacksizes, 300 if q else 3000)):
            try:
                part(ctx, rep, rng, n)
            except Exception as e:  # noqa
                rep.violation("%s raised %s: %s" % (part.__name__, type(e).__name__, e),
                              {"kind": "exception", "part": part.__name__, "trace": traceback.format_exc()[-1500:]},
                              concrete=False, match_keys={"kind": "exception"})
    # the contract validation runs beside the sessions (both are pools of sandboxed children); the sessions are
    # classified after both have finished
    import threading
    rng_c = random.Random(rng.getrandbits(64))
    crep = {"exc": None}

    def contracts():
        try:
            check_contracts(ctx, rep, rng_c, tier)
        except Exception as e:  # noqa
            crep["exc"] = (e, traceback.format_exc()[-1500:])
    th = threading.Thread(target=contracts)
    th.start()
    ctx["contracts_thread"] = th
    try:
        check_e2e(ctx, rep, rng, tier)
    except Exception as e:  # noqa
        rep.violation("check_e2e raised %s: %s" % (type(e).__name__, e),
                      {"kind": "exception", "part": "check_e2e", "trace": traceback.format_exc()[-1500:]},
                      concrete=False, match_keys={"kind": "exception"})
    try:
        check_foreign(ctx, rep, rng, tier)
    except Exception as e:  # noqa
        rep.violation("check_foreign raised %s: %s" % (type(e).__name__, e),
                      {"kind": "exception", "part": "check_foreign", "trace": traceback.format_exc()[-1500:]},
                      concrete=False, match_keys={"kind": "exception"})
    th.join()
    if crep["exc"]:
        rep.violation("check_contracts raised %s: %s" % (type(crep["exc"][0]).__name__, crep["exc"][0]),
                      {"kind": "exception", "part": "check_contracts", "trace": crep["exc"][1]},
                      concrete=False, match_keys={"kind": "exception"})


def replay(d):
    from harness.sandbox import run_sandboxed
    r = d["replay"]
    if r.get("kind") == "session":
        out = run_sandboxed("harness.c01:batch_worker", [r["spec"]], timeout=120, mem_mb=4000)
        print(json.dumps(out, default=str)[:1500])
        return 0 if out["status"] == "ok" and out["value"][0]["status"] == "ok" else 1
    if r.get("kind") == "foreign":
        out = run_sandboxed("harness.c01:foreign_batch", [r["case"]], timeout=120, mem_mb=4000)
        print(json.dumps(out, default=str)[:1500])
        return 0 if out["status"] == "ok" and out["value"][0]["status"] == "ok" else 1
    if r.get("kind") == "codec-contract" and r.get("mode") == "tail-split":
        mkenc, mkdec = codec_pairs()[r["codec"]]
        data, k = bytes.fromhex(r["data"]), r["second_piece"]
        e = mkenc()
        blob = e.compress(data) + e.flush()
        d = mkdec(len(data))
        out = d.decompress(blob[:len(data) - k]) + d.decompress(blob[len(data) - k:]) + d.decompress(b"")
        print("input", data.hex(), "decoded in two pieces", out.hex())
        return 0 if out == data else 1
    if r.get("kind") == "codec-contract":
        job = {k: r[k] for k in ("codec", "seed", "n", "texture", "blocks") if k in r}
        out = run_sandboxed("harness.c01:contract_case", job, timeout=120, mem_mb=4000)
        print(json.dumps(out, default=str)[:1500])
        return 0 if out["status"] == "ok" and out["value"]["prefix_ok"] and out["value"]["complete"] else 1
    print(json.dumps(r, default=str)[:3000])
    return 2
