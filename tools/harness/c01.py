"""C01 -- content round trip: what is written is what is read, for every codec chain.

Proof side: coq/props/C01.v (models Comp.v, Decomp.v, Aes.v, RoundTrip.v).
This module ties the models to the implementation and explores the implementation:

 (a) toy-codec correspondence: real SevenZipCompressor / SevenZipDecompressor / Worker.decompress /
     AESCompressor / AESDecompressor objects whose `.chain` (resp. `.cipher`) is replaced by Python
     mirrors of the Coq toy stages (resp. toy cipher) are driven with random adversarial call
     sequences (max_length values, short-read schedules) and every call's result is compared with the
     extracted model;
 (b) contract validation of every real codec wrapper class (the hypotheses of C01_roundtrip_chain):
     decoding any chunked encoding under any chunking / max_length pattern yields the input as a prefix;
 (c) end-to-end sessions through the public API over chains x password x header mode x target kind x
     block size x chunk limit x member lengths/textures/names, each in a sandboxed child process.
"""
import io
import json
import os
import random
import shutil
import sys
import tempfile
import time
import traceback
import zlib
from concurrent.futures import ThreadPoolExecutor

GEN_DEPS = []
LEVEL = "proof"
TRUSTED_BASE = [
    "Coq 8.16.1 kernel, vm_compute (no native_compute); no axioms (Print Assumptions: closed)",
    "hand models theories/Comp.v, Decomp.v, Aes.v (line-by-line transcriptions of compressor.py l.139-240, 671-728, "
    "893-935 and py7zr.py l.1461-1510), tied to the implementation by the per-call correspondence of this check",
    "the stage codecs (liblzma, zlib, bz2, pyzstd, pyppmd, brotli, bcj, inflate64, pycryptodome AES) are NOT modelled: "
    "their stream-encoder / prefix-safe-decoder / inverse contracts are hypotheses of the theorems, validated here on "
    "random chunkings",
    "theories/Crc32.v crc32_update as zlib.crc32 (differential-tested here)",
    "extraction (ExtrOcamlBasic only) + ocaml/driver.ml for running the model",
    "CPython 3.12 bytes/bytearray/memoryview slice semantics as modelled by py_slice / py_index",
]
ASSUMPTIONS = [
    "round trip theorems are partial-correctness statements (if the loops return, they return the members); that the "
    "implementation does return is explored under a watchdog",
    "header encoding/decoding of names, sizes and CRCs is covered by C07/C17/C06; here only through the end-to-end sessions",
    "fp.write appends (sequential writes into a fresh region of the file)",
]

_T0 = time.time()


# ======================================================================================================
# Python mirrors of the Coq toy stages (Decomp.toy_dstep, Comp.toy_cstep/toy_cflush) and of the toy cipher
# ======================================================================================================
class ToyDec:
    def __init__(self, tag, k, pend=b""):
        self.tag, self.k, self.pend = tag, k, bytes(pend)

    def decompress(self, data, max_length=-1):
        data = bytes(data)
        if self.tag == 1:
            avail = self.pend + data
            nrel = len(avail) if len(data) == 0 else max(0, len(avail) - max(self.k, 0))
            nout = nrel if max_length < 0 else min(nrel, max_length)
            self.pend = avail[nout:]
            return avail[:nout]
        if self.tag == 2:
            return bytes(b for x in data for b in (x, x))
        return data

    def tree(self):
        return [self.tag, self.k, list(self.pend)]


class ToyEnc:
    def __init__(self, tag, k, pend=b""):
        self.tag, self.k, self.pend = tag, k, bytes(pend)

    def compress(self, data):
        data = bytes(data)
        if self.tag == 1:
            avail = self.pend + data
            nout = max(0, len(avail) - max(self.k, 0))
            self.pend = avail[nout:]
            return avail[:nout]
        if self.tag == 2:
            return bytes(b for x in data for b in (x, x))
        if self.tag == 3:
            self.pend += data
            return b""
        if self.tag == 4:
            avail = self.pend + data
            kk = max(1, self.k)
            nout = len(avail) - len(avail) % kk
            self.pend = avail[nout:]
            return avail[:nout]
        return data

    def flush(self):
        if self.tag in (1, 3):
            out, self.pend = self.pend, b""
            return out
        if self.tag == 4:
            kk = max(1, self.k)
            if len(self.pend) == 0:
                return b""
            out = self.pend + bytes((-len(self.pend)) % kk)
            self.pend = b""
            return out
        if self.tag == 5:
            return bytes([self.k % 256])
        return b""

    def tree(self):
        return [self.tag, self.k, list(self.pend)]


class ToyCipher:
    """CBC over the block function x -> x xor 90 (Aes.toyE / toyD); raises like pycryptodome on misaligned data"""

    def __init__(self, iv):
        self.c = bytes(iv)

    def encrypt(self, data):
        data = bytes(data)
        if len(data) % 16:
            raise ValueError("Data must be padded to 16 byte boundary in CBC mode")
        out = bytearray()
        for i in range(0, len(data), 16):
            blk = data[i:i + 16]
            c = bytes((a ^ b) ^ 90 for a, b in zip(blk, self.c))
            out += c
            self.c = c
        return bytes(out)

    def decrypt(self, data):
        data = bytes(data)
        if len(data) % 16:
            raise ValueError("Data must be padded to 16 byte boundary in CBC mode")
        out = bytearray()
        for i in range(0, len(data), 16):
            blk = data[i:i + 16]
            out += bytes((a ^ 90) ^ b for a, b in zip(blk, self.c))
            self.c = blk
        return bytes(out)


def toy_aes_dec(iv, blocksize):
    import py7zr.compressor as C
    from py7zr.io import Buffer
    d = object.__new__(C.AESDecompressor)
    d.cipher = ToyCipher(iv)
    d.buf = Buffer(size=blocksize + 16)
    return d


def toy_aes_enc(iv, blocksize):
    import py7zr.compressor as C
    from py7zr.io import Buffer
    c = object.__new__(C.AESCompressor)
    c.cipher = ToyCipher(iv)
    c.buf = Buffer(size=blocksize + 32)
    c.flushed = False
    c.iv = bytes(iv)
    c.salt = b""
    c.cycles = 19
    return c


class SchedFp:
    """fp for SevenZipDecompressor: read(n) returns at most `k` bytes (k set by the driver before every call);
    mirrors Decomp.fp_read"""

    def __init__(self, data):
        self.data, self.pos, self.k = bytes(data), 0, None

    def read(self, n=-1):
        k = len(self.data) if self.k is None else self.k
        m = min(max(n, 0), k)
        out = self.data[self.pos:self.pos + m]
        self.pos += len(out)
        return out

    def tell(self):
        return self.pos


class SchedFd:
    """member source for SevenZipCompressor.compress: mirrors Comp.fd_read / fd_hd"""

    def __init__(self, data, sched):
        self.data, self.pos, self.sched = bytes(data), 0, list(sched)

    def read(self, n=-1):
        rest = len(self.data) - self.pos
        k = self.sched.pop(0) if self.sched else rest
        m = max(1, k) if n < 0 else min(n, max(1, k))
        out = self.data[self.pos:self.pos + m]
        self.pos += len(out)
        return out


ERR = {"EOFError": 5, "IndexError": 6, "ValueError": 6}


def _exc_code(e):
    return ERR.get(type(e).__name__)


def copy_coder():
    from py7zr.compressor import SupportedMethods
    from py7zr.properties import FILTER_COPY
    return {"method": SupportedMethods.get_method_id(FILTER_COPY), "properties": None, "numinstreams": 1, "numoutstreams": 1}


def make_decompressor(stages, us, isz, bsz):
    """a real SevenZipDecompressor whose chain is replaced; stages: list of ('toy', tag, k) | ('aes', iv)"""
    import py7zr.compressor as C
    n = max(1, min(4, len(stages)))
    d = C.SevenZipDecompressor([copy_coder() for _ in range(n)], isz, [0] * n, None, None, bsz)
    chain = []
    for s in stages:
        chain.append(ToyDec(s[1], s[2]) if s[0] == "toy" else toy_aes_dec(s[1], bsz))
    d.chain = chain
    d._unpacksizes = list(us)
    d._unpacked = [0 for _ in us]
    return d


def stage_tree(s):
    return [s[1], s[2], []] if s[0] == "toy" else [9, list(s[1]), []]


def rand_stages(rng, allow_aes, dec=True):
    n = rng.choice([1, 1, 2, 2, 3])
    stages = []
    for i in range(n):
        tags = [0, 1, 1, 2] if dec else [0, 1, 2, 3, 4, 5]
        stages.append(("toy", rng.choice(tags), rng.choice([0, 1, 2, 3, 5, -1, 16])))
    if allow_aes and rng.random() < 0.5:
        iv = bytes(rng.randrange(256) for _ in range(16))
        if dec:
            stages[0] = ("aes", iv)       # AES decrypts first
        else:
            stages[-1] = ("aes", iv)      # AES encrypts last
    return stages


# ======================================================================================================
# (a) correspondence
# ======================================================================================================
def corr_decompress(ctx, rep, rng, n_cases):
    model = ctx["model"]
    for case in range(n_cases):
        mixed = rng.random() < 0.45
        stages = rand_stages(rng, mixed)
        plen = rng.choice([0, 1, 5, 15, 16, 17, 31, 32, 33, 48, 64, 80, 100, 120])
        packed = bytes(rng.randrange(256) for _ in range(plen))
        if any(s[0] == "aes" for s in stages) and rng.random() < 0.7:
            packed = packed[:len(packed) - len(packed) % 16]
        isz = rng.choice([len(packed)] * 4 + [max(0, len(packed) - 3), len(packed) + 5, 0])
        bsz = rng.choice([1, 2, 3, 5, 7, 8, 15, 16, 17, 32, 33, 64, 1000])
        us = [rng.choice([1000, 1000, 1000, 10, 3, 0]) for _ in stages]
        if rng.random() < 0.05 and len(us) > 1:
            us = us[:-1]
        calls = [(rng.choice([-1, 0, 1, 2, 3, 5, 8, 16, 17, 33, 100]), rng.choice([0, 1, 2, 3, 7, 15, 16, 17, 40, 200]))
                 for _ in range(rng.randrange(1, 14))]
        fn = "mix_run_t" if mixed else "toy_run_t"
        want = model.call(fn, [[stage_tree(s) for s in stages], us, isz, bsz, list(packed), [[a, b] for a, b in calls]])
        d = make_decompressor(stages, us, isz, bsz)
        fp = SchedFp(packed)
        key = ("dec", tuple(stages), plen, isz, bsz, tuple(us), tuple(calls))
        rep.count(key, nontrivial=plen > 0)
        rep.dist("decompress_chain", "+".join("aes" if s[0] == "aes" else "toy%d" % s[1] for s in stages))
        bad = None
        for i, (ml, rd) in enumerate(calls):
            fp.k = rd
            try:
                got = ("ok", bytes(d.decompress(fp, ml)))
            except Exception as e:  # noqa
                got = ("err", _exc_code(e), type(e).__name__)
            if i >= len(want):
                bad = "model trace ended before call %d" % i
                break
            w = want[i]
            if w[0] == 0:
                if got[0] != "ok" or got[1] != bytes(w[1]):
                    bad = "call %d decompress(max_length=%d, read<=%d): implementation %r, model Ok %s" % (
                        i, ml, rd, got if got[0] != "ok" else got[1].hex(), bytes(w[1]).hex())
                    break
            else:
                if got[0] != "err" or got[1] != w[1]:
                    bad = "call %d decompress(max_length=%d, read<=%d): implementation %r, model Err %d" % (i, ml, rd, got, w[1])
                break
        if bad:
            rep.violation("SevenZipDecompressor with toy stages disagrees with Decomp.v: " + bad,
                          {"kind": "corr-decompress", "stages": [list(map(_js, s)) for s in stages], "us": us, "isz": isz, "bsz": bsz,
                           "packed": packed.hex(), "calls": calls}, concrete=False, match_keys={"kind": "corr-decompress"})
            return
    rep.extra["corr_decompress_cases"] = n_cases


def _js(x):
    return x.hex() if isinstance(x, (bytes, bytearray)) else x


class _Spin(Exception):
    pass


class _Proxy:
    def __init__(self, d, fp, sched, fuel):
        self.d, self.fp, self.sched, self.fuel = d, fp, list(sched), fuel
        self.crc = None

    def decompress(self, fp, max_length=-1):
        if self.fuel <= 0:
            raise _Spin()
        self.fuel -= 1
        self.fp.k = self.sched.pop(0) if self.sched else len(self.fp.data) - self.fp.pos
        return self.d.decompress(fp, max_length)

    def check_crc(self):
        return True


class _Folder:
    def __init__(self, proxy):
        self.proxy = proxy

    def get_decompressor(self, compressed_size, reset=False):
        return self.proxy


def corr_worker(ctx, rep, rng, n_cases):
    """Worker.decompress (the caller loop) on real objects against worker_decompress / extract_members"""
    import py7zr.py7zr as P
    model = ctx["model"]
    saved = P.get_memory_limit
    try:
        for case in range(n_cases):
            stages = rand_stages(rng, True)
            plen = rng.choice([0, 3, 16, 32, 48, 64, 96])
            packed = bytes(rng.randrange(256) for _ in range(plen))
            isz = rng.choice([plen, plen, plen, max(0, plen - 16)])
            bsz = rng.choice([1, 3, 7, 16, 17, 32, 1000])
            us = [1000 for _ in stages]
            mb = rng.choice([1, 2, 7, 16, 1000])
            nm = rng.randrange(1, 4)
            sizes = [rng.choice([0, 1, 5, 16, 17, 40]) for _ in range(nm)]
            scheds = [[rng.choice([1, 2, 7, 16, 17, 100]) for _ in range(rng.randrange(0, 5))] for _ in range(nm)]
            fuel = 60
            want = model.call("mix_extract_t", [fuel, [stage_tree(s) for s in stages], us, isz, bsz, list(packed), sizes, mb, scheds])
            P.get_memory_limit = lambda: mb
            d = make_decompressor(stages, us, isz, bsz)
            fp = SchedFp(packed)
            w = P.Worker([], 0, None)
            outs, err = [], None
            for size, sched in zip(sizes, scheds):
                proxy = _Proxy(d, fp, sched, fuel)
                fq = io.BytesIO()
                try:
                    w.decompress(fp, _Folder(proxy), fq, size, None, 1 << 60, None)
                    outs.append(fq.getvalue())
                except _Spin:
                    err = 7
                    break
                except Exception as e:  # noqa
                    err = _exc_code(e) or type(e).__name__
                    break
            rep.count(("worker", tuple(stages), plen, isz, bsz, mb, tuple(sizes), repr(scheds)), nontrivial=sum(sizes) > 0)
            rep.dist("worker_outcome", "ok" if err is None else "err%s" % err)
            ok = (want[0] == 0 and err is None and [bytes(x) for x in want[1]] == outs) or (want[0] == 1 and err == want[1])
            if not ok:
                rep.violation("Worker.decompress with toy stages disagrees with Decomp.worker_decompress: implementation %s, model %r" % (
                    ("Ok %r" % [o.hex() for o in outs]) if err is None else "Err %s" % err, want),
                    {"kind": "corr-worker", "stages": [list(map(_js, s)) for s in stages], "isz": isz, "bsz": bsz, "packed": packed.hex(),
                     "sizes": sizes, "mb": mb, "scheds": scheds}, concrete=False, match_keys={"kind": "corr-worker"})
                return
    finally:
        P.get_memory_limit = saved
    rep.extra["corr_worker_cases"] = n_cases


def make_compressor(stages, bsz):
    import py7zr.compressor as C
    from py7zr.properties import FILTER_COPY
    n = max(1, min(4, len(stages)))
    c = C.SevenZipCompressor(filters=[{"id": FILTER_COPY} for _ in range(n)], blocksize=bsz)
    c.chain = [ToyEnc(s[1], s[2]) if s[0] == "toy" else toy_aes_enc(s[1], abs(bsz)) for s in stages]
    c._unpacksizes = [0 for _ in stages]
    return c


def corr_compress(ctx, rep, rng, n_cases):
    model = ctx["model"]
    for case in range(n_cases):
        mixed = rng.random() < 0.4
        stages = rand_stages(rng, mixed, dec=False)
        if rng.random() < 0.03:
            stages = []
        bsz = rng.choice([1, 2, 3, 5, 7, 15, 16, 17, 32, 100, -1])
        members = []
        for _ in range(rng.randrange(0, 4)):
            n = rng.choice([0, 1, 2, 15, 16, 17, 31, 33, 50])
            members.append((bytes(rng.randrange(256) for _ in range(n)), [rng.choice([0, 1, 2, 3, 16, 17, 100]) for _ in range(rng.randrange(0, 6))]))
        fuel = 80
        want = model.call("mix_session_t", [fuel, [stage_tree(s) for s in stages], bsz, [[list(m), s] for m, s in members]])
        c = make_compressor(stages, bsz)
        fp = io.BytesIO()
        infos, err = [], None
        try:
            for m, s in members:
                infos.append(list(c.compress(SchedFd(m, s), fp)))
            n = c.flush(fp)
        except Exception as e:  # noqa
            err = "%s: %s" % (type(e).__name__, e)
        rep.count(("comp", tuple(stages), bsz, tuple(members and [(m, tuple(s)) for m, s in members])), nontrivial=any(len(m) for m, _ in members))
        rep.dist("compress_chain", "+".join("aes" if s[0] == "aes" else "toy%d" % s[1] for s in stages) or "(empty)")
        bad = None
        if want[0] != 0:
            bad = "model returns Err %r" % (want,)
        elif err:
            bad = "implementation raises %s" % err
        else:
            (us, dg, ps, out, sts), winfos, wn = want[1]
            if [list(x) for x in winfos] != infos:
                bad = "(insize, foutsize, crc) per member: implementation %r model %r" % (infos, winfos)
            elif wn != n:
                bad = "flush returned %r, model %r" % (n, wn)
            elif bytes(out) != fp.getvalue():
                bad = "bytes written: implementation %s model %s" % (fp.getvalue().hex(), bytes(out).hex())
            elif list(us) != list(c._unpacksizes) or dg != c.digest or ps != c.packsize:
                bad = "_unpacksizes/digest/packsize: implementation %r model %r" % ((c._unpacksizes, c.digest, c.packsize), (us, dg, ps))
        if bad:
            rep.violation("SevenZipCompressor with toy stages disagrees with Comp.v: " + bad,
                          {"kind": "corr-compress", "stages": [list(map(_js, s)) for s in stages], "bsz": bsz,
                           "members": [[m.hex(), s] for m, s in members]}, concrete=False, match_keys={"kind": "corr-compress"})
            return
    rep.extra["corr_compress_cases"] = n_cases


def corr_aes(ctx, rep, rng, n_cases):
    """AESCompressor / AESDecompressor objects with the toy cipher against Aes.v, call by call"""
    model = ctx["model"]
    for case in range(n_cases):
        iv = bytes(rng.randrange(256) for _ in range(16))
        # compressor
        ops, py_ops = [], []
        for _ in range(rng.randrange(1, 9)):
            if rng.random() < 0.15:
                ops.append(0)
                py_ops.append(None)
            else:
                n = rng.choice([0, 1, 2, 7, 15, 16, 17, 31, 32, 33, 47, 48, 64, 100])
                b = bytes(rng.randrange(256) for _ in range(n))
                ops.append(list(b))
                py_ops.append(b)
        ops.append(0)
        py_ops.append(None)
        want = model.call("aes_c_run_t", [list(iv), [], ops])
        c = toy_aes_enc(iv, rng.choice([1, 16, 17, 64]))
        bad = None
        for i, op in enumerate(py_ops):
            try:
                got = ("ok", bytes(c.flush() if op is None else c.compress(op)))
            except Exception as e:  # noqa
                got = ("err", type(e).__name__)
            w = want[i]
            if (w[0] == 0 and (got[0] != "ok" or got[1] != bytes(w[1]))) or (w[0] == 1 and got[0] != "err"):
                bad = "AESCompressor op %d (%s): implementation %r, model %r" % (i, "flush" if op is None else "compress(%d bytes)" % len(op), got, w)
                break
            if w[0] == 1:
                break
        rep.count(("aesc", iv, tuple(map(lambda o: o if o is None else bytes(o), py_ops))), nontrivial=True)
        if bad:
            rep.violation(bad, {"kind": "corr-aes", "side": "compress", "iv": iv.hex(), "ops": [o if o is None else o.hex() for o in py_ops]},
                          concrete=False, match_keys={"kind": "corr-aes"})
            return
        # decompressor
        chunks = []
        for _ in range(rng.randrange(1, 9)):
            n = rng.choice([0, 0, 1, 5, 11, 15, 16, 17, 31, 32, 33, 48, 64])
            chunks.append(bytes(rng.randrange(256) for _ in range(n)))
        want = model.call("aes_d_run_t", [list(iv), [], [list(x) for x in chunks]])
        d = toy_aes_dec(iv, rng.choice([1, 16, 17, 64]))
        for i, ch in enumerate(chunks):
            try:
                got = ("ok", bytes(d.decompress(ch)))
            except Exception as e:  # noqa
                got = ("err", type(e).__name__)
            w = want[i]
            if (w[0] == 0 and (got[0] != "ok" or got[1] != bytes(w[1]))) or (w[0] == 1 and got[0] != "err"):
                bad = "AESDecompressor call %d (%d bytes): implementation %r, model %r" % (i, len(ch), got, w)
                break
            if w[0] == 1:
                rep.dist("aes_decompress_raises", "residue+chunk<16")
                break
        rep.count(("aesd", iv, tuple(chunks)), nontrivial=True)
        if bad:
            rep.violation(bad, {"kind": "corr-aes", "side": "decompress", "iv": iv.hex(), "chunks": [x.hex() for x in chunks]},
                          concrete=False, match_keys={"kind": "corr-aes"})
            return
    rep.extra["corr_aes_cases"] = n_cases


def corr_unpacksizes(ctx, rep, rng, n_cases):
    import py7zr.compressor as C
    from harness import arch
    model = ctx["model"]
    c = C.SevenZipCompressor(filters=[{"id": arch.FILTER_COPY}])
    for case in range(n_cases):
        mm = [rng.random() < 0.5 for _ in range(rng.randrange(0, 5))]
        us = [rng.randrange(0, 1000) for _ in range(rng.randrange(0, 5))]
        c.methods_map, c._unpacksizes = list(mm), list(us)
        try:
            got = [0, c.unpacksizes]
        except IndexError:
            got = [1, 6]
        want = model.call("unpacksizes_prop_t", [[1 if b else 0 for b in mm], us])
        rep.count(("unpacksizes", tuple(mm), tuple(us)), nontrivial=bool(mm))
        if got != want:
            rep.violation("SevenZipCompressor.unpacksizes %r on methods_map=%r _unpacksizes=%r, model %r" % (got, mm, us, want),
                          {"kind": "corr-unpacksizes", "mm": mm, "us": us}, concrete=False, match_keys={"kind": "corr-unpacksizes"})
            return
    # the decompressor's mirror, on chains the compressor accepts (all of them in the thorough tier)
    names = sorted(all_chains())
    if ctx["tier"] == "quick":
        names = [n for n in names if "aes" not in n][::3] + ["lzma2+aes", "copy+aes", "x86+lzma2+aes", "x86+zstd+aes"]
    for name in names:
        filters = all_chains()[name]
        try:
            comp = C.SevenZipCompressor(filters=filters, password="p" if arch.needs_pw(filters) else None)
        except Exception:  # noqa
            continue
        n = len(comp.coders)
        unp = [rng.randrange(1, 1000) for _ in range(n)]
        try:
            d = C.SevenZipDecompressor(comp.coders, 100, unp, None, "p", 64)
        except Exception as e:  # noqa
            rep.violation("SevenZipDecompressor cannot be built for the coders SevenZipCompressor made of %s: %s" % (name, e),
                          {"kind": "chain-construction", "chain": name}, match_keys={"kind": "chain-construction", "chain": name})
            continue
        # the constructor's `hack` may have changed methods_map after _unpacksizes... no: before; use the final map
        want = model.call("dec_unpacksizes_t", [[1 if b else 0 for b in d.methods_map], unp])
        rep.count(("dec_unpacksizes", name, tuple(unp)), nontrivial=True)
        if want != [0, list(d._unpacksizes)]:
            rep.violation("SevenZipDecompressor._unpacksizes %r for %s (methods_map %r, unpacksizes %r), model %r" % (
                d._unpacksizes, name, d.methods_map, unp, want), {"kind": "corr-unpacksizes", "chain": name}, concrete=False,
                match_keys={"kind": "corr-unpacksizes"})
            return


def corr_crc(ctx, rep, rng, n_cases):
    model = ctx["model"]
    from py7zr.helpers import calculate_crc32
    for _ in range(n_cases):
        n = rng.choice([0, 1, 2, 16, 100, 1000])
        b = bytes(rng.randrange(256) for _ in range(n))
        v = rng.choice([0, 0, rng.getrandbits(32)])
        got = calculate_crc32(b, v)
        want = model.call("crc32_update", [v, list(b)])
        rep.count(("crc", v, b), nontrivial=n > 0)
        if got != want or got != zlib.crc32(b, v):
            rep.violation("calculate_crc32 differs from Crc32.crc32_update on %d bytes" % n, {"kind": "corr-crc", "v": v, "data": b.hex()},
                          concrete=False, match_keys={"kind": "corr-crc"})
            return
    # the 1 MiB chunk loop of calculate_crc32 (not modelled): against zlib on a long buffer
    b = bytes(rng.randrange(256) for _ in range(1 << 10)) * 2100
    if calculate_crc32(b, 7) != zlib.crc32(b, 7):
        rep.violation("calculate_crc32 differs from zlib.crc32 on %d bytes" % len(b), {"kind": "corr-crc", "len": len(b)},
                      match_keys={"kind": "corr-crc"})


# ======================================================================================================
# chains
# ======================================================================================================
def all_chains():
    from harness import arch
    from py7zr.properties import FILTER_ARMTHUMB, FILTER_IA64, FILTER_POWERPC, FILTER_SPARC
    A = arch
    ch = dict(A.CHAINS)
    bcj = {"x86": A.FILTER_X86, "arm": A.FILTER_ARM, "armt": FILTER_ARMTHUMB, "ppc": FILTER_POWERPC, "sparc": FILTER_SPARC}
    comp = {"lzma2": {"id": A.FILTER_LZMA2, "preset": 1}, "lzma": {"id": A.FILTER_LZMA}, "bzip2": {"id": A.FILTER_BZIP2},
            "deflate": {"id": A.FILTER_DEFLATE}, "deflate64": {"id": A.FILTER_DEFLATE64}, "copy": {"id": A.FILTER_COPY},
            "zstd": {"id": A.FILTER_ZSTD, "level": 3}, "ppmd": {"id": A.FILTER_PPMD, "order": 6, "mem": 20},
            "brotli": {"id": A.FILTER_BROTLI, "level": 5}}
    for fn, fid in list(bcj.items()) + [("delta", A.FILTER_DELTA), ("ia64", FILTER_IA64)]:
        for cn in ("lzma2", "lzma"):
            ch["%s+%s" % (fn, cn)] = [{"id": fid}, comp[cn]]
            if cn == "lzma2" or fn in ("delta", "ia64"):
                ch["%s+%s+aes" % (fn, cn)] = [{"id": fid}, comp[cn], A.AES]
    for fn, fid in bcj.items():
        for cn in ("bzip2", "deflate", "deflate64", "copy", "zstd", "ppmd", "brotli"):
            ch["%s+%s" % (fn, cn)] = [{"id": fid}, comp[cn]]
            ch["%s+%s+aes" % (fn, cn)] = [{"id": fid}, comp[cn], A.AES]
    for cn in comp:
        ch.setdefault(cn, [comp[cn]])
        ch.setdefault(cn + "+aes", [comp[cn], A.AES])
    ch["delta4+lzma2"] = [{"id": A.FILTER_DELTA, "dist": 4}, comp["lzma2"]]
    ch["delta+x86+lzma2"] = [{"id": A.FILTER_DELTA}, {"id": A.FILTER_X86}, comp["lzma2"]]
    ch["delta+x86+lzma2+aes"] = [{"id": A.FILTER_DELTA}, {"id": A.FILTER_X86}, comp["lzma2"], A.AES]
    # parameter ranges
    ch["lzma2-p0"] = [{"id": A.FILTER_LZMA2, "preset": 0}]
    ch["lzma2-p6"] = [{"id": A.FILTER_LZMA2, "preset": 6}]
    ch["lzma2-p9e"] = [{"id": A.FILTER_LZMA2, "preset": 9 | 0x80000000}]
    ch["lzma-p6"] = [{"id": A.FILTER_LZMA, "preset": 6}]
    ch["zstd-1"] = [{"id": A.FILTER_ZSTD, "level": 1}]
    ch["zstd-19"] = [{"id": A.FILTER_ZSTD, "level": 19}]
    ch["brotli-0"] = [{"id": A.FILTER_BROTLI, "level": 0}]
    ch["brotli-11"] = [{"id": A.FILTER_BROTLI, "level": 11}]
    ch["ppmd-o2-m16"] = [{"id": A.FILTER_PPMD, "order": 2, "mem": 16}]
    ch["ppmd-o8-m24"] = [{"id": A.FILTER_PPMD, "order": 8, "mem": 24}]
    ch["ppmd-o6-16m"] = [{"id": A.FILTER_PPMD, "order": 6, "mem": "16m"}]
    ch["ppmd-o32-m26"] = [{"id": A.FILTER_PPMD, "order": 32, "mem": 26}]
    ch["default"] = None
    return ch


SLOW = ("lzma2-p9e", "lzma2-p6", "lzma-p6", "zstd-19", "brotli-11", "default", "ppmd-o32-m26")
