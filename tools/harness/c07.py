"""C07 -- writer conformance: every archive py7zr writes is well-formed 7z that an independent strict reader accepts."""
import io
import os
import random
import shutil
import struct
import tempfile
import zlib

import py7zr

from harness import arch, hdr
from ref import refreader

LEVEL = "proof"
TRUSTED_BASE = [
    "Coq 8.16.1 kernel, vm_compute; no axioms",
    "theories/Spec.v (strict reader + s_valid) as transcription of docs/archive_format.rst",
    "theories/Header.v write_header = hand model of Header.write and the .write methods (tied by the byte-for-byte "
    "correspondence run below on raw headers)",
    "tools/ref/refreader.py: signature header, encoded-header unwrapping, codec calls, independent 7zAES KDF (hashlib)",
    "extraction (ExtrOcamlBasic only) + ocaml/driver.ml",
]
ASSUMPTIONS = ["codec libraries decode what py7zr's wrappers encoded (validated member by member against the written bytes)"]

NAMES = ["a.txt", "dir/b.bin", "dir/sub/c", "üñí/日本.txt", "\U0001F600.bin", "sp ace", ".hidden", "c:drive", "x" * 60]
SIZES = [0, 1, 2, 15, 16, 17, 31, 32, 33, 100, 1000, 4095, 4096, 4097, 20000]


GEN_DEPS = ["write_uint64", "write_uint32", "write_real_uint64", "write_boolean", "write_crcs", "write_bytes", "write_byte", "PackInfo.__init__", "PackInfo.write", "Coder", "Bond.__init__", "Folder.__init__", "Folder.is_simple", "Folder.write", "UnpackInfo.__init__", "UnpackInfo.write", "SubstreamsInfo.__init__", "SubstreamsInfo.write", "StreamsInfo.__init__", "StreamsInfo.write", "write_utf16", "FileEntry", "FilesInfo.__init__", "FilesInfo._are_there", "FilesInfo._write_names", "FilesInfo._write_attributes", "FilesInfo._write_times[creationtime]", "FilesInfo._write_times[lastaccesstime]", "FilesInfo._write_times[lastwritetime]", "FilesInfo.write", "calculate_crc32", "SignatureHeader.__init__", "SignatureHeader.calccrc", "SignatureHeader.write", "SignatureHeader._write_skeleton", "HeaderStreamsInfo", "HeaderStreamsInfo.write"]

def gen_members(rng, n=None):
    """a session: (name, bytes) entries; bytes None = a directory entry (a session may consist of directories only)"""
    n = rng.choice([0, 1, 1, 2, 3, 4, 6]) if n is None else n
    names = rng.sample(NAMES, min(n, len(NAMES)))
    shape = rng.choice(["data", "data", "data", "mixed", "dirs"])
    out = []
    for nm in names:
        # write() strips drive-like prefixes by design (C16): directory entries, which go through write(), avoid them
        isdir = (shape == "dirs" or (shape == "mixed" and rng.random() < 0.4)) and not nm.startswith("c:")
        out.append((nm, None if isdir else
                    arch.pattern_bytes(rng, rng.choice(SIZES), rng.choice(["random", "text", "period", "code", "zeros"]))))
    return out


def write_case(rng, case):
    """returns (archive bytes, expected members [(name, kind, bytes)], password)"""
    chain, header_mode, sessions, tree = case["chain"], case["header"], case["sessions"], case["tree"]
    # the password holds precomposed letters, DEcomposed ones (a + U+0308, e + U+0301, Hangul jamo) and an astral character: the key
    # derivation hashes the UTF-16LE code units of the string AS GIVEN, so a writer that normalises (NFC/NFD/NFKC), case-folds or
    # re-encodes the password derives a key the independent reader (which hashes the exact string) cannot reproduce (seed C07-10)
    password = "pässwo\u0308rd\U0001F511cafe\u0301\u1100\u1161" if (arch.needs_pw(chain) or header_mode == "encrypted") else None
    if header_mode == "encrypted" and not arch.needs_pw(chain):
        password = "pw\u0301"
    expected = []
    bio = io.BytesIO()
    filters = arch.CHAINS[chain]
    tmp = None
    try:
        first = True
        for ms in sessions:
            bio.seek(0)
            with py7zr.SevenZipFile(bio, "w" if first else "a", filters=filters, password=password,
                                    header_encryption=(header_mode == "encrypted")) as z:
                if header_mode == "raw":
                    z.set_encoded_header_mode(False)
                if first and tree:
                    tmp = tempfile.mkdtemp(prefix="c07_")
                    root = os.path.join(tmp, "t")
                    os.makedirs(os.path.join(root, "emptydir"))
                    os.makedirs(os.path.join(root, "d"))
                    open(os.path.join(root, "d", "f.bin"), "wb").write(b"tree-file" * 10)
                    open(os.path.join(root, "zero"), "wb").close()
                    os.symlink("d/f.bin", os.path.join(root, "lnk"))
                    z.writeall(root, "t")
                    expected += [("t", "dir", b""), ("t/d", "dir", b""), ("t/d/f.bin", "file", b"tree-file" * 10),
                                 ("t/emptydir", "dir", b""), ("t/lnk", "file", b"d/f.bin"), ("t/zero", "file", b"")]
                for nm, d in ms:
                    if d is None:
                        if tmp is None:
                            tmp = tempfile.mkdtemp(prefix="c07_")
                        dp = os.path.join(tmp, "dir%d" % len(expected))
                        os.mkdir(dp)
                        z.write(dp, nm)
                        expected.append((nm, "dir", b""))
                    else:
                        z.writestr(d, nm)
                        expected.append((nm, "file", d))
            first = False
    finally:
        if tmp:
            shutil.rmtree(tmp, ignore_errors=True)
    return bio.getvalue(), expected, password


def check_raw_header_model(ctx, rep, data):
    """correspondence: the bytes of an unencoded header equal the model writer's output for the parsed graph"""
    model = ctx["model"]
    nh_ofs, nh_size, _ = struct.unpack("<QQL", data[12:32])
    raw = data[32 + nh_ofs: 32 + nh_ofs + nh_size]
    if raw[:1] != b"\x01":
        return
    st, tree = hdr.impl_parse(raw)
    if st != "ok":
        rep.violation("py7zr cannot parse the raw header it wrote (%s)" % tree, {"kind": "selfparse", "archive": data.hex()},
                      match_keys={"kind": "selfparse"})
        return
    # py7zr's in-memory graph after parsing == graph before writing for the fields write_header uses
    mw = hdr.model_write(model, tree, pos=32 + nh_ofs, enable_digests=bool(tree[0] and tree[0][0][0] and tree[0][0][0][0][3]))
    if mw[0] != "ok" or mw[1] != raw:
        rep.violation("model writer and implementation differ on a raw header (model %s)" % (mw[0] if mw[0] != "ok" else mw[1].hex()[:80]),
                      {"kind": "correspondence", "archive": data.hex()}, concrete=False, match_keys={"kind": "correspondence"})
    rep.extra["raw_header_correspondence"] = rep.extra.get("raw_header_correspondence", 0) + 1


def run(ctx):
    rep, tier = ctx["rep"], ctx["tier"]
    rng = random.Random(ctx["seed"])

    try:
        from harness import hdrgen
        hdrgen.check_writers(ctx, rep, random.Random(ctx["seed"] ^ 0x7A3), tier)
    except Exception as e:  # noqa
        rep.violation("translation validation raised %s: %s" % (type(e).__name__, e),
                      {"kind": "exception", "part": "hdrgen"}, concrete=False, match_keys={"kind": "exception", "part": "hdrgen"})
    rep.cov["rule"] = ("sessions through the public API: chain x header mode (raw/encoded/encrypted) x 1..3 sessions (append) x "
                       "member lists (0..6 members, sizes around 0/16/4096, Unicode names) x optional writeall tree (dirs, empty dir, "
                       "zero-length file, symlink); each archive parsed by the strict specification reader and decoded with "
                       "independent codec calls; non-trivial = at least one non-empty member; distinct by case")
    chains = list(arch.CHAINS)
    n = 90 if tier == "quick" else 3000
    for i in range(n):
        chain = chains[i % len(chains)]
        header_mode = ["encoded", "raw", "encrypted"][(i // len(chains)) % 3] if i >= len(chains) else "encoded"
        nsess = rng.choice([1, 1, 2, 3])
        if arch.needs_pw(chain) and nsess > 1 and rng.random() < 0.5:
            nsess = 1
        case = {"chain": chain, "header": header_mode, "sessions": [gen_members(rng) for _ in range(nsess)],
                "tree": rng.random() < 0.25}
        if i % 9 in (3, 7) and not arch.needs_pw(chain):
            # histories whose header has to be rebuilt around a folder without members: a session that adds directories only
            # (or nothing but an empty directory tree) followed by a session that adds two or more files, with and without a
            # data session in front
            dirs = [(nm, None) for nm in rng.sample(NAMES[:6], rng.choice([1, 2]))]
            files = [(nm, arch.pattern_bytes(rng, rng.choice([1, 17, 100, 238]), "text")) for nm in rng.sample(NAMES[:8], rng.choice([2, 3]))]
            front = [gen_members(rng, 1)] if i % 9 == 3 else []
            case["sessions"] = front + [dirs, files]
            case["tree"] = False
            nsess = len(case["sessions"])
        # distinct names across sessions
        seen = set()
        for ms in case["sessions"]:
            ms[:] = [(nm, d) for nm, d in ms if not (nm in seen or seen.add(nm))]
        rep.dist("chain", chain)
        rep.dist("header_mode", header_mode)
        rep.dist("sessions", nsess)
        key = ("c07", i, chain, header_mode)
        try:
            data, expected, password = write_case(rng, case)
        except Exception as e:  # noqa
            rep.violation("writing raises %s: %s (chain %s, header %s, %d sessions)" % (type(e).__name__, e, chain, header_mode, nsess),
                          {"kind": "write-raises", "case": {"chain": chain, "header": header_mode, "sessions": [[(a, None if b is None else b.hex()) for a, b in ms] for ms in case["sessions"]], "tree": case["tree"]}},
                          match_keys={"kind": "write-raises", "exc": type(e).__name__, "sessions_gt1": nsess > 1})
            continue
        rep.count(key, nontrivial=any(d for _, _, d in expected))
        desc = "chain %s, header %s, %d sessions, tree=%s" % (chain, header_mode, nsess, case["tree"])
        try:
            ref = refreader.read_archive(data, ctx["model"], password=password, strict_tiling=True)
        except Exception as e:  # noqa
            what = str(e)
            kind = "brotli-unterminated" if "brotli" in what else "not-wellformed"
            rep.violation("archive written by py7zr is rejected by the strict reference reader: %s (%s)" % (what[:200], desc),
                          {"kind": kind, "archive": data.hex(), "password": password},
                          match_keys={"kind": kind})
            continue
        got = [(m["name"], m["kind"], m["data"]) for m in ref["members"]]
        if got != expected:
            rep.violation("reference reader recovers different members: %r instead of %r (%s)" % (
                [(a, b, len(c)) for a, b, c in got], [(a, b, len(c)) for a, b, c in expected], desc),
                {"kind": "members-differ", "archive": data.hex(), "password": password}, match_keys={"kind": "members-differ"})
            continue
        for m in ref["members"]:
            if m["kind"] == "file" and m["crc"] is None:
                rep.violation("member %r has no CRC (%s)" % (m["name"], desc), {"kind": "no-crc", "archive": data.hex()},
                              match_keys={"kind": "no-crc"})
                break
        for note in ref["notes"]:
            rep.dist("reference_reader_notes", note)
        check_raw_header_model(ctx, rep, data)
        if i < 3:
            rep.sample({"case": desc, "members": [(a, b, len(c)) for a, b, c in expected], "archive_bytes": len(data)})


def replay(d):
    r = d["replay"]
    if "archive" in r:
        import vlib
        m = vlib.Model()
        try:
            ref = refreader.read_archive(bytes.fromhex(r["archive"]), m, password=r.get("password"))
            print("reference reader accepts:", [(x["name"], x["kind"], len(x["data"])) for x in ref["members"]])
            return 0
        except Exception as e:  # noqa
            print("reference reader rejects:", e)
            return 1
        finally:
            m.close()
    print(str(r)[:500])
    return 2
