"""hdr.py -- glue between py7zr's header object graph and the model's tree protocol,
plus generators of header graphs and header bytes shared by several properties."""
import io

import py7zr.archiveinfo as ai
from py7zr.helpers import ArchiveTimestamp

LIM = 4096  # the model's resource limit for declared counts


# ------------------------------------------------------------------ python graph -> tree
def opt(x, f=lambda v: v):
    return [] if x is None else [f(x)]


def optopt(d, key):
    if key not in d:
        return []
    v = d[key]
    return [[]] if v is None else [[int(v)]]


def coder_tree(c):
    return [list(c["method"]), c["numinstreams"], c["numoutstreams"], opt(c["properties"], list)]


def folder_tree(f):
    return [[coder_tree(c) for c in f.coders], [[b.incoder, b.outcoder] for b in f.bindpairs], list(f.packed_indices),
            list(f.unpacksizes), 1 if f.digestdefined else 0, opt(f.crc)]


def pack_tree(p):
    return [p.packpos, p.numstreams, list(p.packsizes), [1 if d else 0 for d in p.digestdefined], list(p.crcs)]


def sub_tree(s):
    return [list(s.num_unpackstreams_folders), opt(s.unpacksizes, list), [1 if d else 0 for d in s.digestsdefined],
            list(s.digests)]


def file_tree(f):
    name = f.get("filename")
    return [1 if f["emptystream"] else 0, opt(name, lambda s: [ord(c) for c in s]), optopt(f, "creationtime"),
            optopt(f, "lastaccesstime"), optopt(f, "lastwritetime"), optopt(f, "attributes")]


def header_tree(h):
    ms = h.main_streams
    st = []
    if ms is not None:
        st = [[opt(ms.packinfo, pack_tree),
               opt(ms.unpackinfo, lambda u: [folder_tree(f) for f in u.folders]),
               opt(ms.substreamsinfo, sub_tree)]]
    fi = h.files_info
    # the EmptyFile bits as the writer uses them: one per empty-stream entry, kept with the entry
    ef = [1 if f.get("emptyfile", False) else 0 for f in fi.files if f["emptystream"]] if fi is not None else []
    return [st, opt(fi, lambda x: [file_tree(f) for f in x.files]), ef]


# ------------------------------------------------------------------ tree -> python graph
def un(t, f=lambda v: v):
    return None if t == [] else f(t[0])


def build_header(t):
    h = ai.Header()
    st = un(t[0])
    if st is not None:
        ms = ai.StreamsInfo()
        p = un(st[0])
        if p is not None:
            pi = ai.PackInfo()
            pi.packpos, pi.numstreams, pi.packsizes = p[0], p[1], list(p[2])
            pi.digestdefined = [x == 1 for x in p[3]]
            pi.crcs = list(p[4])
            pi.enable_digests = False
            ms.packinfo = pi
        fs = un(st[1])
        if fs is not None:
            ui = ai.UnpackInfo()
            for ft in fs:
                f = ai.Folder()
                f.coders = [{"method": bytes(c[0]), "numinstreams": c[1], "numoutstreams": c[2],
                             "properties": un(c[3], bytes)} for c in ft[0]]
                f.bindpairs = [ai.Bond(a, b) for a, b in ft[1]]
                f.packed_indices = list(ft[2])
                f.unpacksizes = list(ft[3])
                f.digestdefined = ft[4] == 1
                f.crc = un(ft[5])
                ui.folders.append(f)
            ui.numfolders = len(ui.folders)
            ms.unpackinfo = ui
        sb = un(st[2])
        if sb is not None:
            ss = ai.SubstreamsInfo()
            ss.num_unpackstreams_folders = list(sb[0])
            ss.unpacksizes = un(sb[1], list)
            ss.digestsdefined = [x == 1 for x in sb[2]]
            ss.digests = list(sb[3])
            ms.substreamsinfo = ss
        h.main_streams = ms
    fl = un(t[1])
    if fl is not None:
        fi = ai.FilesInfo()
        for ft in fl:
            d = {"emptystream": ft[0] == 1}
            if ft[1] != []:
                d["filename"] = "".join(chr(c) for c in ft[1][0])
            for key, x in (("creationtime", ft[2]), ("lastaccesstime", ft[3]), ("lastwritetime", ft[4])):
                if x != []:
                    d[key] = None if x[0] == [] else ArchiveTimestamp(x[0][0])
            if ft[5] != []:
                d["attributes"] = None if ft[5][0] == [] else ft[5][0][0]
            fi.files.append(d)
        fi.emptyfiles = [x == 1 for x in t[2]]
        flags = iter(fi.emptyfiles)
        for d in fi.files:
            if d["emptystream"]:
                d["emptyfile"] = next(flags, False)
        h.files_info = fi
    return h


# ------------------------------------------------------------------ implementation entry points
def impl_parse(raw):
    """Header._read on a raw (unencoded) header; returns ('ok', tree) or ('err', exception class name)"""
    try:
        h = ai.Header()
        h._read(io.BytesIO(b""), io.BytesIO(raw), 0, None)
        return ("ok", header_tree(h))
    except RecursionError:
        raise
    except Exception as e:  # noqa
        return ("err", type(e).__name__)


class TellIO(io.BytesIO):
    def __init__(self, start):
        super().__init__()
        self._start = start

    def tell(self):
        return self._start + super().tell()


def impl_write(tree, pos=0, enable_digests=False):
    """Header.write(encoded=False) of the graph described by tree, written as if at file offset pos"""
    try:
        h = build_header(tree)
        if h.main_streams is not None and h.main_streams.packinfo is not None:
            h.main_streams.packinfo.enable_digests = enable_digests
        out = TellIO(pos)
        h.write(out, 0, encoded=False)
        return ("ok", out.getvalue())
    except Exception as e:  # noqa
        return ("err", type(e).__name__)


def model_parse(model, raw, lim=LIM):
    r = model.call("parse_header", [lim, list(raw)])
    if r[0] == 0:
        return ("ok", r[1])
    return ("err", {1: "Bad7z", 2: "Crc", 3: "Password", 4: "Unsupported", 5: "Eof", 6: "Other", 7: "Fuel"}[r[1]])


def model_write(model, tree, pos=0, enable_digests=False):
    r = model.call("write_header", [1 if enable_digests else 0, pos, tree])
    if r[0] == 0:
        return ("ok", bytes(r[1]))
    return ("err", r[1])


# ------------------------------------------------------------------ generators
METHODS = [b"\x21", b"\x03\x01\x01", b"\x00", b"\x04\x02\x02", b"\x04\x01\x08", b"\x06\xf1\x07\x01",
           b"\x03\x03\x01\x03", b"\x03", b"\x04\xf7\x11\x01"]
EDGE = [0, 1, 2, 127, 128, 255, 256, 16383, 16384, 65535, 2 ** 21 - 1, 2 ** 21, 2 ** 28, 2 ** 32 - 1, 2 ** 32,
        2 ** 35, 2 ** 42 - 1, 2 ** 49, 2 ** 56 - 1, 2 ** 56, 2 ** 63, 2 ** 64 - 1]


def rnd_size(rng):
    r = rng.random()
    if r < 0.35:
        return rng.choice(EDGE)
    if r < 0.7:
        return rng.randrange(0, 100000)
    return rng.getrandbits(rng.choice([7, 14, 21, 28, 35, 42, 49, 56, 64]))


def rnd_name(rng):
    n = rng.choice([1, 1, 2, 3, 5, 8, 13, 40])
    pools = [(0x61, 0x7A), (0x20, 0x7E), (0x01, 0x1F), (0xA0, 0x2FFF), (0x3000, 0xD7FF), (0xE000, 0xFFFD),
             (0x10000, 0x10FFFF)]
    out = []
    while len(out) < n:
        lo, hi = rng.choice(pools)
        c = rng.randrange(lo, hi + 1)
        if c == 0x5C:
            continue
        out.append(c)
    return out


def rnd_vec(rng, n, shape=None):
    shape = shape or rng.choice(["all", "all", "none", "one", "half", "random"])
    return [{"all": True, "none": False, "one": i == n // 2, "half": i % 2 == 0, "random": rng.random() < 0.6}[shape]
            for i in range(n)]


def gen_py7zr_like_header(rng, nfolders=None, with_partial=False, with_times=False):
    """a header of the kind py7zr's own sessions build (k folders of simple coders, sub-stream CRCs all
    defined, names/mtime/attributes for every file); with_times: entries read from a 7-Zip -mtc/-mta archive, i.e.
    creation / access times on every entry, on some, present-but-None, or absent"""
    nfolders = rng.choice([0, 1, 1, 1, 2, 3]) if nfolders is None else nfolders
    folders, nums, sizes, dd, dg, files, packsizes = [], [], [], [], [], [], []
    for _ in range(nfolders):
        nc = rng.choice([1, 1, 2, 3])
        coders = []
        for _ in range(nc):
            m = rng.choice(METHODS)
            props = None if rng.random() < 0.4 else [rng.randrange(256) for _ in range(rng.choice([1, 2, 5, 18]))]
            coders.append([list(m), 1, 1, [] if props is None else [props]])
        n = rng.choice([0, 1, 1, 2, 3, 5])
        us = [rnd_size(rng) % (2 ** 62) for _ in range(n)]
        total = sum(us)
        folders.append([coders, [[i + 1, i] for i in range(nc - 1)], [], [rnd_size(rng) for _ in range(nc - 1)] + [total],
                        0, []])
        nums.append(n)
        sizes += us
        dd += [1] * n
        dg += [rng.getrandbits(32) for _ in range(n)]
        packsizes.append(rnd_size(rng))
        for _ in range(n):
            files.append(None)
    # interleave empty-stream entries
    nfiles_data = len(files)
    ents = []
    di = 0
    while di < nfiles_data or rng.random() < 0.3:
        if di < nfiles_data and rng.random() < 0.7:
            ents.append(0)
            di += 1
        else:
            ents.append(1)
        if len(ents) > 40:
            break
    while di < nfiles_data:
        ents.append(0)
        di += 1
    filetrees = []
    for e in ents:
        mt = [[rnd_size(rng)]]
        at = [[rng.getrandbits(32)]]
        if with_partial and rng.random() < 0.4:
            mt = [[]]
        if with_partial and rng.random() < 0.4:
            at = [[]]
        ct, lat = [], []
        if with_times:
            ct = rng.choice([[[rnd_size(rng)]], [[rnd_size(rng)]], [[]], []])
            lat = rng.choice([[[rnd_size(rng)]], [[]], []])
        filetrees.append([e, [rnd_name(rng)], ct, lat, mt, at])
    if nfolders == 0:
        st = []
    else:
        pack = [0, nfolders, packsizes, [], []]
        if rng.random() < 0.3:
            pack = [0, nfolders, packsizes, [1] * nfolders, [rng.getrandbits(32) for _ in range(nfolders)]]
        st = [[[pack], [folders], [[nums, [sizes], dd, dg]]]]
    return [st, [filetrees], [rng.choice([0, 0, 1]) for e in ents if e]]
