"""C15 -- a failed write call does not poison the archive.

Write histories (write / writestr / writef / writeall) with one injected fault are run on the real
SevenZipFile and on the extracted write-session machine of coq/theories/WSession.v:

* correspondence: per call "returned / raised", the worker's bookkeeping before close
  (current_file_index, last_file_index, number of registered entries, sub-stream sizes and CRCs,
  bytes fed to the compressor) and what a reader gets from the closed archive must be what the
  model says;
* exploration: the same runs are judged against the property itself (members of the calls that
  returned are all present and intact, the failed source is absent; for a source that fails while
  being read: the archive never yields wrong bytes), independently of the model.

Faults are injected without touching /repo: pathlib.Path.lstat / pathlib.Path.open /
py7zr.py7zr.readlink are wrapped for the specific source paths, file objects whose read() raises
after k bytes are handed to writef, and plain bad arguments (missing file, dangling link,
rejected arcname, wrong type) need no patching at all.
"""
import errno
import io
import itertools
import multiprocessing
import os
import pathlib
import random
import shutil
import signal
import tempfile
import traceback

import py7zr
import py7zr.py7zr as P

from harness import arch

GEN_DEPS = []
LEVEL = "proof"
TRUSTED_BASE = [
    "Coq 8.16.1 kernel, vm_compute (no native_compute); no axioms (Print Assumptions: closed)",
    "theories/WSession.v as a transcription of SevenZipFile.write/_writef/_writestr/writeall/close and "
    "Worker.archive/write/writestr/_after_write/flush_archive (tied to the code by the correspondence run here: "
    "outcome per call, worker bookkeeping before close, reader's view after close)",
    "extraction (ExtrOcamlBasic only) + ocaml/driver.ml for running the model",
    "the `readable` function of WSession.v as the definition of a conforming reader of the committed header "
    "(entries with data matched to sub-streams in order; last size of a folder implied; CRC per sub-stream)",
    "fault injection by wrapping pathlib.Path.lstat/open and py7zr.py7zr.readlink for the source paths only",
]
ASSUMPTIONS = [
    "the compressor chain is the identity on the folder's content (decompress(compress(s)+flush) = s): C06/C07",
    "midway_failure_not_wrong assumes the per-member digest is injective on the byte strings involved "
    "(Section hypothesis dg_inj; satisfiable: instance with the identity digest); CRC-32 is not injective in general",
    "modes w/x (append sessions start from the same machine with a non-empty prefix: C08); under dereference=True a "
    "symbolic link is presented to the machine as what it points to; members whose ELOOP failure _writeall skips are leaves",
    "the class of the exception a source raises plays no role (checked here with OSError of several errnos, ValueError, "
    "RuntimeError and a BaseException subclass at open and at read); only errno ELOOP is looked at, by _writeall",
    "a symbolic link's target is relative, or absolute and not itself an archived source (which _find_link_target would re-base)",
    "writeall is judged as the sequence of its write() calls (members before the failing one stay)",
]

SHAPES = ["wfile", "wdir", "wlink", "wstr", "wfbytes", "wfbuf", "wall"]


def F(kind, flavour, k=0, sticky=True, elem=0, exc="os"):
    """exc: class of the injected exception: os (OSError with the flavour's errno), value (ValueError),
    runtime (RuntimeError), base (a BaseException subclass, like KeyboardInterrupt)"""
    return {"kind": kind, "flavour": flavour, "k": k, "sticky": sticky, "elem": elem, "exc": exc}


FAULTS_QUICK = {
    "wfile": [F("stat", "missing"), F("stat", "eacces"), F("name", "abs"), F("name", "badtype"),
              F("open", "vanish"), F("open", "eacces", sticky=False), F("open", "eio"),
              F("read", "eio", 0, False), F("read", "eio", 3, False), F("read", "eio", 3, True),
              F("open", "exc", exc="value"), F("open", "exc", sticky=False, exc="base"),
              F("read", "exc", 0, False, exc="runtime"), F("read", "exc", 3, False, exc="value"),
              F("read", "exc", 3, True, exc="base")],
    "wdir": [F("stat", "missing"), F("name", "abs")],
    "wlink": [F("stat", "eacces"), F("name", "abs"), F("open", "dangling"), F("open", "eacces", sticky=False),
              F("open", "exc", exc="value")],
    "wstr": [F("name", "bad"), F("stat", "badtype")],
    "wfbytes": [F("name", "bad"), F("read", "eio", 0, False), F("read", "eio", 3, False), F("read", "eio", 3, True),
                F("read", "exc", 0, False, exc="value"), F("read", "exc", 3, False, exc="value"),
                F("read", "exc", 3, False, exc="base")],
    "wfbuf": [F("name", "bad"), F("stat", "textio"), F("stat", "tell"), F("read", "eio", 3, False),
              F("read", "eio", 0, True), F("read", "exc", 3, False, exc="runtime")],
    "wall": [F("stat", "missing"), F("stat", "eacces", elem=1), F("open", "vanish", elem=1),
             F("open", "eacces", sticky=False, elem=3), F("read", "eio", 3, False, elem=1),
             F("open", "exc", elem=1, exc="value"), F("read", "exc", 3, False, elem=3, exc="runtime"),
             F("open", "eloop", elem=1), F("stat", "eloop", elem=3), F("open", "eacces", elem=4),
             F("read", "eio", 3, False, elem=6)],
}
FAULTS_THOROUGH = {
    "wfile": FAULTS_QUICK["wfile"] + [F("stat", "eio"), F("open", "eacces"), F("read", "eio", 1, False),
                                      F("read", "eio", 0, True)],
    "wdir": FAULTS_QUICK["wdir"] + [F("stat", "eacces")],
    "wlink": FAULTS_QUICK["wlink"] + [F("stat", "missing"), F("open", "eio")],
    "wstr": FAULTS_QUICK["wstr"],
    "wfbytes": FAULTS_QUICK["wfbytes"] + [F("read", "eio", 1, False), F("read", "eio", 0, True), F("stat", "object")],
    "wfbuf": FAULTS_QUICK["wfbuf"] + [F("read", "eio", 0, False), F("read", "eio", 3, True)],
    "wall": FAULTS_QUICK["wall"] + [F("stat", "eacces", elem=0), F("stat", "eacces", elem=3), F("open", "eio", elem=3),
                                    F("read", "eio", 0, False, elem=3), F("read", "eio", 3, True, elem=1),
                                    F("name", "abs", elem=0)],
}
CHAINS_QUICK = ["copy", "lzma2", "deflate", "copy", "zstd", "copy", "bzip2", "copy"]

EXC_OF = {
    ("stat", "missing"): "FileNotFoundError", ("stat", "eacces"): "PermissionError", ("stat", "eio"): "OSError",
    ("name", "abs"): "AbsolutePathError", ("name", "badtype"): "ValueError", ("name", "bad"): "ValueError",
    ("stat", "badtype"): "ValueError", ("stat", "textio"): "ValueError", ("stat", "object"): "ValueError",
    ("stat", "tell"): "OSError", ("open", "vanish"): "FileNotFoundError", ("open", "eacces"): "PermissionError",
    ("open", "eio"): "OSError", ("open", "dangling"): "OSError", ("read", "eio"): "OSError",
    ("open", "eloop"): "OSError", ("stat", "eloop"): "OSError",
}
ERRNO = {"eacces": errno.EACCES, "eio": errno.EIO, "eloop": errno.ELOOP, "exc": errno.EIO}


class Interrupt(BaseException):
    """stands for KeyboardInterrupt / SystemExit arriving while a source is read"""


EXC_CLASS = {"value": ValueError, "runtime": RuntimeError, "base": Interrupt}


def make_exc(spec, key=None):
    if spec.get("exc", "os") != "os":
        return EXC_CLASS[spec["exc"]]("injected %s" % spec["exc"])
    no = ERRNO.get(spec["flavour"], errno.EIO)
    return OSError(no, os.strerror(no) + " (injected)", key) if key else OSError(no, os.strerror(no) + " (injected)")


class Timeout(BaseException):
    pass


# ------------------------------------------------------------------ the case: sources, names, model encoding
def call_data(i):
    return bytes([65 + i]) * (8 + i)


def tree_members(i, deref):
    """(relative path, kind, data) in the order _writeall visits them.  On disk: c1, s/, s/c3, t -> c1, u -> s"""
    c1, c3 = bytes([97 + i]) * 8, bytes([107 + i]) * 6
    ms = [("", "dir", b""), ("c1", "file", c1), ("s", "dir", b""), ("s/c3", "file", c3)]
    if deref:
        return ms + [("t", "file", c1), ("u", "dir", b""), ("u/c3", "file", c3)]
    return ms + [("t", "link", b"c1"), ("u", "link", b"s")]


def link_text(i):
    """relative (kept as it is) for even calls, absolute and not archived itself for odd calls"""
    return "/tmp" if i % 2 else "t%d" % i


def call_members(i, shape, deref=False):
    """[(id, arcname, kind, data)] of call i; kind in file/dir/link/data"""
    base = 10 * i
    if shape == "wall":
        return [(base + j, "m%d" % base + ("/" + rel if rel else ""), kind, data)
                for j, (rel, kind, data) in enumerate(tree_members(i, deref))]
    kind = {"wfile": "file", "wdir": "dir", "wlink": "link"}.get(shape, "data")
    data = b"" if kind == "dir" else (link_text(i).encode() if kind == "link" else call_data(i))
    if kind == "link" and deref:        # the link is followed: a file with the target's content, or a directory
        kind, data = ("dir", b"") if i % 2 else ("file", b"T")
    return [(base, "m%d" % base, kind, data)]


def model_kind(case, i):
    """the fault kind as the machine sees it"""
    f = case["fault"]
    if case["deref"] and case["shapes"][i] == "wlink" and f["flavour"] == "dangling":
        return "stat"       # _make_file_info: target.stat() raises before registration
    return f["kind"]


def swallowed(case):
    """_writeall skips a member whose failure is an ELOOP error under dereference=True"""
    f = case["fault"]
    return f is not None and case["deref"] and f["flavour"] == "eloop" and case["shapes"][case["at"]] == "wall"


def applicable(shapes, at, f, deref):
    """does the fault fire at all in this configuration"""
    shape = shapes[at]
    if shape == "wall" and f["flavour"] != "missing":
        kind = tree_members(at, deref)[f["elem"]][1] if f["elem"] < len(tree_members(at, deref)) else None
        if kind is None:
            return False
        if f["kind"] in ("open", "read") and kind != "file":
            return False        # links in the tree get no readlink fault here, directories are never opened
    if shape == "wlink" and deref and f["kind"] == "open" and f["flavour"] != "dangling" and at % 2:
        return False            # the followed link is a directory
    return True


KIND_NO = {"file": 0, "dir": 1, "link": 2, "data": 3}
FK_NO = {"stat": 0, "name": 1, "open": 2, "read": 3}


def model_ops(case):
    ops = []
    dr = case["deref"]
    for i, shape in enumerate(case["shapes"]):
        f = case["fault"] if case["at"] == i else None
        ms = call_members(i, shape, dr)
        srcs = []
        for j, (mid, _, kind, data) in enumerate(ms):
            mf, el = [], 0
            if f is not None and (shape != "wall" or f["elem"] == j) and not (shape == "wall" and f["flavour"] == "missing"):
                mf = [FK_NO[model_kind(case, i)], f["k"], 1 if f["sticky"] else 0]
                el = 1 if f["flavour"] == "eloop" else 0
            srcs.append([mid, KIND_NO[kind], list(data), mf, el])
        if shape == "wall":
            ops.append([3, 1 if (f is not None and f["flavour"] == "missing") else 0, srcs, 1 if dr else 0])
        else:
            ops.append([{"wfile": 0, "wdir": 0, "wlink": 0, "wstr": 1}.get(shape, 2), srcs[0]])
    return ops


def names_of(case):
    out = {}
    for i, shape in enumerate(case["shapes"]):
        for mid, arc, kind, data in call_members(i, shape, case["deref"]):
            out[mid] = (arc, kind, data)
    return out


def property_expected(case):
    """(outs, member list) the property demands: calls without fault return and leave their members,
    the faulted call raises and leaves nothing (writeall: the members before the failing one; an ELOOP
    failure under dereference=True is skipped by design and writeall goes on)"""
    outs, ms = [], []
    for i, shape in enumerate(case["shapes"]):
        f = case["fault"] if case["at"] == i else None
        mem = call_members(i, shape, case["deref"])
        if f is None:
            outs.append("ok")
            ms += mem
        elif swallowed(case):
            outs.append("ok")
            ms += mem[:f["elem"]] + mem[f["elem"] + 1:]
        else:
            outs.append("raise")
            if shape == "wall" and f["flavour"] != "missing":
                ms += mem[:f["elem"]]
    return outs, [(arc, kind, data) for _, arc, kind, data in ms]


# ------------------------------------------------------------------ fault injection
class FaultyFile:
    """what a patched Path.open returns: read() raises once k bytes have been delivered"""

    def __init__(self, inner, spec, table, key):
        self.inner, self.spec, self.table, self.key, self.armed = inner, spec, table, key, True

    def read(self, n=-1):
        if self.armed:
            pos = self.inner.tell()
            if pos >= self.spec["k"]:
                if not self.spec["sticky"]:
                    self.armed = False
                    self.table.pop(self.key, None)
                raise make_exc(self.spec, self.key)
            if n is None or n < 0 or pos + n > self.spec["k"]:
                n = self.spec["k"] - pos
        return self.inner.read(n)

    def close(self):
        self.inner.close()

    def __enter__(self):
        return self

    def __exit__(self, *a):
        self.inner.close()


class FaultyBytesIO(io.BytesIO):
    def __init__(self, data, spec):
        super().__init__(data)
        self.spec = spec
        self.armed = spec is not None and spec["kind"] == "read" and spec["k"] < len(data)

    def read(self, n=-1):
        if self.armed:
            pos = self.tell()
            if pos >= self.spec["k"]:
                if not self.spec["sticky"]:
                    self.armed = False
                raise make_exc(self.spec)
            if n is None or n < 0 or pos + n > self.spec["k"]:
                n = self.spec["k"] - pos
        return super().read(n)


class FaultyBuffered(io.BufferedIOBase):
    def __init__(self, data, spec):
        self.b = io.BytesIO(data)
        self.spec = spec
        self.armed = spec is not None and spec["kind"] == "read" and spec["k"] < len(data)
        self.tell_fails = spec is not None and spec["flavour"] == "tell"

    def tell(self):
        if self.tell_fails:
            raise OSError(errno.EIO, "Input/output error (injected)")
        return self.b.tell()

    def seek(self, o, w=0):
        return self.b.seek(o, w)

    def read(self, n=-1):
        if self.armed:
            pos = self.b.tell()
            if pos >= self.spec["k"]:
                if not self.spec["sticky"]:
                    self.armed = False
                raise make_exc(self.spec)
            if n is None or n < 0 or pos + n > self.spec["k"]:
                n = self.spec["k"] - pos
        return self.b.read(n)


class Patches:
    """wrap Path.lstat / Path.open / py7zr.py7zr.readlink for the paths in the tables only"""

    def __init__(self):
        self.lstat, self.open, self.readlink = {}, {}, {}

    def __enter__(self):
        self.real_lstat, self.real_open, self.real_readlink = pathlib.Path.lstat, pathlib.Path.open, P.readlink
        me = self

        def lstat(p):
            f = me.lstat.get(os.fspath(p))
            if f is not None:
                raise make_exc(f, os.fspath(p))
            return me.real_lstat(p)

        def popen(p, *a, **k):
            key = os.fspath(p)
            f = me.open.get(key)
            if f is not None:
                if f["kind"] == "read":
                    return FaultyFile(me.real_open(p, *a, **k), f, me.open, key)
                if not f["sticky"]:
                    del me.open[key]
                if f["flavour"] == "vanish":
                    if os.path.exists(key):
                        os.unlink(key)
                    return me.real_open(p, *a, **k)
                raise make_exc(f, key)
            return me.real_open(p, *a, **k)

        def rdlink(p, *a, **k):
            key = os.fspath(p)
            f = me.readlink.get(key)
            if f is not None:
                if not f["sticky"]:
                    del me.readlink[key]
                raise make_exc(f, key)
            return me.real_readlink(p, *a, **k)

        pathlib.Path.lstat, pathlib.Path.open, P.readlink = lstat, popen, rdlink
        return self

    def __exit__(self, *a):
        pathlib.Path.lstat, pathlib.Path.open, P.readlink = self.real_lstat, self.real_open, self.real_readlink


class Alarm:
    def __init__(self, secs):
        self.secs = secs

    def __enter__(self):
        def h(sig, frm):
            raise Timeout()
        self.old = signal.signal(signal.SIGALRM, h)
        signal.setitimer(signal.ITIMER_REAL, self.secs)

    def __exit__(self, *a):
        signal.setitimer(signal.ITIMER_REAL, 0)
        signal.signal(signal.SIGALRM, self.old)


def build_call(i, shape, fault, d, pt, deref=False):
    """materialise the source of call i under directory d; returns fn(z)"""
    src = os.path.join(d, "s%d" % i)
    arc = "m%d" % (10 * i)
    fk = fault["kind"] if fault else None
    fl = fault["flavour"] if fault else None
    if fk == "name":
        arc = "../evil%d" % i if shape in ("wstr", "wfbytes", "wfbuf") else "c:/C:/evil%d" % i
    if shape == "wfile":
        if fl != "missing":
            with open(src, "wb") as fh:
                fh.write(call_data(i))
        if fk == "stat" and fl != "missing":
            pt.lstat[src] = fault
        if fk in ("open", "read"):
            pt.open[src] = fault
        if fl == "badtype":
            return lambda z: z.write(12345, arc)
        return lambda z: z.write(src, arc)
    if shape == "wdir":
        if fl != "missing":
            os.mkdir(src)
        if fk == "stat" and fl != "missing":
            pt.lstat[src] = fault
        return lambda z: z.write(src, arc)
    if shape == "wlink":
        tgt = link_text(i) if fl != "dangling" else "t%d" % i
        if fl not in ("dangling",) and not os.path.isabs(tgt):
            with open(os.path.join(d, tgt), "wb") as fh:
                fh.write(b"T")
        if fl != "missing":
            os.symlink(tgt, src)
        if fk == "stat" and fl != "missing":
            pt.lstat[src] = fault
        if fk == "open" and fl != "dangling":
            if deref:
                pt.open[src] = fault       # the link is followed: Path.open on the link's path
            else:
                pt.readlink[src] = fault
        return lambda z: z.write(src, arc)
    if shape == "wstr":
        if fl == "badtype":
            return lambda z: z.writestr(12345, arc)
        return lambda z: z.writestr(call_data(i), arc)
    if shape in ("wfbytes", "wfbuf"):
        if fl == "textio":
            obj = io.StringIO("text")
        elif fl == "object":
            obj = object()
        else:
            obj = (FaultyBytesIO if shape == "wfbytes" else FaultyBuffered)(call_data(i), fault)
        return lambda z: z.writef(obj, arc)
    if shape == "wall":
        if fl == "missing":
            return lambda z: z.writeall(src, arc)
        for rel, kind, data in tree_members(i, False):
            p = os.path.join(src, rel) if rel else src
            if kind == "dir":
                os.mkdir(p)
            elif kind == "link":
                os.symlink(data.decode(), p)
            else:
                with open(p, "wb") as fh:
                    fh.write(data)
        paths = [os.path.join(src, rel) if rel else src for rel, _, _ in tree_members(i, deref)]
        if fault:
            p = paths[fault["elem"]]
            if fk == "stat":
                pt.lstat[p] = fault
            elif fk in ("open", "read"):
                pt.open[p] = fault
        return lambda z: z.writeall(src, arc)
    raise ValueError(shape)


def observe_state(z):
    st = {"init": bool(z.header._initialized), "cur": z.worker.current_file_index, "last": z.worker.last_file_index,
          "nfiles": len(z.files), "sizes": [], "crcs": [], "names": [], "stream": None, "lists_agree": True}
    fi = z.header.files_info
    if fi is not None:
        st["names"] = [f["filename"] for f in fi.files]
        st["lists_agree"] = (len(fi.files) == len(fi.emptyfiles) == len(z.files)
                             and [bool(f["emptystream"]) for f in fi.files] == [bool(x) for x in fi.emptyfiles])
    ms = z.header.main_streams
    if ms is not None and ms.substreamsinfo is not None:
        st["sizes"] = list(ms.substreamsinfo.unpacksizes or [])
        st["crcs"] = list(ms.substreamsinfo.digests or [])
        try:
            st["stream"] = ms.unpackinfo.folders[-1].get_compressor()._unpacksizes[0]
        except Exception:  # noqa
            st["stream"] = None
    return st


def run_session(case):
    """run one history on the implementation; returns a picklable observation"""
    d = tempfile.mkdtemp(prefix="c15-")
    obs = {"outs": [], "msgs": [], "state": None, "close": None, "read": None, "targeted": None}
    try:
        with Patches() as pt, Alarm(30):
            calls = [build_call(i, shape, case["fault"] if case["at"] == i else None, d, pt, case["deref"])
                     for i, shape in enumerate(case["shapes"])]
            bio = io.BytesIO()
            apath = os.path.join(d, "out.7z")
            dest = bio if case["target"] == "bytesio" else apath
            z = py7zr.SevenZipFile(dest, "w", filters=arch.CHAINS[case["chain"]], dereference=case["deref"])
            if not case.get("enc", True):
                z.set_encoded_header_mode(False)   # the LZMA coder of the encoded header costs 16 ms per close
            if case["close"] in ("ctx", "ctx-exc"):
                z.__enter__()
            last_exc = None
            for fn in calls:
                try:
                    fn(z)
                    obs["outs"].append("ok")
                    obs["msgs"].append("")
                except Timeout:
                    raise
                except BaseException as e:  # noqa  (the injected BaseException subclass included)
                    obs["outs"].append(type(e).__name__)
                    obs["msgs"].append(str(e)[:120])
                    last_exc = e
            obs["state"] = observe_state(z)
            try:
                if case["close"] == "ctx":
                    z.__exit__(None, None, None)
                elif case["close"] == "ctx-exc":
                    if last_exc is not None:
                        z.__exit__(type(last_exc), last_exc, last_exc.__traceback__)
                    else:
                        z.__exit__(None, None, None)
                else:
                    z.close()
                obs["close"] = "ok"
            except Exception as e:  # noqa
                obs["close"] = "%s: %s" % (type(e).__name__, str(e)[:120])
            data = bio.getvalue() if case["target"] == "bytesio" else open(apath, "rb").read()
        with Alarm(30):
            r = arch.read_archive(data)
            obs["read"] = ("ok", r[1], [(n, b.hex()) for n, b in r[2]]) if r[0] == "ok" else r
            if r[0] == "err" and r[1] == "CrcError":
                # does a targeted read of a single member hand out bytes?
                tg = {}
                try:
                    with py7zr.SevenZipFile(io.BytesIO(data), "r") as zr:
                        names = [f.filename for f in zr.files if not f.is_directory]
                    for n in names:
                        try:
                            with py7zr.SevenZipFile(io.BytesIO(data), "r") as zr:
                                fac = arch.Collect()
                                zr.extract(targets=[n], factory=fac)
                            tg[n] = ("ok", fac.as_dict().get(n, b"").hex())
                        except Exception as e:  # noqa
                            tg[n] = ("err", type(e).__name__)
                except Exception as e:  # noqa
                    tg["*open*"] = ("err", type(e).__name__)
                obs["targeted"] = tg
    except Timeout:
        obs["timeout"] = True
    except Exception:  # noqa
        obs["crash"] = traceback.format_exc()[-1500:]
    finally:
        shutil.rmtree(d, ignore_errors=True)
    return obs


# ------------------------------------------------------------------ judging
def expected_exc(case):
    f = case["fault"]
    if case["shapes"][case["at"]] == "wall" and f["flavour"] == "missing":
        return "ValueError"       # "specified path does not exist."
    if f.get("exc", "os") != "os":
        return EXC_CLASS[f["exc"]].__name__
    if case["deref"] and case["shapes"][case["at"]] == "wlink" and f["flavour"] == "dangling":
        return "FileNotFoundError"    # the link is followed by stat()
    return EXC_OF[(f["kind"], f["flavour"])]


def judge_property(case, obs):
    """violations of the property itself on this run: list of (kind, effect, text)"""
    out = []
    f = case["fault"]
    fk = f["kind"] if f else "none"
    want_outs, want_ms = property_expected(case)
    if obs.get("timeout") or obs.get("crash"):
        return [("write-session-hangs-or-crashes", "harness", str(obs.get("crash", "timeout"))[-300:])]
    at = case["at"]
    # _find_link_target trips over a registered member without origin (writestr/writef)
    linkbug = any(o == "AttributeError" and "as_posix" in m for o, m in zip(obs["outs"], obs["msgs"]))
    # the exception reaches the caller, and it is the injected one
    if f is not None and swallowed(case):
        if obs["outs"][at] != "ok":
            out.append(("writeall-eloop-not-skipped", "raises", "call %d raised %s: %s" % (at, obs["outs"][at], obs["msgs"][at])))
    elif f is not None:
        got = obs["outs"][at]
        if got == "ok":
            out.append(("write-%s-failure-swallowed" % fk, "swallowed", "call %d returned although its source failed" % at))
        elif got != expected_exc(case):
            out.append(("write-symlink-after-data-member" if linkbug and got == "AttributeError" else
                        "write-%s-failure-other-exception" % fk, "other-exception",
                        "call %d raised %s (%s), expected %s" % (at, got, obs["msgs"][at], expected_exc(case))))
    names = [a for a, _, _ in want_ms]
    datas = [(a, d.hex()) for a, k, d in want_ms if k != "dir"]
    rd = obs["read"]
    if fk == "read" and f["k"] > 0:
        # weaker clause (bytes of the source were consumed): never opens successfully with wrong contents
        src = {a: d.hex() for a, k, d in names_of(case).values()}
        if rd[0] == "ok":
            for n, hx in rd[2]:
                if src.get(n) != hx:
                    out.append(("write-read-failure-wrong-member", "extractall",
                                "after a read failure the archive extracts without error and member %s has %d bytes "
                                "instead of %d" % (n, len(hx) // 2, len(src.get(n, "")) // 2)))
        for n, r in (obs.get("targeted") or {}).items():
            if r[0] == "ok" and src.get(n) != r[1]:
                out.append(("write-read-failure-wrong-member", "targeted-extract",
                            "after a read failure (later call re-read the source from where it stopped) extract(targets=[%r]) "
                            "returns %d bytes instead of %d without error" % (n, len(r[1]) // 2, len(src.get(n, "")) // 2)))
        # not demanded by the property, recorded: members of calls that returned which a reader does not get back
        if rd[0] != "ok" and f["k"] > 0:
            tg = obs.get("targeted") or {}
            lost = [a for a, k, d in want_ms if k != "dir" and tg.get(a, ("err",))[0] != "ok"]
            obs["lost_after_midway"] = len(lost)
        return out
    # main clause: every other call returns, the archive holds exactly the members of the calls that returned
    kind = {"none": "write-valid-call-fails", "stat": "write-stat-failure-poisons", "name": "write-rejected-name-poisons",
            "open": "write-open-failure-poisons", "read": "write-read-failure-at-first-byte-poisons"}[fk]
    if linkbug and fk != "open":
        kind = "write-symlink-after-data-member"
    for i, o in enumerate(obs["outs"]):
        if i != at and o != "ok":
            eff = "later-call-raises" if (at is not None and i > at) else "call-raises"
            out.append((kind, eff, "call %d (%s, valid arguments) raised %s: %s" % (i, case["shapes"][i], o, obs["msgs"][i])))
            break
    if obs["close"] != "ok":
        out.append((kind, "close-raises", "close raised %s" % obs["close"]))
    if rd[0] != "ok":
        out.append((kind, "unreadable", "closed archive cannot be read: %s %s" % (rd[1], rd[2])))
    elif rd[1] != names or rd[2] != datas:
        failed = [a for a, _, _ in names_of(case).values() if a not in names]
        eff = "failed-source-archived" if any(n in failed for n in rd[1]) else "wrong-members"
        out.append((kind, eff, "archive holds %r, the calls that returned wrote %r" % (rd[1], names)))
    return out


def compare_model(case, obs, mres):
    """disagreements between the machine of WSession.v and the implementation on this run"""
    bad = []
    if obs.get("timeout") or obs.get("crash"):
        return ["implementation run did not finish: %s" % (obs.get("crash") or "timeout")]
    nm = names_of(case)
    m_outs, m_st, m_rd = mres
    outs = [0 if o == "ok" else 1 for o in obs["outs"]]
    if outs != m_outs:
        bad.append("returned/raised per call: impl %r (%r) model %r" % (outs, obs["outs"], m_outs))
    st = obs["state"]
    init, cur, nfiles, last, sizes, crcs, stream, ids = m_st
    if (1 if st["init"] else 0) != init or st["cur"] != cur or st["nfiles"] != nfiles or st["last"] != last:
        bad.append("bookkeeping: impl init=%s cur=%d nfiles=%d last=%d, model init=%d cur=%d nfiles=%d last=%d" % (
            st["init"], st["cur"], st["nfiles"], st["last"], init, cur, nfiles, last))
    if not st["lists_agree"]:
        bad.append("files_info.files / emptyfiles / self.files differ in length or flags")
    if st["sizes"] != sizes or st["crcs"] != crcs:
        bad.append("sub-streams: impl %r %r model %r %r" % (st["sizes"], st["crcs"], sizes, crcs))
    if st["names"] != [nm[i][0] for i in ids]:
        bad.append("registered entries: impl %r model %r" % (st["names"], [nm[i][0] for i in ids]))
    if st["stream"] is not None and st["stream"] != len(stream):
        bad.append("bytes fed to the compressor: impl %d model %d" % (st["stream"], len(stream)))
    if obs["close"] != "ok":
        bad.append("close raised %s (the model's close cannot fail)" % obs["close"])
    rd = obs["read"]
    if m_rd == []:
        if rd[0] == "ok" or rd[1] == "CrcError":
            bad.append("model: header unreadable (entry/sub-stream counts differ); impl reader: %r" % (rd[:2],))
    else:
        ms = m_rd[0]
        if any(tag == 2 for _, tag, _ in ms):
            if not (rd[0] == "err" and rd[1] == "CrcError"):
                bad.append("model: CRC error on extraction; impl reader: %r" % (rd[:2],))
            # per member: what passes the CRC in the model is what a targeted read returns
            for mid, tag, bs in ms:
                n = nm[mid][0]
                t = (obs.get("targeted") or {}).get(n)
                if t is None:
                    continue
                if tag == 1 and not (t[0] == "ok" and t[1] == bytes(bs).hex()):
                    bad.append("model: member %s passes its CRC with %d bytes; impl targeted read: %r" % (n, len(bs), t))
                if tag == 2 and t[0] == "ok":
                    bad.append("model: member %s fails its CRC; impl targeted read returned data" % n)
        else:
            names = [nm[mid][0] for mid, _, _ in ms]
            datas = [(nm[mid][0], bytes(bs).hex()) for mid, tag, bs in ms if tag == 1]
            if rd[0] != "ok" or rd[1] != names or rd[2] != datas:
                bad.append("model: readable with %r; impl reader: %r" % (names, rd))
    return bad


def model_expected_agrees(case, mexp):
    want_outs, want_ms = property_expected(case)
    nm = names_of(case)
    outs = [0 if o == "ok" else 1 for o in want_outs]
    ms = [(nm[mid][0], "dir" if tag == 0 else "x", bytes(bs)) for mid, tag, bs in mexp[1]]
    mine = [(a, "dir" if k == "dir" else "x", d) for a, k, d in want_ms]
    return outs == mexp[0] and ms == mine


# ------------------------------------------------------------------ enumeration
def enumerate_cases(tier):
    maxlen = 3 if tier == "quick" else 5
    faults = FAULTS_QUICK if tier == "quick" else FAULTS_THOROUGH
    idx = 0
    chains = CHAINS_QUICK
    for n in range(1, maxlen + 1):
        for shapes in itertools.product(SHAPES, repeat=n):
            combos = [(None, None)]
            for i in range(n):
                if n - 1 - i > 2:
                    continue
                combos += [(i, f) for f in faults[shapes[i]]]
            for at, f in combos:
                idx += 1
                if n == 5 and idx % 8 != 0:
                    continue        # histories of 5 calls: every eighth (439k sessions do not fit the time limit)
                deref = idx % 3 == 0
                if f is not None and not applicable(shapes, at, f, deref):
                    deref = not deref
                    if not applicable(shapes, at, f, deref):
                        continue
                c = {"shapes": list(shapes), "at": at, "fault": f, "deref": deref, "close": ("ctx", "explicit")[idx % 2],
                     "target": ("bytesio", "path")[(idx // 2) % 2], "chain": chains[(idx // 4) % len(chains)],
                     "enc": idx % 7 == 0}
                if f is not None and idx % 5 == 0:
                    # the failed call's exception leaves the with-block: no later call is made, __exit__ gets the exception and
                    # must still finalise the archive with what was written before (the same history ends at the failing call)
                    c["shapes"] = c["shapes"][:at + 1]
                    c["close"] = "ctx-exc"
                yield c


def case_key(c):
    f = c["fault"]
    return (tuple(c["shapes"]), c["at"], None if f is None else tuple(sorted(f.items())), c["close"], c["target"], c["chain"],
            c.get("enc", True), c["deref"])


def _pool_init():
    signal.signal(signal.SIGINT, signal.SIG_IGN)


def run(ctx):
    rep, tier, model = ctx["rep"], ctx["tier"], ctx["model"]
    rng = random.Random(ctx["seed"])
    rep.cov["rule"] = ("every history of 1..%d calls%s over {write file, write dir, write symlink, writestr, writef BytesIO, "
                       "writef BufferedIOBase, writeall of a tree with files, a sub-directory and links to a file and to a directory} x "
                       "dereference False/True x (no fault | one fault in call i with at most 2 later calls; the injected exception "
                       "is an OSError, a ValueError, a RuntimeError or a BaseException subclass) x "
                       "the fault menu of the call's shape (stat/lstat raising, source missing, arcname/argument rejected, "
                       "open raising once or for good, file removed after lstat, dangling link, read raising after k bytes once "
                       "or for good, writeall root missing / member failing); close mode, BytesIO/path target and filter "
                       "chain rotate over the cases; non-trivial = a fault is injected or the history has more than one call; "
                       "distinct by (shapes, fault, position, close, target, chain)" % (
                           (3, "") if tier == "quick" else (5, " (of 5 calls: every eighth, plus 4000 random ones over all chains)")))
    cases = list(enumerate_cases(tier))
    if tier != "quick":
        # the extra dimension sampled: every chain / close / target on random histories
        extra = []
        for _ in range(4000):
            c = dict(rng.choice(cases))
            c["chain"] = rng.choice(["copy", "lzma2", "deflate", "bzip2", "zstd", "lzma", "delta+lzma2", "x86+lzma2"])
            c["close"] = rng.choice(["ctx", "explicit"])
            c["target"] = rng.choice(["bytesio", "path"])
            c["enc"] = rng.random() < 0.3
            if c["fault"] is None or applicable(c["shapes"], c["at"], c["fault"], not c["deref"]):
                c["deref"] = rng.random() < 0.5 if c["fault"] is None else not c["deref"]
            extra.append(c)
        cases += extra
    per_kind = {}
    disagreements = 0
    agree = 0
    fn_ok = model is not None
    if model is not None:
        import vlib
        fn_ok = "ws_run" in vlib.fn_table()

    def handle(case, obs):
        nonlocal disagreements, agree
        f = case["fault"]
        rep.count(case_key(case), nontrivial=(f is not None or len(case["shapes"]) > 1))
        rep.dist("history_length", len(case["shapes"]))
        rep.dist("fault", "none" if f is None else "%s/%s%s" % (f["kind"], f["flavour"], "" if f["sticky"] else "/once"))
        rep.dist("exception_class", "-" if f is None else f.get("exc", "os"))
        rep.dist("dereference", case["deref"])
        rep.dist("faulted_call_shape", "-" if f is None else case["shapes"][case["at"]])
        rep.dist("later_calls", "-" if f is None else len(case["shapes"]) - 1 - case["at"])
        rep.dist("close/target/chain", "%s/%s/%s" % (case["close"], case["target"], case["chain"]))
        rd = obs.get("read") or ("none",)
        rep.dist("reader_outcome", rd[0] if rd[0] != "err" else rd[1])
        if f is not None and f["kind"] == "read" and f["k"] > 0:
            rep.dist("after_read_failure_with_k>0", rd[0] if rd[0] != "err" else rd[1])
        if fn_ok:
            ops = model_ops(case)
            mres = model.call("ws_run", ops)
            bad = compare_model(case, obs, mres)
            if not model_expected_agrees(case, model.call("ws_expected", ops)):
                bad.append("the model's `expected` and the harness's reading of the property differ")
            if bad:
                disagreements += 1
                if disagreements <= 3:
                    rep.violation("model and implementation disagree on %s: %s" % (describe(case), "; ".join(bad)[:900]),
                                  {"kind": "model-disagreement", "case": case, "obs": trim(obs), "what": bad},
                                  concrete=False, match_keys={"kind": "model-disagreement"})
            else:
                agree += 1
        for kind, effect, text in judge_property(case, obs):
            n = per_kind.get((kind, effect), 0)
            per_kind[(kind, effect)] = n + 1
            rep.dist("property_violations", "%s/%s" % (kind, effect))
            if n < 2:
                rep.violation("%s: %s" % (describe(case), text), {"kind": kind, "case": case, "obs": trim(obs)},
                              match_keys={"kind": kind, "effect": effect,
                                          "fault": "none" if f is None else f["kind"],
                                          "shape": "-" if f is None else case["shapes"][case["at"]]})
        if "lost_after_midway" in obs:
            rep.dist("members_of_returned_calls_failing_their_check_after_a_midway_failure", obs["lost_after_midway"])
        if len(rep.cov["samples"]) < 6 and f is not None and rng.random() < 0.01:
            rep.sample({"case": describe(case), "outs": obs["outs"], "read": str(rd)[:160]})

    nproc = min(8 if tier == "quick" else 16, os.cpu_count() or 4)
    if nproc <= 1:
        for case in cases:
            handle(case, run_session(case))
    else:
        with multiprocessing.Pool(nproc, initializer=_pool_init) as pool:
            for case, obs in zip(cases, pool.imap(run_session, cases, chunksize=64)):
                handle(case, obs)
    rep.extra["correspondence"] = {"histories_compared_with_model": agree + disagreements, "agree": agree,
                                   "disagree": disagreements,
                                   "compared": "raised/returned per call; init flag, current_file_index, last_file_index, "
                                               "entry list, sub-stream sizes and CRC-32s, compressor input length before close; "
                                               "reader outcome (members and bytes / CrcError / unreadable) and targeted reads"}
    rep.extra["property_violation_counts"] = {"%s/%s" % k: v for k, v in sorted(per_kind.items())}
    if not fn_ok:
        rep.violation("extracted model has no ws_run: the correspondence between WSession.v and the code was not run",
                      {"kind": "model-missing"}, concrete=False, match_keys={"kind": "model-missing"})


def describe(case):
    f = case["fault"]
    s = " ; ".join(case["shapes"])
    if f is None:
        return "[%s] no fault (%s,%s,%s%s)" % (s, case["close"], case["target"], case["chain"],
                                               ",dereference" if case["deref"] else "")
    return "[%s] fault in call %d: %s/%s%s k=%d %s%s (%s,%s,%s%s)" % (
        s, case["at"], f["kind"], f["flavour"], "" if f.get("exc", "os") == "os" else " raising " + EXC_CLASS[f["exc"]].__name__,
        f["k"], "for good" if f["sticky"] else "once",
        " member %d" % f["elem"] if case["shapes"][case["at"]] == "wall" else "", case["close"], case["target"], case["chain"],
        ",dereference" if case["deref"] else "")


def trim(obs):
    o = dict(obs)
    if o.get("read") and len(str(o["read"])) > 600:
        o["read"] = str(o["read"])[:600]
    return o


def replay(d):
    r = d["replay"]
    case = r.get("case")
    if not case:
        print(str(r)[:2000])
        return 2
    case.setdefault("deref", False)
    obs = run_session(case)
    print(describe(case))
    print("calls:", list(zip(obs["outs"], obs["msgs"])))
    print("before close:", obs["state"])
    print("close:", obs["close"], " reader:", str(obs["read"])[:400])
    if obs.get("targeted"):
        print("targeted reads:", obs["targeted"])
    v = judge_property(case, obs)
    for kind, effect, text in v:
        print("VIOLATES:", kind, effect, text)
    if r.get("kind") == "model-disagreement":
        import vlib
        m = vlib.Model()
        try:
            bad = compare_model(case, obs, m.call("ws_run", model_ops(case)))
        finally:
            m.close()
        print("model disagreement:", bad)
        return 1 if bad else 0
    return 1 if v else 0
