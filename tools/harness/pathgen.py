"""Translation validation of the lexical path checks of py7zr/helpers.py (third wave, stage 8): is_relative_to,
get_sanitized_output_path and is_path_valid as generated from the current source (coq/gen/HelpersPath2.v, extracted) against
the real functions, on every short string over "a./" and a pool of destinations, with pathlib paths given by their raw
segments (what CPython 3.12 stores); plus the parse [fs_of] (PathFsGen.v) that carries a pathlib path to FS.v's parsed path,
against pathlib, and the composite "generated = FS.v model through fs_of" that PathFsGen.v proves."""
import itertools
import os


def s2l(s):
    return [ord(c) for c in s]


def l2s(l):
    return "".join(chr(c) for c in l)


def segs(rw):
    return [s2l(s) for s in rw]


def parsed(p):
    """(root kind, parts) of a pathlib path: the argument FS.v's functions take"""
    root = {"": 0, "/": 1, "//": 2}[p.root]
    parts = list(p.parts[1:]) if p.root else list(p.parts)
    return [root, [s2l(c) for c in parts]]


def _code(e):
    from py7zr.exceptions import Bad7zFile
    if isinstance(e, Bad7zFile):
        return 1
    return 6


def check_lexical_gen(ctx, rep, rng, tier):
    import pathlib
    import vlib
    from py7zr.helpers import get_sanitized_output_path, is_path_valid, is_relative_to
    model = ctx.get("model")
    if model is None or "gen_is_path_valid" not in vlib.fn_table():
        return 0
    quick = tier == "quick"
    nbad = [0]

    def bad(msg, witness):
        nbad[0] += 1
        rep.violation(msg, dict(witness, kind="lexical-gen"), concrete=False, match_keys={"kind": "model-mismatch", "what": "generated"})

    def raw(p):
        return segs(p._raw_paths)

    cnt = 0
    # ---------------- the parse, on raw segment lists
    pool = ["", ".", "..", "a", "a/b", "a/", "/", "//", "///", "/a", "//a", "/a/..", "../a", "b/./c", "..//..", "/a//b/", "./", "a/.."]
    lists = [[]] + [[s] for s in pool] + [[s, t] for s in pool for t in pool]
    if not quick:
        lists += [[s, t, u] for s in pool for t in pool[:9] for u in pool[:9]]
    for rw in lists:
        p = pathlib.Path(*rw)
        got = model.call("gen_fs_of", segs(rw))
        cnt += 1
        rep.count(("gen-fs_of", tuple(rw)), nontrivial=len(rw) > 0)
        if got != parsed(p):
            bad("PathFsGen.fs_of differs from pathlib on %r: %r vs %r" % (rw, got, parsed(p)), {"fn": "fs_of", "rw": rw})
        if nbad[0] > 5:
            return cnt
    # ---------------- is_relative_to on pairs
    pairs = [(a, b) for a in lists[:1 + len(pool)] + lists[1 + len(pool)::17] for b in lists[:1 + len(pool)] + lists[1 + len(pool)::23]]
    if quick:
        pairs = pairs[::3]
    for a, b in pairs:
        pa, pb = pathlib.Path(*a), pathlib.Path(*b)
        want = [0, 1 if is_relative_to(pa, pb) else 0]
        got = model.call("gen_is_relative_to", [segs(a), segs(b)])
        cnt += 1
        rep.count(("gen-rel", tuple(a), tuple(b)), nontrivial=True)
        if got != want:
            bad("is_relative_to(%r, %r): generated %r code %r" % (a, b, got, want), {"fn": "is_relative_to", "a": a, "b": b})
        # the theorem gen_is_relative_to: = FS.is_relative_to on the parsed paths
        m = model.call("fs_is_relative_to", [parsed(pa), parsed(pb)]) if "fs_is_relative_to" in vlib.fn_table() else want[1]
        if m != want[1]:
            bad("FS.is_relative_to(%r, %r): model %r code %r" % (a, b, m, want[1]), {"fn": "fs_is_relative_to", "a": a, "b": b})
        if nbad[0] > 5:
            return cnt
    # ---------------- the sanitiser and is_path_valid on every short string
    maxlen = 6 if quick else 8
    strings = [""]
    for n in range(1, maxlen + 1):
        strings += ["".join(t) for t in itertools.product("a./", repeat=n)]
    strings += ["a_0", "..a", "a..", "...", "b/.../a", "/../x", "//x", "///x", "./../x", "./..", "x/../../y", "\\x", "é/../ü"]
    dests = [None, "/j/d", "d", "//j/d", "/j/../j/d", "/", ".", "../o", "d/../../e", "//"]
    home = os.getcwd()
    for cwd_dir in ([home, "/"] if quick else [home, "/", "/tmp"]):
        sub = strings if cwd_dir == home else strings[::11]
        try:
            os.chdir(cwd_dir)
            cwd = os.getcwd()
            cwd0 = segs([cwd])
            for idx, s in enumerate(sub):
                for d in (dests if (idx % 5 == 0 or len(s) <= 4) else dests[:4]):
                    # get_sanitized_output_path(fname, path): path as given (not made absolute: the function takes any)
                    darg = None if d is None else pathlib.Path(d)
                    try:
                        r = get_sanitized_output_path(s, darg)
                        want = [0, str(r)]
                    except Exception as e:  # noqa
                        want = [1, _code(e)]
                    g = model.call("gen_get_sanitized_output_path", [s2l(s), [] if darg is None else [raw(darg)], cwd0])
                    got = [0, l2s(g[1][1])] if g[0] == 0 else g
                    cnt += 1
                    rep.count(("gen-san", cwd_dir, s, d), nontrivial=True)
                    if got != want:
                        bad("get_sanitized_output_path(%r, %r) in %s: generated %r code %r" % (s, d, cwd, got, want),
                            {"fn": "sanitize", "s": s, "dest": d, "cwd": cwd})
                    # the theorem gen_get_sanitized_output_path: the FS.v function on the parsed arguments gives the parsed result
                    m = model.call("fs_sanitize", [s2l(s), [s2l(c) for c in cwd.split("/") if c], [] if darg is None else [parsed(darg)]])
                    m = m[0] if m else None
                    wantm = parsed(pathlib.Path(want[1])) if want[0] == 0 else None
                    if m != wantm:
                        bad("FS.get_sanitized_output_path(%r, %r) in %s: model %r code %r" % (s, d, cwd, m, wantm),
                            {"fn": "fs_sanitize", "s": s, "dest": d, "cwd": cwd})
                    # is_path_valid(target, parent): target built the way the link check builds it, parent as given
                    for tb in (["x"], ["/j/d", "x"], [cwd, "x"]) if idx % 3 == 0 else (["x"],):
                        tgt = pathlib.Path(*tb).joinpath(s)
                        parent = None if d is None else pathlib.Path(d)
                        try:
                            want = [0, 1 if is_path_valid(tgt, parent) else 0]
                        except Exception as e:  # noqa
                            want = [1, _code(e)]
                        got = model.call("gen_is_path_valid", [raw(tgt), [] if parent is None else [raw(parent)], cwd0])
                        cnt += 1
                        rep.count(("gen-valid", cwd_dir, tuple(tb), s, d), nontrivial=True)
                        if got != want:
                            bad("is_path_valid(%r, %r) in %s: generated %r code %r" % (str(tgt), d, cwd, got, want),
                                {"fn": "is_path_valid", "s": s, "tb": tb, "dest": d, "cwd": cwd})
                        m = model.call("fs_is_path_valid", [parsed(tgt), [s2l(c) for c in cwd.split("/") if c],
                                                           [] if parent is None else [parsed(parent)]])
                        if want[0] == 0 and m != want[1]:
                            bad("FS.is_path_valid(%r, %r) in %s: model %r code %r" % (str(tgt), d, cwd, m, want[1]),
                                {"fn": "fs_is_path_valid", "s": s, "tb": tb, "dest": d, "cwd": cwd})
                    if nbad[0] > 5:
                        return cnt
        finally:
            os.chdir(home)
    cnt += check_real_inside_gen(ctx, rep, rng, tier)
    rep.extra["lexical_gen_cases"] = cnt
    return cnt


def check_real_inside_gen(ctx, rep, rng, tier):
    """is_real_path_inside: the generated function (it takes what os.path.realpath(target) answered) against the real one, on
    targets in a scratch tree with symbolic links and on names that do not exist; and, where both strs are real paths in
    canonical form, against the component-wise prefix test of FS.real_inside (PathFsGen.gen_is_real_path_inside)"""
    import pathlib
    import shutil
    import tempfile
    import vlib
    from py7zr.helpers import is_real_path_inside
    model = ctx.get("model")
    if model is None or "gen_is_real_path_inside" not in vlib.fn_table():
        return 0
    cnt = 0
    base = os.path.realpath(tempfile.mkdtemp(prefix="pathgen-"))
    try:
        os.makedirs(os.path.join(base, "d", "sub"))
        os.makedirs(os.path.join(base, "d_backup"))
        os.makedirs(os.path.join(base, "e"))
        os.symlink("../e", os.path.join(base, "d", "out"))
        os.symlink("sub", os.path.join(base, "d", "in"))
        os.symlink("/", os.path.join(base, "d", "rootlink"))
        os.symlink("loop", os.path.join(base, "d", "loop"))
        rels = ["", ".", "x", "sub", "sub/x", "in/x", "out", "out/x", "../d_backup/x", "../d/x", "..", "../..", "rootlink", "rootlink/etc",
                "loop", "loop/x", "sub/../../e", "sub//x/", "./sub/./x", "a/../../d_backup", "\\x"]
        targets = [os.path.join(base, "d", r) for r in rels] + ["/", "//", "///", "/tmp", "//tmp", "/tmp/", base, base + "/", "d", "."]
        roots = [base + "/d", base + "/d/", base + "/d//", base, "/", "//", base + "/d_backup", base + "/d/sub", base + "/e", base + "/d/out", "",
                 base + "/D", "/tmp"]
        for t in targets:
            for tt in (t, pathlib.Path(t)):
                real0 = os.path.realpath(tt)
                for root in roots:
                    want = [0, 1 if is_real_path_inside(tt, root) else 0]
                    got = model.call("gen_is_real_path_inside", [s2l(real0), s2l(root)])
                    cnt += 1
                    rep.count(("gen-real", str(t)[len(base):] if str(t).startswith(base) else str(t), type(tt).__name__,
                               root[len(base):] if root.startswith(base) else root), nontrivial=True)
                    if got != want:
                        rep.violation("is_real_path_inside(%r, %r): generated %r code %r" % (str(tt), root, got, want),
                                      {"kind": "lexical-gen", "fn": "is_real_path_inside", "target": str(tt), "root": root}, concrete=False,
                                      match_keys={"kind": "model-mismatch", "what": "generated"})
                        return cnt
                    # both strs canonical ("/" or "/a/b"): the verdict is the component-wise prefix test
                    def canon(s):
                        return s == "/" or (s.startswith("/") and not s.endswith("/") and "//" not in s)
                    if canon(real0) and canon(root):
                        a, b = [c for c in real0.split("/") if c], [c for c in root.split("/") if c]
                        if (b == a[:len(b)]) != bool(want[1]):
                            rep.violation("is_real_path_inside(%r, %r) = %r is not the component-wise prefix test" % (real0, root, want[1]),
                                          {"kind": "lexical-gen", "fn": "real_inside-prefix", "real": real0, "root": root}, concrete=False,
                                          match_keys={"kind": "model-mismatch", "what": "generated"})
                            return cnt
    finally:
        shutil.rmtree(base, ignore_errors=True)
    return cnt
