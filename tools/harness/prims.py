"""prims.py -- differential test of the PyPrims-level vocabulary (coq/theories/PyPrims.v, PyStr.v, PyStat.v, PyRe.v and
the pathlib bindings of Path.v used by generated code) against CPython.

tools/translate.py maps Python constructs to these Gallina definitions; they are the *definition* of what the
translator assumes CPython does.  `check_prims(ctx, rep)` runs every one of them (through the dispatcher of
coq/theories/GenDispatch.v, entries 1080-1099, extracted) and CPython itself on boundary-directed and seeded random
arguments, error cases included.  Call it from the run() of any harness that has GEN_DEPS."""
import io
import itertools
import random
import struct

ERR = "ERR"


def _res(t):
    """t_res tree -> value or ERR"""
    return t[1] if t[0] == 0 else ERR


def _py(f):
    try:
        return f()
    except (ValueError, OverflowError, ZeroDivisionError, IndexError, TypeError, KeyError, struct.error):
        return ERR


def _ints(rng):
    vals = set([0, 1, -1, 2, -2, 7, 8, 15, 16, 17, 127, 128, 255, 256, -255, -256, -257, 1000, 65535, 65536])
    for k in (7, 8, 15, 16, 31, 32, 33, 56, 63, 64, 65, 100):
        for d in (-1, 0, 1):
            vals.add((1 << k) + d)
            vals.add(-((1 << k) + d))
    for _ in range(40):
        vals.add(rng.getrandbits(rng.choice([3, 8, 16, 32, 64, 70])) * rng.choice([1, -1]))
    return sorted(vals)


def check_prims(ctx, rep):
    model = ctx.get("model")
    import vlib
    if model is None or "prim_int" not in vlib.fn_table():
        return
    try:
        probe = model.call("prim_int", [0, 5, 0])
    except Exception:  # noqa
        probe = None
    if probe != 3:
        rep.extra["prims"] = "not run: the generated-model executable is not the one in use"
        return
    rng = random.Random(ctx.get("seed", 0) ^ 0x9E37)
    n = [0]
    bad = []

    def cmp(what, args, got, want):
        n[0] += 1
        if got != want and len(bad) < 5:
            bad.append((what, args, got, want))

    def seq(x):
        return list(x) if not isinstance(x, str) else x

    ints = _ints(rng)
    small = [-9, -8, -2, -1, 0, 1, 2, 3, 7, 8, 9, 16, 64, 65]
    # ---------------- integers
    for a in ints:
        cmp("int.bit_length", a, model.call("prim_int", [0, a, 0]), a.bit_length())
        for b in small + [rng.choice(ints) for _ in range(3)]:
            cmp("//", (a, b), _res(model.call("prim_int", [1, a, b])), _py(lambda: a // b))
            cmp("%", (a, b), _res(model.call("prim_int", [2, a, b])), _py(lambda: a % b))
            if b != 0:
                cmp("Z.div", (a, b), model.call("prim_int", [14, a, b]), a // b)
                cmp("Z.modulo", (a, b), model.call("prim_int", [15, a, b]), a % b)
            cmp("&", (a, b), model.call("prim_int", [11, a, b]), a & b)
            cmp("|", (a, b), model.call("prim_int", [12, a, b]), a | b)
            cmp("^", (a, b), model.call("prim_int", [13, a, b]), a ^ b)
            if -300 < b < 300:
                cmp("<<", (a, b), _res(model.call("prim_int", [3, a, b])), _py(lambda: a << b))
                cmp(">>", (a, b), _res(model.call("prim_int", [4, a, b])), _py(lambda: a >> b))
            if b < 40:
                g = _res(model.call("prim_int", [5, a, b]))
                cmp("int.to_bytes(n,'little')", (a, b), g if g == ERR else bytes(g), _py(lambda: a.to_bytes(b, "little")))
        for op, fmt in ((6, "B"), (7, "<L"), (8, "<Q")):
            g = _res(model.call("prim_int", [op, a, 0]))
            cmp("pack(%r)" % fmt, a, g if g == ERR else bytes(g), _py(lambda: struct.pack(fmt, a)))
        if a < 3000:
            g = _res(model.call("prim_int", [9, a, 0]))
            cmp("bytes(n)", a, g if g == ERR else bytes(g), _py(lambda: bytes(a)))
    for a, b in itertools.product(small, small):
        cmp("range", (a, b), model.call("prim_int", [10, a, b]), list(range(a, b)))
    # ---------------- sequences
    seqs = [[], [0], [255], [1, 2], [1, 2, 3], list(range(16)), list(range(17)), [rng.randrange(256) for _ in range(33)]]
    for l in seqs:
        ln = len(l)
        bounds = [None] + list(range(-ln - 2, ln + 3))
        for i, j in itertools.product(bounds, bounds):
            cmp("slice", (l, i, j), model.call("prim_seq", [0, l, [] if i is None else [i], [] if j is None else [j]]), l[i:j])
        for i in range(-ln - 2, ln + 3):
            cmp("index", (l, i), _res(model.call("prim_seq", [1, l, [i], []])), _py(lambda: l[i]))

            def setit():
                c = list(l)
                c[i] = 77
                return c
            cmp("setitem", (l, i), _res(model.call("prim_seq", [2, l, [i], [77]])), _py(setit))
            r = model.call("prim_seq", [8, l, [i], []])
            f = io.BytesIO(bytes(l))
            first = f.read(i)
            cmp("file.read", (l, i), [bytes(r[0]), bytes(r[1])], [first, f.read()])
        cmp("len", l, model.call("prim_seq", [3, l, [], []]), len(l))
        cmp("int.from_bytes(.,'little')", l, model.call("prim_seq", [4, l, [], []]), int.from_bytes(bytes(l), "little"))
        cmp("ord", l, _res(model.call("prim_seq", [7, l, [], []])), _py(lambda: ord(bytes(l))))
        cmp("truth", l, model.call("prim_seq", [9, l, [], []]), 1 if l else 0)

        def pop():
            c = list(l)
            c.pop()
            return c
        cmp("pop", l, _res(model.call("prim_seq", [10, l, [], []])), _py(pop))
        cmp("enumerate", l, model.call("prim_seq", [11, l, [], []]), [list(x) for x in enumerate(l)])
        if "gen_Folder_retrieve" in vlib.fn_table():      # entries of the third wave present
            for x in (0, 1, 2, 255, -1, 7):
                cmp("int in list/set", (x, l), model.call("prim_seq", [12, l, [x], []]), 1 if x in set(l) else 0)
            cmp("sum", l, model.call("prim_seq", [13, l, [], []]), sum(l))
            it = iter(l)
            cmp("next(iter)", l, _res(model.call("prim_seq", [14, l, [], []])), _py(lambda: [next(it), list(it)]) if l else ERR)
    if "gen_SubstreamsInfo_retrieve" in vlib.fn_table():      # stage 3 of the third wave present
        for a in range(-2, 7):
            for b in range(-3, 7):
                cmp("range(a, b, -1)", (a, b), model.call("prim_seq", [15, [], [a], [b]]), list(range(a, b, -1)))
    if "gen_read_utf16" in vlib.fn_table():      # stage 5 of the third wave present
        units = [0x41, 0x5C, 0x2F, 0xE9, 0x4E2D, 0xD7FF, 0xD800, 0xDBFF, 0xDC00, 0xDFFF, 0xE000, 0xFFFF, 0]
        for _ in range(400):
            us = [rng.choice(units) for _ in range(rng.randrange(0, 5))]
            bs = [b for u in us for b in (u & 255, u >> 8)] + ([rng.randrange(256)] if rng.random() < 0.15 else [])
            cmp("bytes.decode('utf-16LE')", bs, _res(model.call("prim_str", [5, bs, []])),
                _py(lambda: [ord(c) for c in bytes(bs).decode("utf-16LE")]))
            cps = [rng.choice(units + [0x10000, 0x10FFFF, 0x1F600]) for _ in range(rng.randrange(0, 5))]
            cmp("str.encode('utf-16LE')", cps, _res(model.call("prim_str", [6, cps, []])),
                _py(lambda: list("".join(chr(c) for c in cps).encode("utf-16LE"))))
            cmp("str.replace('\\\\', '/')", cps, model.call("prim_str", [7, cps, []]),
                [ord(c) for c in "".join(chr(c) for c in cps).replace("\\", "/")])
        if "gen_SignatureHeader_retrieve" in vlib.fn_table():
            import io as _io
            from py7zr.helpers import read_fully

            class Dribble(_io.RawIOBase):       # a file that returns at most 3 bytes per read()
                def __init__(self, data):
                    self.d, self.p = data, 0

                def read(self, n=-1):
                    k = min(3, n if n >= 0 else 3)
                    out = self.d[self.p:self.p + k]
                    self.p += len(out)
                    return out
            for ln in (0, 1, 5, 26, 27, 40):
                data = bytes(rng.randrange(256) for _ in range(ln))
                for want_n in (0, 1, 26, 30):
                    cmp("read_fully(file, n) = the next n bytes (fewer at the end)", (ln, want_n),
                        [read_fully(_io.BytesIO(data), want_n), read_fully(Dribble(data), want_n), read_fully(_io.BytesIO(data), want_n, 4)],
                        [data[:want_n]] * 3)
        if "read_fully_model" in vlib.fn_table():      # hand model ReadFully.v (theorem C01_read_fully_any_schedule) against the Python
            import io as _io2
            from py7zr.helpers import read_fully as _rf

            class Scheduled(_io2.RawIOBase):     # the k-th read() returns at most caps[k] bytes; full reads once the schedule is used up
                def __init__(self, data, pos, caps):
                    self.d, self.p, self.caps, self.calls, self.maxreq, self.reqs = data, pos, list(caps), 0, 0, []

                def read(self, n=-1):
                    self.calls += 1
                    k = len(self.d) if n < 0 else n
                    self.maxreq = max(self.maxreq, 1 << 62 if n < 0 else n)
                    self.reqs.append(n)
                    if self.caps:
                        k = min(k, self.caps.pop(0))
                    out = self.d[self.p:self.p + k]
                    self.p += len(out)
                    return out
            for _ in range(300):
                ln = rng.choice((0, 1, 2, 5, 9, 26, 32, 40))
                data = bytes(rng.randrange(256) for _ in range(ln))
                pos = rng.choice((0, 0, 1, ln // 2, ln, ln + 2))
                size = rng.choice((0, 1, 2, 6, 26, 32, 45))
                bs = rng.choice((1, 2, 4, 7, 64))
                zero = rng.random() < 0.15           # a read() returning b"" before the end: outside the theorem, still the same loop
                caps = [rng.choice((0, 1, 2) if zero else (1, 1, 2, 3, 5, 50)) for _ in range(rng.randrange(0, 12))]
                f = Scheduled(data, pos, caps)
                got = _py(lambda: [list(_rf(f, size, bs)), f.p])
                got = got + [list(f.reqs)] if isinstance(got, list) else got      # + the size every read() asked for (ReadFully.rf_requests)
                cmp("read_fully over a scheduled file = ReadFully.read_fully", (ln, pos, size, bs, caps),
                    model.call("read_fully_model", [list(data), pos, size, bs, caps]), got)
                if not zero:                          # the theorem's statement, on the implementation
                    cmp("read_fully = next size bytes, position just behind them; at most size+1 reads, none asking for more than a block "
                        "(the model asks for min(remaining, blocksize))", (ln, pos, size, bs, caps),
                        [got[:2], f.calls <= size + 1, f.maxreq <= min(size, bs)], [[list(data[pos:pos + size]), pos + len(data[pos:pos + size])], True, True])
        from py7zr.helpers import ArchiveTimestamp
        for v in (0, 1, 5, 1 << 63, (1 << 64) - 1, -3):
            cmp("ArchiveTimestamp(v) is the int v", v, [int(ArchiveTimestamp(v)), ArchiveTimestamp(v) == v, isinstance(ArchiveTimestamp(v), int),
                                                      "__new__" in vars(ArchiveTimestamp), "__init__" in vars(ArchiveTimestamp)],
                [v, True, True, False, False])
    for ln in (0, 3, 4, 5, 7, 8, 9):
        l = [rng.randrange(256) for _ in range(ln)]
        cmp("unpack('<L')", l, _res(model.call("prim_seq", [5, l, [], []])), _py(lambda: struct.unpack("<L", bytes(l))[0]))
        cmp("unpack('<Q')", l, _res(model.call("prim_seq", [6, l, [], []])), _py(lambda: struct.unpack("<Q", bytes(l))[0]))
    for ln in range(0, 12):
        bits = [rng.random() < 0.7 for _ in range(ln)]
        for init in (True, False):
            import operator
            from functools import reduce
            cmp("reduce(and_)", (bits, init), model.call("prim_bools", [0, init, bits]), 1 if reduce(operator.and_, bits, init) else 0)
            cmp("reduce(or_)", (bits, init), model.call("prim_bools", [1, init, bits]), 1 if reduce(operator.or_, bits, init) else 0)
        if "gen_Folder_retrieve" in vlib.fn_table():      # entries of the third wave present
            cmp("list.count(True)", bits, model.call("prim_bools", [2, False, bits]), bits.count(True))
    # ---------------- str
    alpha = ["", "/", ".", "./", "..", "a", "a/", "/a", "./a", ".//", "a./", "//", "x/y/", "é/", "/\U00010000"]
    for s, p in itertools.product(alpha, alpha):
        cs, cp = [ord(c) for c in s], [ord(c) for c in p]
        cmp("str ==", (s, p), model.call("prim_str", [0, cs, cp]), 1 if s == p else 0)
        cmp("str.startswith", (s, p), model.call("prim_str", [1, cs, cp]), 1 if s.startswith(p) else 0)
        cmp("str.endswith", (s, p), model.call("prim_str", [2, cs, cp]), 1 if s.endswith(p) else 0)
        if model.call("prim_str", [4, [47], []]) == 1:      # entries of the later waves present
            g = model.call("prim_str", [3, cs, cp])
            cmp("str.lstrip", (s, p), "".join(chr(c) for c in g), s.lstrip(p) if p else s)   # lstrip('') strips nothing
            import posixpath
            cmp("os.path.isabs", s, model.call("prim_str", [4, cs, []]), 1 if posixpath.isabs(s) else 0)
            if model.call("prim_str", [9, [47], []]) == [47]:      # stage 8b entries present
                import os
                g = model.call("prim_str", [8, cs, cp])
                cmp("str.rstrip", (s, p), "".join(chr(c) for c in g), s.rstrip(p) if p else s)   # rstrip('') strips nothing
                cmp("os.path.normcase", s, "".join(chr(c) for c in model.call("prim_str", [9, cs, []])), os.path.normcase(s))
    # ---------------- pathlib bindings used by generated code
    import pathlib
    segs = ["", ".", "..", "a", "a/b", "a/", "/", "//", "///", "/a", "//a", "/a/..", "../a", "b/./c", "..//..", "c:", "/a//b/"]
    for rw in [[s] for s in segs] + [[s, t] for s in segs for t in segs] + [[]]:
        p = pathlib.PurePosixPath(*rw)
        g = model.call("prim_path", [[ord(c) for c in s] for s in rw])
        got = (["".join(chr(c) for c in x) for x in g[0]], g[1] == 1, "".join(chr(c) for c in g[2]))
        cmp("pathlib parts/is_absolute/anchor", rw, got, (list(p.parts), p.is_absolute(), p.anchor))
        q = pathlib.Path(*rw)   # the class the code uses is the posix one here
        cmp("pathlib.Path is posix", rw, (list(q.parts), q.is_absolute(), q.anchor), (list(p.parts), p.is_absolute(), p.anchor))
    # ---------------- pathlib operations of the third wave's stage 8 (PyPath.v, Path.v): relative_to / is_relative_to / joinpath(path)
    if "prim_path2" in vlib.fn_table():
        import os
        for a in [[s] for s in segs] + [[s, t] for s in segs[:9] for t in segs[:9]] + [[]]:
            for b in [[s] for s in segs] + [[s, t] for s in segs[:6] for t in segs[:6]] + [[]]:
                pa, pb = pathlib.Path(*a), pathlib.Path(*b)
                try:
                    r = pa.relative_to(pb)
                    want_rel = [0, str(r)]
                except ValueError:
                    want_rel = [1, 6]
                g = model.call("prim_path2", [[[ord(c) for c in s] for s in a], [[ord(c) for c in s] for s in b]])
                got_rel = [0, "".join(chr(c) for c in g[0][1][1])] if g[0][0] == 0 else g[0]
                cmp("pathlib relative_to/is_relative_to/joinpath", (a, b),
                    (got_rel, g[1] == 1, "".join(chr(c) for c in g[2])), (want_rel, pa.is_relative_to(pb), str(pa.joinpath(pb))))
                if g[0][0] == 0:      # the segments of the result are the ones pathlib stores
                    cmp("pathlib relative_to raw segments", (a, b), ["".join(chr(c) for c in x) for x in g[0][1][0]], list(r._raw_paths))
        cmp("pathlib.Path.cwd() is Path(os.getcwd())", "", (str(pathlib.Path.cwd()), list(pathlib.Path.cwd()._raw_paths)), (os.getcwd(), [os.getcwd()]))
        cmp("pathlib.Path(p) of a path keeps it", "", list(pathlib.Path(pathlib.Path("a", "/b", "c"))._raw_paths), ["a", "/b", "c"])
        cmp("joinpath appends raw segments", "", (list(pathlib.Path("a").joinpath("b/")._raw_paths), list(pathlib.Path("a").joinpath(pathlib.Path("/b", "c"))._raw_paths)),
            (["a", "b/"], ["a", "/b", "c"]))
    # ---------------- later waves (each guarded by the presence of its dispatcher entry)
    for extra in (_check_stat, _check_re, _check_buffer):
        extra(model, vlib, cmp, rng)
    # ---------------- constants of other modules inlined by the translator
    import importlib
    import os
    import sys
    sys.path.insert(0, os.path.dirname(os.path.dirname(os.path.abspath(__file__))))
    try:
        import translate
    finally:
        sys.path.pop(0)
    for dotted, val in translate.EXTERNAL_CONSTANTS.items():
        mod, attr = dotted.rsplit(".", 1)
        cmp("constant " + dotted, dotted, getattr(importlib.import_module(mod), attr, None), val)
    rep.extra["prims"] = {"comparisons": n[0], "disagreements": len(bad)}
    rep.count(("prims", n[0]), nontrivial=True, n=n[0])
    for what, args, got, want in [b for b in bad if b[0].startswith("read_fully")][:2]:
        # a py7zr function against its hand model (not a CPython primitive): the case is a concrete input of helpers.read_fully
        exp, py = (got, want) if "ReadFully" in what else (want, got)       # cmp(model, python) resp. cmp(python, expected)
        rep.violation("py7zr.helpers.read_fully no longer behaves as the model ReadFully.v (theorems C01_read_fully_*, C05_read_fully_*): "
                      "%s; case (file length, position, size, blocksize, read schedule) = %r: model/expected %r, Python %r" % (what, args, exp, py),
                      {"kind": "read_fully", "check": what, "case": repr(args), "expected": repr(exp), "python": repr(py)},
                      concrete=True, match_keys={"kind": "read_fully"})
    for what, args, got, want in [b for b in bad if not b[0].startswith("read_fully")][:3]:
        rep.violation("the Gallina definition of the Python primitive %s disagrees with CPython on %r: model %r, CPython %r" % (
            what, args, got, want), {"kind": "prims", "primitive": what, "args": repr(args)}, concrete=False,
            match_keys={"kind": "prims", "primitive": what})


def _check_stat(model, vlib, cmp, rng):
    if "prim_stat" not in vlib.fn_table():
        return
    import stat
    names = ["FILE_ATTRIBUTE_ARCHIVE", "FILE_ATTRIBUTE_DIRECTORY", "FILE_ATTRIBUTE_READONLY", "FILE_ATTRIBUTE_REPARSE_POINT"]
    consts = model.call("prim_stat", [0, 0])
    cmp("stat.FILE_ATTRIBUTE_*", names, consts, [getattr(stat, x, None) for x in names])
    modes = set([0, 0o777, 0o7777, 0o10000, 0o170000, 0o177777, 0o200000, 0o1000000, (1 << 32) - 1, 1 << 32, (1 << 40) + 5, -1, -4096])
    for fmt in (0o010000, 0o020000, 0o040000, 0o060000, 0o100000, 0o120000, 0o140000, 0o160000, 0o110000, 0, 0o030000):
        for perm in (0, 0o644, 0o755, 0o7777, 0o4000):
            modes.add(fmt | perm)
            modes.add(fmt | perm | 0o200000)
    for _ in range(300):
        modes.add(rng.getrandbits(rng.choice([12, 16, 17, 32, 48])))
    for m in sorted(modes):
        g = [_res(x) for x in model.call("prim_stat", [1, m])]
        want = [_py(lambda: f(m)) for f in (stat.S_ISLNK, stat.S_ISSOCK, stat.S_IMODE, stat.S_IFMT, stat.S_ISDIR, stat.S_ISREG)]
        want = [(1 if w else 0) if isinstance(w, bool) else w for w in want]
        cmp("stat.S_ISLNK/S_ISSOCK/S_IMODE/S_IFMT/S_ISDIR/S_ISREG", m, g, want)


def _check_re(model, vlib, cmp, rng):
    if "prim_re" not in vlib.fn_table():
        return
    import re
    chars = ["0", "9", "5", "b", "B", "k", "K", "m", "G", "g", "\n", " ", "x", "-", "\u212a", "\u0131", "\u0661", "\uff11", "",
             "\r", "M", "\u017f", "\u03a9", "s", "i", "\u0130"]
    cases = set()
    for n in range(0, 4):
        for t in itertools.product(chars[:19], repeat=n):
            cases.add("".join(t))
    for _ in range(1500):
        cases.add("".join(rng.choice(chars + ["1", "2", "0", "7"]) for _ in range(rng.randrange(1, 9))))
    alphabet = "abcdefghijklmnopqrstuvwxyz"
    for letters in ("bkmg", alphabet, "k", "is"):
        pat = re.compile(r"^([0-9]+)([%s]?)$" % letters, re.IGNORECASE)
        cl = [ord(c) for c in letters]
        for s in sorted(cases):
            m = pat.match(s)
            want = [] if m is None else [[[ord(c) for c in m.group(1)], [ord(c) for c in m.group(2)]]]
            if m is not None and m.group(2) is None:
                want = "group 2 is None"
            cmp("re.match(^([0-9]+)([%s]?)$, IGNORECASE)" % letters, s, model.call("prim_re", [0, cl, [ord(c) for c in s]]), want)
        if letters in ("bkmg", alphabet):
            # every code point, alone and after a digit
            for lo in range(0, 0x110000, 0x4000):
                cs = list(range(lo, lo + 0x4000))
                got = model.call("prim_re", [2, cl, cs])
                want = [(1 if pat.match(chr(c)) else 0) + (2 if pat.match("1" + chr(c)) else 0) for c in cs]
                if got != want:
                    k = next(i for i in range(len(cs)) if got[i] != want[i])
                    cmp("re.match(^([0-9]+)([%s]?)$, IGNORECASE) on U+%04X" % (letters, cs[k]), cs[k], got[k], want[k])
                else:
                    cmp("re over code points", lo, 0, 0)
    pat2 = re.compile("^[a-zA-Z]:")
    if model.call("prim_re", [4, [], [99, 58]]) == 1:
        for s in sorted(cases) + ["c:", "C:/x", "c", ":", "c:c:", "1:", "\u00e9:", "\uff43:", "cc:", " c:", "c :", "\nc:", "Z:", "[:", "`:", "{:", "@:"]:
            cmp("re.match(^[a-zA-Z]:)", s, model.call("prim_re", [4, [], [ord(c) for c in s]]), 1 if pat2.match(s) else 0)
        for lo in range(0, 0x110000, 0x4000):
            cs = list(range(lo, lo + 0x4000))
            got = model.call("prim_re", [5, [], cs])
            want = [1 if pat2.match(chr(c) + ":") else 0 for c in cs]
            if got != want:
                k = next(i for i in range(len(cs)) if got[i] != want[i])
                cmp("re.match(^[a-zA-Z]:) on U+%04X" % cs[k], cs[k], got[k], want[k])
            else:
                cmp("re alpha over code points", lo, 0, 0)
    # int(str): the primitive models strings of ASCII digits only (anything else: Err EUnsupported = code 4)
    for s in ["0", "00", "7", "0123", "99999999999999999999", "12", "0" * 4300, "0" * 4301, "1" * 4300, "1" * 4301, "9" * 5000,
              "", "1_0", " 1", "1 ", "+1", "-1", "\u0661", "\uff11\uff12", "1\n", "0x10", "1e3"]:
        g = model.call("prim_re", [1, [], [ord(c) for c in s]])
        if s and all(c in "0123456789" for c in s):
            cmp("int(str of ASCII digits)", s[:30] + ("..." if len(s) > 30 else ""), _res(g), _py(lambda: int(s)))
        else:
            cmp("int(str) outside the modelled domain is flagged", s, g, [1, 4])
    d = {"a": 1, "bc": 2, "": 3, "A": 4}
    for k in ["a", "bc", "", "A", "b", "c", "ab", "aa", "B"]:
        cmp("dict[str]", k, _res(model.call("prim_re", [3, [], [ord(c) for c in k]])), _py(lambda: d[k]))


def _check_buffer(model, vlib, cmp, rng):
    """py7zr.io.Buffer as the translator models it for the AES methods: the bytes of its view; add = append,
    set = replace, reset = empty, len() = length of the view"""
    try:
        from py7zr.io import Buffer
    except Exception:  # noqa
        return
    for _ in range(300):
        size = rng.choice([1, 16, 17, 48, 4096])
        b = Buffer(size=size)
        m = b""
        cmp("Buffer()", size, (len(b), bytes(b.view)), (0, b""))
        for _ in range(rng.randrange(1, 12)):
            op = rng.choice(["add", "add", "set", "reset"])
            d = bytes(rng.randrange(256) for _ in range(rng.choice([0, 1, 15, 16, 17, 33, 100])))
            d = rng.choice([d, bytearray(d), memoryview(d)])
            if op == "add":
                b.add(d)
                m = m + bytes(d)
            elif op == "set":
                b.set(d)
                m = bytes(d)
            else:
                b.reset()
                m = b""
            cmp("Buffer.%s" % op, (size, len(m)), (len(b), bytes(b.view)), (len(m), m))
