"""C16 -- member names are kept relative on write.

Correspondence: the Gallina model (coq/theories/Path.v, extracted) against real pathlib /
py7zr.helpers / SevenZipFile._sanitize_archive_arcname on every name of the property's alphabet,
on names made of the components of the dummy directory the check used before it was repaired (kept as a
regression set), on directed names and on seeded
random Unicode names.  Exploration: the same names against `spec_ok` written here in Python
(independently of the model and of pathlib), then through writestr / writef on in-memory archives
(rejected => ValueError and nothing changed; accepted => stored) and write / writeall over a
scratch tree (only relative names stored, the ones the model predicts)."""
import io
import itertools
import multiprocessing
import os
import pathlib
import random
import shutil
import tempfile
import traceback

import py7zr
import py7zr.helpers as H
from py7zr.exceptions import AbsolutePathError

GEN_DEPS = ["check_archive_path", "canonical_path", "remove_trailing_slash", "remove_relative_path_marker",
            "SevenZipFile._sanitize_archive_arcname"]
LEVEL = "proof"
TRUSTED_BASE = [
    "Coq 8.16.1 kernel, vm_compute (no native_compute); no axioms (Print Assumptions: closed)",
    "theories/Path.v as a transcription of CPython 3.12 pathlib.PurePosixPath/posixpath (parse, parts, join, "
    "is_absolute, relative_to, str) and of helpers.canonical_path/is_relative_to/is_path_valid/check_archive_path, "
    "SevenZipFile._sanitize_archive_arcname, _make_file_info(_from_name) file name; hand-written, tied to the code by "
    "the exhaustive correspondence of this check (not by the translator)",
    "tools/translate.py + theories/PyPrims.v, PyStr.v (semantics of the Python primitives; differential-tested here by "
    "harness/prims.py): the C16_gen_* theorems are about coq/gen/HelpersPath.v, regenerated from py7zr/helpers.py on this "
    "run (check_archive_path, canonical_path, remove_trailing_slash, remove_relative_path_marker), with pathlib.Path(..)/"
    ".parts/.is_absolute()/.anchor mapped to Path.v's pp_* primitives",
    "extraction (ExtrOcamlBasic only) + ocaml/driver.ml for running the model",
    "spec_ok in this file (Python, independent of pathlib) agrees with Path.spec_ok on every enumerated name",
]
ASSUMPTIONS = [
    "runtime is Linux / CPython 3.12 (os.sep = '/', PurePosixPath); the win32 branch of check_archive_path is not modelled",
    "pathlib's path equality is modelled structurally (root, tail) instead of through str(); checked by correspondence",
    "'the archive is unchanged after a rejected call' is observed (member list, header list, bytes written, names after "
    "close/reopen), not proved; the state machine proof belongs to C15",
]

ALPHA = ["a", "b", "..", ".", "", "c:"]
PREFIX = ["", "/", "//"]
SUFFIX = ["", "/"]
# components of the directory check_archive_path resolved '..' against before the fix e9f383b (names built from them
# were accepted although they climb above the root); kept as a regression set
DUMMY = ["foo", "boo", "fuga", "hoge", "a90sufoiasj09", "dafj08sajfa"]
DUMMY_ALPHA = ["x", "..", "."] + DUMMY
LAST = DUMMY[-1]


# ------------------------------------------------------------------ the independent definition
def spec_ok(name):
    """not absolute, and resolving '..' lexically against a virtual root never climbs above it"""
    if name[:1] == "/":
        return False
    depth = 0
    for c in name.split("/"):
        if c == "" or c == ".":
            continue
        if c == "..":
            depth -= 1
            if depth < 0:
                return False
        else:
            depth += 1
    return True


# ------------------------------------------------------------------ name sets
def alpha_names(maxc):
    seen = set()
    for pre in PREFIX:
        for suf in SUFFIX:
            seen.add(pre + suf)
    for n in range(1, maxc + 1):
        for comps in itertools.product(ALPHA, repeat=n):
            body = "/".join(comps)
            for pre in PREFIX:
                for suf in SUFFIX:
                    seen.add(pre + body + suf)
    return sorted(seen)


def dummy_names(maxc):
    seen = set()
    for n in range(1, maxc + 1):
        for comps in itertools.product(DUMMY_ALPHA, repeat=n):
            body = "/".join(comps)
            seen.add(body)
            if n <= 3:
                seen.add("/" + body)
                seen.add(body + "/")
    return sorted(seen)


def directed_names():
    full = "/".join(DUMMY)
    out = [full, "/" + full, "//" + full, "/" + full + "/", "/" + full + "/x", "/" + full + "/../x", "/" + full + "/x/..",
           full + "/x", "../" + LAST, "../" + LAST + "/x", "a/../../" + LAST, "../" + LAST + "/..", "../" + LAST + "/../x",
           "../" + LAST.upper() + "/x", "../" + LAST + "x", "../x" + LAST, "../ " + LAST, "..//" + LAST + "//x",
           ".././" + LAST + "/./x", "x/../../" + LAST + "/../../" + "/".join(DUMMY[-2:]) + "/y"]
    for k in range(1, 10):
        for j in range(0, 7):
            out.append("../" * k + "/".join(DUMMY[6 - j:]) + ("/x" if j else "x"))
            out.append("../" * k + "/".join(DUMMY[6 - j:]))
    for k in range(1, 8):
        out.append("a/" * k + "../" * k)
        out.append("a/" * k + "../" * (k + 1))
        out.append("a/" * k + "../" * (k + 1) + LAST)
        out.append("../" * k)
        out.append("./" * k + "..")
    out += ["c:", "c:/", "c:/x", "c:x", "C:\\x", "c:/d:/x", "c://d:", "/c:/x", "//c:/x", "/c:/d:/x", "c:c:", "1:/x", "é:/x",
            ":/x", "c", "c/:", "/", "//", "///", "////a", "///a//b", ".", "./", "./.", "..", "../", "...", "....", ".../..",
            ". ", " .", " ..", ".. ", "..\\..\\x", "\\..\\x", "a\\..\\..\\x", "\\", "\\\\srv\\share", "a\x00b", "\x00",
            "\x00/..", "../\x00", "a\nb/..", "~", "~/x", "~root/x", "$HOME/x", "-", "--", "*", "?", "a" * 300,
            "/".join(["d"] * 60), "/".join(["d"] * 60) + "/.." * 60, "/".join(["d"] * 60) + "/.." * 61]
    return sorted(set(out))


POOLS = [(0x20, 0x7E), (0x01, 0x1F), (0xA0, 0x2FFF), (0x3000, 0xD7FF), (0xE000, 0xFFFD), (0x10000, 0x10FFFF),
         (0xD800, 0xDFFF), (0xFF0E, 0xFF0F), (0x2024, 0x2026), (0x2215, 0x2216)]


def rand_component(rng):
    r = rng.random()
    if r < 0.22:
        return ".."
    if r < 0.30:
        return "."
    if r < 0.36:
        return ""
    if r < 0.42:
        return rng.choice(DUMMY)
    if r < 0.47:
        return rng.choice("cCzZ") + ":" + rng.choice(["", "x"])
    n = rng.choice([1, 1, 2, 3, 5, 12])
    out = []
    for _ in range(n):
        lo, hi = rng.choice(POOLS)
        c = rng.randrange(lo, hi + 1)
        if c == 0x2F:
            continue
        out.append(chr(c))
    return "".join(out)


def random_names(rng, count):
    out = set()
    while len(out) < count:
        k = rng.choice([1, 2, 2, 3, 3, 4, 5, 6, 8])
        out.add(rng.choice(["", "", "", "/", "//", "///"]) + "/".join(rand_component(rng) for _ in range(k))
                + rng.choice(["", "", "/"]))
    return sorted(out)


def cps(s):
    return [ord(c) for c in s]


def from_cps(l):
    return "".join(chr(c) for c in l)


def encodable(name):
    """names that can be stored at all: no NUL (terminator of the stored UTF-16 string), no lone surrogates"""
    if "\x00" in name:
        return False
    try:
        name.encode("utf-16-le")
    except UnicodeEncodeError:
        return False
    return True


# ------------------------------------------------------------------ the implementation, wrapped
def real_sanitize(name):
    try:
        return [0, py7zr.SevenZipFile._sanitize_archive_arcname(None, name)]
    except AbsolutePathError:
        return [1, None]


def listed(stored):
    """the name py7zr's reader lists for a stored name (archiveinfo.FilesInfo._read_name); tied to the
    implementation by check_archive_batch, which compares it with getnames() of the reopened archive"""
    return stored.replace("\\", "/")


def real_row(name):
    p = pathlib.PurePosixPath(name)
    return {"parts": list(p.parts), "abs": p.is_absolute(), "check": H.check_archive_path(name),
            "sanitize": real_sanitize(name), "make_name": pathlib.Path(name).as_posix(),
            "listed": listed(pathlib.Path(name).as_posix())}


def model_rows(model, names):
    rows = model.call("name_rows", [cps(n) for n in names])
    out = []
    for r in rows:
        san = [r[4][0], from_cps(r[4][1]) if r[4][0] == 0 else None]
        out.append({"parts": [from_cps(x) for x in r[0]], "abs": r[1] == 1, "check": r[2] == 1, "spec": r[3] == 1,
                    "sanitize": san, "make_name": from_cps(r[5]), "listed": from_cps(r[6])})
    return out


def classify(name, accepted, inside):
    """match keys of a verdict that differs from the independent definition"""
    if accepted and not inside:
        if name[:1] == "/":
            return {"kind": "check_archive_path", "via": "accepts-absolute"}
        return {"kind": "check_archive_path", "via": "accepts-climbing"}
    return {"kind": "check_archive_path", "via": "rejects-inside"}


# ------------------------------------------------------------------ writestr / writef on a scratch archive
def _state(z, buf):
    fi = z.header.files_info
    return (len(z.files), len(fi.files) if fi is not None else 0, len(fi.emptyfiles) if fi is not None else 0,
            buf.getbuffer().nbytes)


def run_archive_batch(names, first=0):
    """writestr/writef every name into one in-memory archive (alternating the two calls);
    returns (events, stored names after close+reopen)"""
    buf = io.BytesIO()
    z = py7zr.SevenZipFile(buf, "w")
    events = []
    try:
        for i, n in enumerate(names):
            before = _state(z, buf)
            api = "writestr" if (i + first) % 2 == 0 else "writef"
            try:
                if api == "writestr":
                    z.writestr(b"data-%d" % i, n)
                else:
                    z.writef(io.BytesIO(b"data-%d" % i), n)
                out = "ok"
            except ValueError:
                out = "ValueError"
            except Exception as e:  # noqa
                out = "exc:" + type(e).__name__
            after = _state(z, buf)
            events.append({"api": api, "out": out, "unchanged": before == after, "grew": after[0] - before[0]})
    finally:
        z.close()
    buf.seek(0)
    with py7zr.SevenZipFile(buf, "r") as r:
        stored = r.getnames()
    return events, stored


def check_archive_batch(names, first=0, attribute=True):
    """property on one batch; returns a list of (what, replay, match_keys); attribute=True: when the batch as a
    whole fails, every name is run again in an archive of its own to find the one responsible"""
    bad = []
    try:
        events, stored = run_archive_batch(names, first)
    except Exception as e:  # noqa
        if len(names) > 1 and attribute:
            for i, n in enumerate(names):
                bad += check_archive_batch([n], first + i)
            return bad
        return [("writestr/writef of %r then close/reopen raised %s: %s" % (names[:3], type(e).__name__, e),
                 {"kind": "archive", "names": [cps(n) for n in names], "first": first}, {"kind": "archive", "via": "exception"})]
    expect = []
    for n, ev in zip(names, events):
        inside = spec_ok(n)
        rp = {"kind": "archive", "names": [cps(n)], "first": 0 if ev["api"] == "writestr" else 1}
        if ev["out"] == "ok":
            stored_name = pathlib.PurePosixPath(n).as_posix()
            expect.append(listed(stored_name))
            if inside and listed(stored_name) != stored_name and not spec_ok(listed(stored_name)):
                bad.append(("%s accepts %r (one POSIX component, stays inside) but py7zr lists the member as %r, which %s: "
                            "the reader turns backslashes into '/', the write-side check does not" % (
                                ev["api"], n, listed(stored_name), "is absolute" if listed(stored_name)[:1] == "/" else
                                "climbs above the archive root"), rp,
                            {"kind": "archive", "via": "backslash-separator", "call": ev["api"]}))
            if not inside:
                mk = classify(n, True, False)
                mk["call"] = ev["api"]
                bad.append(("%s accepts the name %r, which %s" % (ev["api"], n, "is absolute" if n[:1] == "/" else
                            "climbs above the archive root"), rp, mk))
            if ev["grew"] != 1:
                bad.append(("%s(%r) returned normally but registered %d members" % (ev["api"], n, ev["grew"]), rp,
                            {"kind": "archive", "via": "accepted-not-stored"}))
        elif ev["out"] == "ValueError":
            if inside:
                mk = classify(n, False, True)
                mk["call"] = ev["api"]
                bad.append(("%s rejects the name %r, which stays inside the archive root" % (ev["api"], n), rp, mk))
            if not ev["unchanged"]:
                bad.append(("%s(%r) raised ValueError but changed the archive state" % (ev["api"], n), rp,
                            {"kind": "archive", "via": "rejected-changed"}))
        else:
            bad.append(("%s(%r) raised %s instead of ValueError/accepting" % (ev["api"], n, ev["out"][4:]), rp,
                        {"kind": "archive", "via": "exception"}))
            if not ev["unchanged"]:
                bad.append(("%s(%r) raised %s and changed the archive state" % (ev["api"], n, ev["out"][4:]), rp,
                            {"kind": "archive", "via": "rejected-changed"}))
    if stored != expect:
        if len(names) > 1 and attribute:
            sub = []
            for i, n in enumerate(names):
                sub += [b for b in check_archive_batch([n], first + i) if b[2].get("via") == "stored-names"]
            if sub:
                bad += sub
            else:
                bad.append(("after close/reopen the archive lists %r, expected %r" % (stored[:8], expect[:8]),
                            {"kind": "archive", "names": [cps(n) for n in names], "first": first},
                            {"kind": "archive", "via": "stored-names"}))
        else:
            bad.append(("after %s(%r) and close/reopen the archive lists %r, expected %r" % (
                events[0]["api"], names[0], stored, expect), {"kind": "archive", "names": [cps(names[0])], "first": first},
                {"kind": "archive", "via": "stored-names"}))
    from_backslash = set(listed(pathlib.PurePosixPath(n).as_posix()) for n in names if "\\" in n)
    for s in stored:
        if s[:1] == "/" and s not in from_backslash:
            bad.append(("the archive holds the absolute member name %r" % s,
                        {"kind": "archive", "names": [cps(n) for n in names], "first": first},
                        {"kind": "archive", "via": "absolute-stored"}))
            break
    return bad


# ------------------------------------------------------------------ one chunk of names (runs in a worker)
_WORKER_MODEL = None


def _chunk(args):
    names, do_archive, own_model = args
    global _WORKER_MODEL
    model = None
    if own_model:
        if _WORKER_MODEL is None:
            import vlib
            _WORKER_MODEL = vlib.Model()
        model = _WORKER_MODEL
    return process_chunk(names, do_archive, model)


def process_chunk(names, do_archive, model):
    """returns dict(n, nontrivial keys, corr violations, prop violations, dists)"""
    res = {"n": 0, "corr": [], "prop": [], "dist": {}, "archive_names": 0, "model_calls": 0}

    def dist(t, k):
        d = res["dist"].setdefault(t, {})
        d[str(k)] = d.get(str(k), 0) + 1

    for off in range(0, len(names), 256):
        blk = names[off:off + 256]
        mrows = model_rows(model, blk) if model is not None else [None] * len(blk)
        if model is not None:
            res["model_calls"] += 1
        for n, m in zip(blk, mrows):
            res["n"] += 1
            try:
                r = real_row(n)
            except Exception as e:  # noqa
                res["prop"].append(("check_archive_path/pathlib raised %s on %r: %s" % (type(e).__name__, n, e),
                                    {"kind": "name", "name": cps(n)}, {"kind": "check_archive_path", "via": "exception"}))
                continue
            inside = spec_ok(n)
            dist("verdict", ("inside" if inside else "outside") + "/" + ("accepted" if r["check"] else "rejected"))
            dist("components", min(len(n.split("/")), 9))
            if m is not None:
                for k in ("parts", "abs", "check", "sanitize", "make_name", "listed"):
                    if m[k] != r[k]:
                        res["corr"].append(("model and implementation disagree on %s(%r): model %r, implementation %r" % (
                            k, n, m[k], r[k]), {"kind": "corr", "fn": k, "name": cps(n)}, {"kind": "corr", "fn": k}))
                if m["spec"] != inside:
                    res["corr"].append(("Path.spec_ok and the harness's spec_ok disagree on %r: %r vs %r" % (
                        n, m["spec"], inside), {"kind": "corr", "fn": "spec", "name": cps(n)}, {"kind": "corr", "fn": "spec"}))
            if r["check"] != inside:
                mk = classify(n, r["check"], inside)
                res["prop"].append(("check_archive_path(%r) = %r but the name %s" % (
                    n, r["check"], "stays inside the archive root" if inside else
                    ("is absolute" if n[:1] == "/" else "climbs above the archive root")),
                    {"kind": "name", "name": cps(n)}, mk))
            # sanitize: whatever it returns is relative and has no drive prefix
            s = r["sanitize"]
            if s[0] == 0 and (s[1][:1] == "/" or (len(s[1]) >= 2 and s[1][0].isascii() and s[1][0].isalpha() and s[1][1] == ":")):
                res["prop"].append(("_sanitize_archive_arcname(%r) returns %r (absolute or drive-prefixed)" % (n, s[1]),
                                    {"kind": "sanitize", "name": cps(n)}, {"kind": "sanitize", "via": "absolute-result"}))
            if s[0] == 0 and pathlib.PurePosixPath(s[1]).as_posix()[:1] == "/":
                res["prop"].append(("write() would store %r for %r" % (pathlib.PurePosixPath(s[1]).as_posix(), n),
                                    {"kind": "sanitize", "name": cps(n)}, {"kind": "sanitize", "via": "absolute-stored"}))
    if do_archive:
        enc = [n for n in names if encodable(n)]
        splits = 0
        for off in range(0, len(enc), 64):
            blk = enc[off:off + 64]
            res["archive_names"] += len(blk)
            got = check_archive_batch(blk, off // 64, attribute=splits < 2)
            if any(b[2].get("kind") == "archive" and b[2].get("via") in ("stored-names", "exception") for b in got):
                splits += 1
            res["prop"] += got
    # keep the result small: at most a few per class
    for key in ("corr", "prop"):
        seen, kept = {}, []
        for v in res[key]:
            k = tuple(sorted(v[2].items()))
            seen[k] = seen.get(k, 0) + 1
            if seen[k] <= 3:
                kept.append(v)
        res[key + "_classes"] = {repr(k): c for k, c in seen.items()}
        res[key] = kept
    return res


# ------------------------------------------------------------------ other model functions
def check_path_functions(ctx, rep, rng, tier):
    """canonical_path / is_relative_to / is_path_valid / joinpath / str on multi-segment and absolute paths"""
    model = ctx["model"]
    if model is None:
        return
    segs = ["", ".", "..", "a", "a/b", "a/", "/", "//", "///", "/a", "//a", "/a/..", "../a", "a/../..", "/..", "//..",
            "b/./c", "/foo/boo", "./", "..//..", "c:", "/a//b/"]
    raws = [[s] for s in segs] + [[s, t] for s in segs for t in segs]
    if tier != "quick":
        raws += [[s, t, u] for s in segs for t in segs[:12] for u in segs[:12]]
    cwd = os.getcwd()
    n = 0
    for rw in raws:
        p = pathlib.PurePosixPath(*rw)
        n += 1
        rep.count(("pathfn", tuple(rw)), nontrivial=True)
        got = {"parts": [from_cps(x) for x in model.call("pp_parts", [cps(s) for s in rw])],
               "abs": model.call("is_absolute", [cps(s) for s in rw]) == 1,
               "str": from_cps(model.call("pp_str", [cps(s) for s in rw])),
               "join": from_cps(model.call("posix_join", [cps(rw[0]), [cps(s) for s in rw[1:]]]))}
        cstack = model.call("canonical_path", [cps(s) for s in rw])
        got["canon"] = [from_cps(x) for x in model.call("pp_parts", cstack)]
        want = {"parts": list(p.parts), "abs": p.is_absolute(), "str": str(p), "join": os.path.join(*rw),
                "canon": list(H.canonical_path(p).parts)}
        for k in want:
            if got[k] != want[k]:
                rep.violation("model and implementation disagree on %s of Path%r: model %r, implementation %r" % (
                    k, tuple(rw), got[k], want[k]), {"kind": "corr", "fn": k, "raws": [cps(s) for s in rw]},
                    concrete=False, match_keys={"kind": "corr", "fn": k})
                return
    pairs = [(a, b) for a in raws[:len(segs) + 120] for b in [[s] for s in segs] + raws[len(segs):len(segs) + 40:3]]
    if tier == "quick":
        pairs = pairs[::3]
    for a, b in pairs:
        pa, pb = pathlib.PurePosixPath(*a), pathlib.PurePosixPath(*b)
        n += 1
        rep.count(("relfn", tuple(a), tuple(b)), nontrivial=True)
        ea, eb = [cps(s) for s in a], [cps(s) for s in b]
        got = (model.call("pp_is_relative_to", [ea, eb]) == 1, model.call("h_is_relative_to", [ea, eb]) == 1,
               model.call("is_path_valid", [cps(cwd), ea, eb]) == 1)
        want = (pa.is_relative_to(pb), H.is_relative_to(pa, pb), H.is_path_valid(pa, pb))
        if got != want:
            rep.violation("model and implementation disagree on (is_relative_to, helpers.is_relative_to, is_path_valid)"
                          " of Path%r against Path%r: model %r, implementation %r" % (tuple(a), tuple(b), got, want),
                          {"kind": "corr", "fn": "relative", "a": ea, "b": eb}, concrete=False,
                          match_keys={"kind": "corr", "fn": "relative"})
            return
    rep.extra["path_function_cases"] = n


# ------------------------------------------------------------------ write / writeall over a scratch tree
def model_write_name(model, file):
    """name the model predicts write(file) stores (file: str or PurePath); None = AbsolutePathError"""
    if isinstance(file, pathlib.PurePath):
        s = str(file)
    else:
        s = file
    if model is not None:
        r = model.call("sanitize_archive_arcname", cps(s))
        if r[0] != 0:
            return None
        return from_cps(model.call("make_name", r[1]))
    # without a model: the definition restated
    t = s.lstrip("/")
    if len(t) >= 2 and t[0].isascii() and t[0].isalpha() and t[1] == ":":
        t = t[2:].lstrip("/")
    if t[:1] == "/" or (len(t) >= 2 and t[0].isascii() and t[0].isalpha() and t[1] == ":"):
        return None
    return pathlib.PurePosixPath(t).as_posix()


def expected_writeall(model, path):
    """names _writeall(path, None) stores, in order (None entries = AbsolutePathError at that point)"""
    out = []

    def go(p):
        if p.is_symlink() or p.is_file():
            out.append(model_write_name(model, p))
        elif p.is_dir():
            if str(p) != ".":   # arcname is None here; only the bare '.' has no name of its own (as repaired: 703ba71)
                out.append(model_write_name(model, p))
            for nm in sorted(os.listdir(str(p))):
                if out and out[-1] is None:
                    return
                go(p.joinpath(nm))
    go(path)
    if None in out:
        out = out[:out.index(None) + 1]
    return out


def build_tree(root, hostile):
    def mk(rel, data=b"x"):
        p = os.path.join(root, rel)
        os.makedirs(os.path.dirname(p), exist_ok=True)
        with open(p, "wb") as f:
            f.write(data)
    mk("a.txt")
    mk("b/c.txt", b"cc")
    mk("b/d/e.txt", b"eee")
    mk("b/..a/f", b"f")
    mk("\u00fc/\u6f22\u5b57.txt", b"u")
    mk("x y/ z", b"z")
    mk("c:/x.txt", b"drive")
    mk("b/c:x", b"drive2")
    os.makedirs(os.path.join(root, "emptydir"))
    os.symlink("a.txt", os.path.join(root, "link"))
    if hostile == "drive":
        mk("c:/d:/y.txt", b"dd")
    if hostile == "backslash":
        mk("\\evil", b"e")
        mk("..\\up/f", b"u")
        mk("b/..\\..\\g", b"g")


def run_write_case(model, rep, cwd, calls, label):
    """calls: list of ('write'|'writeall', arg) executed with cwd; compare the stored names with the model's prediction"""
    old = os.getcwd()
    os.chdir(cwd)
    buf = io.BytesIO()
    expect, outcomes = [], []
    try:
        z = py7zr.SevenZipFile(buf, "w")
        try:
            for op, arg in calls:
                if op == "write":
                    e = [model_write_name(model, arg)]
                else:
                    e = expected_writeall(model, pathlib.Path(arg) if isinstance(arg, str) else arg)
                before = len(z.files)
                try:
                    getattr(z, op)(arg)
                    outcomes.append("ok")
                except AbsolutePathError:
                    outcomes.append("AbsolutePathError")
                except Exception as ex:  # noqa
                    outcomes.append("exc:%s:%s" % (type(ex).__name__, ex))
                want_err = bool(e) and e[-1] is None
                expect += [x for x in e if x is not None]
                got_err = outcomes[-1] != "ok"
                if want_err != got_err or outcomes[-1].startswith("exc:"):
                    return ("%s(%r) with cwd %s: %s, the model predicts %s" % (
                        op, arg, label, outcomes[-1], "AbsolutePathError" if want_err else "acceptance"),
                        {"kind": "write", "via": "outcome"})
                if len(z.files) - before != len([x for x in e if x is not None]):
                    return ("%s(%r) with cwd %s registered %d members, the model predicts %d" % (
                        op, arg, label, len(z.files) - before, len([x for x in e if x is not None])),
                        {"kind": "write", "via": "count"})
        finally:
            z.close()
        buf.seek(0)
        with py7zr.SevenZipFile(buf, "r") as r:
            stored = r.getnames()
    finally:
        os.chdir(old)
    from_backslash = set(listed(x) for x in expect if "\\" in x)
    for s in stored:
        if s[:1] == "/" and s not in from_backslash:
            return ("%s with cwd %s: the archive holds the absolute member name %r" % (calls, label, s),
                    {"kind": "write", "via": "absolute-stored"})
    expect_stored = expect
    expect = [listed(x) for x in expect_stored]
    if stored != expect:
        diff = [(a, b) for a, b in zip(stored, expect) if a != b][:3]
        return ("%s with cwd %s: stored names %r differ from the model's prediction %r (first differences %r)" % (
            [c[0] for c in calls][:4], label, stored[:6], expect[:6], diff), {"kind": "write", "via": "stored-names"})
    for st, li in zip(expect_stored, stored):
        if st != li and not spec_ok(li) and spec_ok(st):
            return ("%s with cwd %s stores %r (one POSIX component per backslash run, stays inside) but py7zr lists the "
                    "member as %r, which %s" % ([c[0] for c in calls][:4], label, st, li,
                                                "is absolute" if li[:1] == "/" else "climbs above the archive root"),
                    {"kind": "write", "via": "backslash-separator"})
    for s in stored:
        if len(s) >= 2 and s[0].isascii() and s[0].isalpha() and s[1] == ":":
            rep.extra.setdefault("observations", {}).setdefault("drive_like_names_stored", [])
            if s not in rep.extra["observations"]["drive_like_names_stored"]:
                rep.extra["observations"]["drive_like_names_stored"].append(s)
    return None


def write_cases(root):
    """(cwd, label, calls) over the scratch tree; every entry once as absolute/relative str/Path"""
    entries = []
    for d, dirs, files in os.walk(root):
        for nm in sorted(dirs + files):
            entries.append(os.path.relpath(os.path.join(d, nm), root))
    entries.sort()
    cases = []
    forms = [("abs-str", lambda rel: os.path.join(root, rel)),
             ("abs-path", lambda rel: pathlib.Path(root, rel)),
             ("abs-2slash", lambda rel: "/" + os.path.join(root, rel)),
             ("abs-3slash", lambda rel: "//" + os.path.join(root, rel)),
             ("abs-dots", lambda rel: os.path.join(root, "b", "..", ".", rel)),
             ("abs-trailing", lambda rel: os.path.join(root, rel) + "/."),
             ("rel-str", lambda rel: rel),
             ("rel-path", lambda rel: pathlib.Path(rel)),
             ("rel-dot", lambda rel: "./" + rel),
             ("rel-dots", lambda rel: "b/../" + rel)]
    for fname, form in forms:
        cases.append((root, "root/" + fname, [("write", form(rel)) for rel in entries]))
        for rel in entries:
            cases.append((root, "root/" + fname, [("write", form(rel))]))
    sub = os.path.join(root, "b")
    cases.append((sub, "root/b", [("write", "../a.txt"), ("write", pathlib.Path("../a.txt")), ("write", "d/../../b/c.txt"),
                                  ("write", "c.txt")]))
    for arg in (root, pathlib.Path(root), "/" + root, root + "/", os.path.join(root, "b"), os.path.join(root, "b", "..", "b")):
        cases.append((root, "root/writeall-abs", [("writeall", arg)]))
        cases.append(("/", "/", [("writeall", arg)]))
    for arg in (".", pathlib.Path("."), "b", "./b", pathlib.Path("b"), "b/../b", "a.txt", "c:", "./c:", "emptydir", "link"):
        cases.append((root, "root/writeall-rel", [("writeall", arg)]))
    for arg in ("..", "../b", "../a.txt", "."):
        cases.append((sub, "root/b/writeall-rel", [("writeall", arg)]))
    return cases


def check_write(ctx, rep, rng, tier):
    model = ctx["model"]
    tmp = tempfile.mkdtemp(prefix="c16-")
    try:
        tmp = os.path.realpath(tmp)
        seen_via = {}
        rep.extra["write_violation_classes"] = seen_via
        for hostile in ("", "drive", "backslash"):
            root = os.path.join(tmp, hostile or "plain")
            os.makedirs(root)
            build_tree(root, hostile)
            for cwd, label, calls in write_cases(root):
                key = ("write", hostile, label, tuple((c[0], str(c[1]), type(c[1]).__name__) for c in calls))
                rep.count(key, nontrivial=True)
                rep.dist("write_form", label)
                try:
                    bad = run_write_case(model, rep, cwd, calls, label.replace("root", "<tree>"))
                except Exception as e:  # noqa
                    bad = ("write/writeall case raised %s: %s" % (type(e).__name__, e), {"kind": "write", "via": "exception"})
                if bad and bad[1].get("via") in seen_via:
                    seen_via[bad[1].get("via")] += 1
                    continue
                if bad:
                    seen_via[bad[1].get("via")] = 1
                    rel_calls = [[c[0], "path" if isinstance(c[1], pathlib.PurePath) else "str",
                                  os.path.relpath(str(c[1]), root) if str(c[1]).lstrip("/").startswith(root.lstrip("/"))
                                  and os.path.isabs(str(c[1])) else str(c[1]), str(c[1])] for c in calls]
                    rep.violation(bad[0], {"kind": "write", "hostile": hostile, "cwd": os.path.relpath(cwd, root)
                                           if cwd.startswith(root) else cwd, "calls": rel_calls, "root": root},
                                  match_keys=bad[1])
                    if len(rep.violations) > 6:
                        return
    finally:
        shutil.rmtree(tmp, ignore_errors=True)


# ------------------------------------------------------------------ translation validation
def check_translation(ctx, rep, rng, tier):
    """the Gallina functions generated from the current py7zr/helpers.py (coq/gen/HelpersPath.v, extracted) against the
    Python functions they were generated from, on the name sets of this check; and the primitives they are built from
    against CPython (harness/prims.py)"""
    import vlib
    from harness import prims
    model = ctx["model"]
    if model is None or "gen_helpers_rows" not in vlib.fn_table():
        return
    prims.check_prims(ctx, rep)
    if model.call("gen_check_archive_path", cps("a")) != [0, 1]:
        return   # not the executable that contains the generated functions (its build failure is reported by verif.py)
    quick = tier == "quick"
    names = sorted(set(alpha_names(4 if quick else 5) + dummy_names(3 if quick else 4) + directed_names()
                       + random_names(rng, 3000 if quick else 30000)
                       + ["./", "./.", ".//a", "./a/", "a/./", "/./a", ".", "./" * 3 + "a", "a//", "a/ ", "\\/"]))

    def py(f, n):
        try:
            return [0, f(n)]
        except Exception as e:  # noqa
            return [1, type(e).__name__]

    cnt = 0
    for off in range(0, len(names), 256):
        blk = names[off:off + 256]
        rows = model.call("gen_helpers_rows", [cps(n) for n in blk])
        for n, r in zip(blk, rows):
            got = {"check_archive_path": [r[0][0], r[0][1] == 1 if r[0][0] == 0 else None],
                   "remove_trailing_slash": [r[1][0], from_cps(r[1][1]) if r[1][0] == 0 else None],
                   "remove_relative_path_marker": [r[2][0], from_cps(r[2][1]) if r[2][0] == 0 else None]}
            for fn in got:
                want = py(getattr(H, fn), n)
                cnt += 1
                if got[fn][0] != want[0] or (want[0] == 0 and got[fn][1] != want[1]):
                    rep.violation("the function translated from helpers.%s disagrees with the Python on %r: generated %r, "
                                  "Python %r" % (fn, n, got[fn], want), {"kind": "translation", "fn": fn, "name": cps(n)},
                                  concrete=False, match_keys={"kind": "translation", "fn": fn})
                    return
    if "gen_sanitize_rows" in vlib.fn_table():
        for off in range(0, len(names), 256):
            blk = names[off:off + 256]
            rows = model.call("gen_sanitize_rows", [cps(n) for n in blk])
            for n, r in zip(blk, rows):
                want = real_sanitize(n)
                got = [r[0], from_cps(r[1]) if r[0] == 0 else None]
                cnt += 1
                if got != want:
                    rep.violation("the function translated from SevenZipFile._sanitize_archive_arcname disagrees with the Python on "
                                  "%r: generated %r, Python %r" % (n, got, want),
                                  {"kind": "translation", "fn": "_sanitize_archive_arcname", "name": cps(n)},
                                  concrete=False, match_keys={"kind": "translation", "fn": "_sanitize_archive_arcname"})
                    return
    segs = ["", ".", "..", "a", "a/b", "a/", "/", "//", "///", "/a", "//a", "/a/..", "../a", "a/../..", "/..", "//..",
            "b/./c", "/foo/boo", "./", "..//..", "c:", "/a//b/", "../../a/..", "a/b/../../../c"]
    raws = [[]] + [[s] for s in segs] + [[s, t] for s in segs for t in segs]
    if not quick:
        raws += [[s, t, u] for s in segs for t in segs[:14] for u in segs[:14]]
    for rw in raws:
        p = pathlib.PurePosixPath(*rw)
        g = model.call("gen_canonical_path", [cps(x) for x in rw])
        want = py(H.canonical_path, p)
        cnt += 1
        ok = g[0] == want[0]
        if ok and g[0] == 0:
            gparts = [from_cps(x) for x in model.call("pp_parts", g[1])]
            gstr = from_cps(model.call("pp_str", g[1]))
            ok = gparts == list(want[1].parts) and gstr == str(want[1])
        if not ok:
            rep.violation("the function translated from helpers.canonical_path disagrees with the Python on Path%r: generated "
                          "%r, Python %r" % (tuple(rw), g, want), {"kind": "translation", "fn": "canonical_path",
                                                                  "raws": [cps(x) for x in rw]},
                          concrete=False, match_keys={"kind": "translation", "fn": "canonical_path"})
            return
    rep.extra["translation_validation_cases"] = cnt
    rep.count(("translation", cnt), nontrivial=True, n=cnt)


# ------------------------------------------------------------------ run
def check_names(ctx, rep, rng, tier):
    model = ctx["model"]
    quick = tier == "quick"
    sets = [("alphabet", alpha_names(4 if quick else 6), True),
            ("dummy", dummy_names(4 if quick else 6), True),
            ("directed", directed_names(), True),
            ("unicode", random_names(rng, 4000 if quick else 60000), True)]
    if not quick:
        # the seven-component names that re-enter the dummy directory from the root
        sets.append(("dummy7", sorted(set("/".join(["..", ".."] + list(t)) for t in itertools.product(DUMMY_ALPHA, repeat=5))), False))
    rep.extra["name_sets"] = {k: len(v) for k, v, _ in sets}
    jobs = []
    for label, names, arch in sets:
        step = 2048 if quick else 4096
        for off in range(0, len(names), step):
            jobs.append((label, names[off:off + step], arch))
    results = []
    if quick or model is None:
        for label, names, arch in jobs:
            results.append((label, process_chunk(names, arch, model)))
    else:
        ctxmp = multiprocessing.get_context("fork")
        with ctxmp.Pool(min(16, os.cpu_count() or 4)) as pool:
            outs = pool.map(_chunk, [(names, arch, True) for _, names, arch in jobs], chunksize=1)
        results = [(jobs[i][0], o) for i, o in enumerate(outs)]
    for label, names, arch in jobs:
        for n in names:
            rep.count(("name", n), nontrivial=len(n) > 0)
    rep.sample({"name": "a/../b", "check_archive_path": H.check_archive_path("a/../b"), "spec_ok": spec_ok("a/../b")})
    rep.sample({"name": "../" + LAST + "/x", "check_archive_path": H.check_archive_path("../" + LAST + "/x"),
                "spec_ok": spec_ok("../" + LAST + "/x")})
    tot_arch, classes = 0, {}
    emitted = {}
    for label, r in results:
        tot_arch += r["archive_names"]
        for t, d in r["dist"].items():
            for k, c in d.items():
                dd = rep.extra.setdefault("distribution", {}).setdefault(t, {})
                dd[k] = dd.get(k, 0) + c
        for key in ("corr", "prop"):
            for k, c in r[key + "_classes"].items():
                classes[key + ":" + k] = classes.get(key + ":" + k, 0) + c
            for what, rp, mk in r[key]:
                k = (key, rp.get("kind"), mk.get("via"), mk.get("fn"))
                emitted[k] = emitted.get(k, 0) + 1
                if emitted[k] <= 1:
                    rep.violation(what, rp, concrete=(key == "prop"), match_keys=mk)
    rep.extra["names_through_writestr_writef"] = tot_arch
    rep.extra["disagreement_classes"] = classes


def run(ctx):
    rep, tier = ctx["rep"], ctx["tier"]
    rng = random.Random(ctx["seed"])
    rep.cov["rule"] = ("exhaustive: every name prefix+'/'.join(components)+suffix over {a,b,..,.,'',c:} x {'','/','//'} x "
                       "{'','/'} up to 4 (quick) / 6 (thorough) components; every name over {x,..,.}+the six dummy "
                       "components up to 4 / 6 (+ '../../'+5) components; directed names; seeded random Unicode names "
                       "(BMP, astral, controls, NUL, lone surrogates, look-alike dots/slashes); each name: model vs "
                       "implementation, implementation vs independent spec_ok, and writestr/writef on an in-memory archive; "
                       "write/writeall: every entry of a scratch tree as absolute/relative str/Path. distinct by name / call "
                       "list; non-trivial = non-empty name")
    for part in (check_translation, check_path_functions, check_names, check_write):
        try:
            part(ctx, rep, rng, tier)
        except Exception as e:  # noqa
            rep.violation("%s raised %s: %s" % (part.__name__, type(e).__name__, e),
                          {"kind": "exception", "part": part.__name__, "trace": traceback.format_exc()[-1500:]},
                          concrete=False, match_keys={"kind": "exception", "part": part.__name__})


# ------------------------------------------------------------------ replay
def replay(d):
    r = d["replay"]
    kind = r.get("kind")
    if kind == "name":
        n = from_cps(r["name"])
        got, want = H.check_archive_path(n), spec_ok(n)
        print("check_archive_path(%r) = %r ; stays inside the root: %r" % (n, got, want))
        return 0 if got == want else 1
    if kind == "archive":
        names = [from_cps(x) for x in r["names"]]
        bad = check_archive_batch(names, r.get("first", 0))
        for b in bad:
            print(b[0])
        return 1 if bad else 0
    if kind == "sanitize":
        n = from_cps(r["name"])
        s = real_sanitize(n)
        print("_sanitize_archive_arcname(%r) -> %r" % (n, s))
        ok = s[0] != 0 or not (s[1][:1] == "/" or pathlib.PurePosixPath(s[1]).as_posix()[:1] == "/")
        return 0 if ok else 1
    if kind == "write":
        tmp = tempfile.mkdtemp(prefix="c16-replay-")
        try:
            root = os.path.join(os.path.realpath(tmp), r["hostile"] or "plain")
            os.makedirs(root)
            build_tree(root, r["hostile"])
            calls = []
            for op, typ, rel, raw in r["calls"]:
                arg = raw.replace(r["root"], root)
                calls.append((op, pathlib.Path(arg) if typ == "path" else arg))
            cwd = r["cwd"] if os.path.isabs(r["cwd"]) else os.path.normpath(os.path.join(root, r["cwd"]))

            class _R:
                extra = {}
            bad = run_write_case(None, _R, cwd, calls, r["cwd"])
            print(bad[0] if bad else "stored names are relative and as predicted")
            return 1 if bad else 0
        finally:
            shutil.rmtree(tmp, ignore_errors=True)
    if kind == "corr":
        print("model/implementation disagreement on %s; re-run the check to compare (needs the extracted model)" % r.get("fn"))
        import vlib
        m = vlib.Model()
        try:
            if "name" in r:
                n = from_cps(r["name"])
                mr, rr = model_rows(m, [n])[0], real_row(n)
                print("model", mr)
                print("impl ", rr, "spec_ok", spec_ok(n))
                return 0 if all(mr[k] == rr[k] for k in rr) and mr["spec"] == spec_ok(n) else 1
        finally:
            m.close()
        return 2
    print(r)
    return 2
