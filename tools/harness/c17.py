"""C17 -- header values survive storage across their whole legal range."""
import io
import random

import py7zr.archiveinfo as ai
from py7zr.helpers import ArchiveTimestamp

GEN_DEPS = ["write_uint64", "read_uint64", "write_boolean", "read_boolean", "bits_to_bytes",
            "write_uint32", "read_uint32", "write_real_uint64", "read_real_uint64"]
LEVEL = "proof"
TRUSTED_BASE = [
    "Coq 8.16.1 kernel, vm_compute (no native_compute); no axioms (Print Assumptions: closed)",
    "tools/translate.py + theories/PyPrims.v (semantics of the Python primitives; differential-tested here)",
    "theories/Number.v spec_number as transcription of the NUMBER table of docs/archive_format.rst",
    "extraction (ExtrOcamlBasic only) + ocaml/driver.ml for running the model",
    "CPython 3.12 struct/int semantics",
]
ASSUMPTIONS = [
    "theorems are about coq/gen/ArchiveinfoPrims.v, regenerated from py7zr/archiveinfo.py on this run",
    "UTF-16 names, time/attribute vectors and whole-header round trips are covered by correspondence and exploration, "
    "their theorems by the hand model Header.v",
]


def w(fn, *a):
    b = io.BytesIO()
    fn(b, *a)
    return b.getvalue()


def number_values(rng, tier):
    vals = set()
    for k in range(0, 65):
        for d in (-2, -1, 0, 1, 2):
            v = (1 << k) + d
            if 0 <= v < (1 << 64):
                vals.add(v)
    # (byte-length, leading-byte) classes with low-byte patterns
    for n in range(0, 9):
        lo = 0 if n == 0 else 1 << (7 * n)
        hi = min((1 << (7 * n + 7)), 1 << 64) if n < 8 else 1 << 64
        if n == 8:
            lo = 1 << 56
        for _ in range(40 if tier == "quick" else 400):
            vals.add(rng.randrange(lo, hi))
        for pat in (0x00, 0xFF, 0x55, 0xAA, 0x80, 0x7F, 0x01):
            v = int.from_bytes(bytes([pat]) * 8, "little")
            vals.add(max(lo, min(hi - 1, v % hi)))
            vals.add(lo + (v % (hi - lo)))
        for top in range(0, 256, 5):
            v = (top << (8 * max(n - 1, 0))) | rng.getrandbits(8 * max(n - 1, 0)) if n else top % 128
            if lo <= v < hi:
                vals.add(v)
    for _ in range(2000 if tier == "quick" else 50000):
        vals.add(rng.getrandbits(rng.choice([7, 8, 14, 15, 21, 28, 35, 42, 49, 56, 57, 63, 64])))
    return sorted(vals)


def check_number(ctx, rep, rng, tier):
    model = ctx["model"]
    tail = b"\x5a\xa5"
    for v in number_values(rng, tier):
        rep.count(("num", v), nontrivial=v >= 128)
        try:
            bs = w(ai.write_uint64, v)
            f = io.BytesIO(bs + tail)
            back = ai.read_uint64(f)
            rest = f.read()
        except Exception as e:  # noqa
            rep.violation("NUMBER: value %d: %s: %s" % (v, type(e).__name__, e), {"kind": "number", "value": v},
                          match_keys={"kind": "number"})
            if len(rep.violations) > 3:
                return
            continue
        rep.dist("number_encoded_length", len(bs))
        bad = None
        if back != v or rest != tail:
            bad = "read_uint64(write_uint64(v)) = %r, rest %r" % (back, rest)
        elif not (1 <= len(bs) <= 9):
            bad = "encoding has %d bytes" % len(bs)
        elif model is not None:
            sp = model.call("spec_number", list(bs + tail))
            if sp == [] or sp[0] != v or bytes(sp[1]) != tail:
                bad = "specification decoder reads %r from %s" % (sp, bs.hex())
            else:
                enc = bytes(model.call("number_enc", v))
                if enc != bs:
                    bad = "bytes differ from the model encoder: impl %s model %s" % (bs.hex(), enc.hex())
        if bad:
            rep.violation("NUMBER: value %d: %s" % (v, bad), {"kind": "number", "value": v, "bytes": bs.hex()},
                          match_keys={"kind": "number"})
            if len(rep.violations) > 3:
                return
    rep.sample({"number": 2 ** 56, "bytes": w(ai.write_uint64, 2 ** 56).hex()})
    # every specification-conforming encoding (non-minimal included) is read as the spec says
    if model is None:
        return
    for n in range(0, 9):
        first_lo = [0x00, 0x80, 0xC0, 0xE0, 0xF0, 0xF8, 0xFC, 0xFE, 0xFF][n]
        nx = max(0, 7 - n)
        xs = set([0, (1 << nx) - 1] + [rng.randrange(0, 1 << nx) for _ in range(6)]) if nx else {0}
        for x in xs:
            for _ in range(6 if tier == "quick" else 60):
                extra = bytes(rng.choice([0, 0xFF, rng.randrange(256)]) for _ in range(n))
                bs = bytes([first_lo | x]) + extra
                sp = model.call("spec_number", list(bs + tail))
                f = io.BytesIO(bs + tail)
                got = ai.read_uint64(f)
                rest = f.read()
                rep.count(("numdec", bs), nontrivial=n > 0)
                if sp == [] or got != sp[0] or rest != bytes(sp[1]):
                    rep.violation("NUMBER: conforming encoding %s read as %r, specification says %r" % (bs.hex(), got, sp),
                                  {"kind": "number-decode", "bytes": bs.hex()}, match_keys={"kind": "number-decode"})
                    return


def check_boolean(ctx, rep, rng, tier):
    model = ctx["model"]
    lens = list(range(0, 131)) + ([] if tier == "quick" else [255, 256, 257, 1000, 4097])
    for n in lens:
        pats = [[True] * n, [False] * n, [i % 2 == 0 for i in range(n)], [i % 8 == 7 for i in range(n)],
                [rng.random() < 0.5 for _ in range(n)], [i == n - 1 for i in range(n)]]
        for bits in pats:
            for alld in (False, True):
                bs = w(ai.write_boolean, bits, alld)
                f = io.BytesIO(bs + b"\x77")
                back = ai.read_boolean(f, n, checkall=alld)
                rest = f.read()
                rep.count(("bool", n, tuple(bits), alld), nontrivial=n > 0)
                rep.dist("boolvec_len_mod8", n % 8)
                bad = None
                if back != bits or rest != b"\x77":
                    bad = "read back %r rest %r" % (back, rest)
                elif model is not None and "boolvec_enc" in __import__("vlib").fn_table():
                    enc = bytes(model.call("boolvec_enc", [[1 if b else 0 for b in bits], 1 if alld else 0]))
                    if enc != bs:
                        bad = "bytes differ from model: impl %s model %s" % (bs.hex(), enc.hex())
                if bad:
                    rep.violation("boolean vector of length %d all_defined=%s: %s" % (n, alld, bad),
                                  {"kind": "boolvec", "bits": bits, "all_defined": alld}, match_keys={"kind": "boolvec"})
                    return
    if tier != "quick":
        # exhaustive up to length 12
        for n in range(0, 13):
            for m in range(1 << n):
                bits = [(m >> i) & 1 == 1 for i in range(n)]
                for alld in (False, True):
                    bs = w(ai.write_boolean, bits, alld)
                    back = ai.read_boolean(io.BytesIO(bs), n, checkall=alld)
                    rep.count(("boolx", n, m, alld))
                    if back != bits:
                        rep.violation("boolean vector %r all_defined=%s read back %r" % (bits, alld, back),
                                      {"kind": "boolvec", "bits": bits, "all_defined": alld}, match_keys={"kind": "boolvec"})
                        return


def rand_name(rng, n):
    pools = [(0x20, 0x7E), (0x01, 0x1F), (0xA0, 0x2FFF), (0x3000, 0xD7FF), (0xE000, 0xFFFD), (0x10000, 0x10FFFF)]
    out = []
    while len(out) < n:
        lo, hi = rng.choice(pools)
        c = rng.randrange(lo, hi + 1)
        if c in (0x2F, 0x5C):
            continue
        out.append(chr(c))
    return "".join(out)


def check_names(ctx, rep, rng, tier):
    lens = [1, 2, 3, 7, 8, 63, 64, 255, 256, 1000, 4096] + ([] if tier == "quick" else [20000, 32767])
    for n in lens:
        for _ in range(4 if tier == "quick" else 20):
            s = rand_name(rng, n)
            bs = w(ai.write_utf16, s)
            f = io.BytesIO(bs + b"AB")
            back = ai.read_utf16(f)
            rest = f.read()
            rep.count(("name", s), nontrivial=True)
            rep.dist("name_len", n)
            if back != s or rest != b"AB" or bs != s.encode("utf-16LE") + b"\0\0":
                rep.violation("name of %d characters not read back (got %d chars, rest %r)" % (len(s), len(back), rest),
                              {"kind": "utf16", "name": [ord(c) for c in s]}, match_keys={"kind": "utf16"})
                return


def check_fixed(ctx, rep, rng, tier):
    for k in range(0, 65):
        for d in (-1, 0, 1):
            v = (1 << k) + d
            if 0 <= v < (1 << 64):
                bs = w(ai.write_real_uint64, v)
                back, raw = ai.read_real_uint64(io.BytesIO(bs))
                rep.count(("u64", v))
                if back != v or len(bs) != 8:
                    rep.violation("UINT64 %d read back %r" % (v, back), {"kind": "uint64", "value": v})
            if 0 <= v < (1 << 32):
                bs = w(ai.write_uint32, v)
                back, raw = ai.read_uint32(io.BytesIO(bs))
                rep.count(("u32", v))
                if back != v or len(bs) != 4:
                    rep.violation("UINT32 %d read back %r" % (v, back), {"kind": "uint32", "value": v})
    for n in (0, 1, 2, 9, 100):
        crcs = [rng.getrandbits(32) for _ in range(n)]
        bs = w(ai.write_crcs, crcs)
        back = ai.read_crcs(io.BytesIO(bs), n)
        rep.count(("crcs", tuple(crcs)), nontrivial=n > 0)
        if back != crcs:
            rep.violation("CRC list read back differently", {"kind": "crcs", "crcs": crcs})


def files_roundtrip(files):
    """FilesInfo.write -> FilesInfo._read on a list of file dicts; returns the dicts read"""
    fi = ai.FilesInfo()
    fi.files = files
    fi.emptyfiles = [f["emptystream"] for f in files]
    buf = io.BytesIO()
    fi.write(buf)
    buf.seek(0)
    pid = buf.read(1)
    assert pid == b"\x05", pid
    back = ai.FilesInfo.retrieve(buf)
    return back.files, buf.getvalue()


def check_vectors(ctx, rep, rng, tier):
    """timestamps / attributes vectors with undefined entries, through FilesInfo.write/_read"""
    edge_t = [0, 1, 116444736000000000, (1 << 63) - 1, 1 << 63, (1 << 64) - 1]
    edge_a = [0, 1, 0x20, 0x8000 | (0o100644 << 16), (1 << 32) - 1]
    shapes = []
    for n in list(range(1, 20)) + [31, 32, 33, 64, 65, 130]:
        shapes.append((n, "all"))
        shapes.append((n, "none"))
        shapes.append((n, "one"))
        shapes.append((n, "half"))
        shapes.append((n, "random"))
    for n, shape in shapes:
        for which in ("time", "attr", "both"):
            def defined(i):
                return {"all": True, "none": False, "one": i == n // 2, "half": i % 2 == 0,
                        "random": rng.random() < 0.6}[shape]
            files = []
            for i in range(n):
                f = {"emptystream": False, "filename": "f%d" % i}
                dt, da = defined(i), defined(i)
                if which in ("time", "both"):
                    f["lastwritetime"] = ArchiveTimestamp(rng.choice(edge_t + [rng.getrandbits(64)])) if dt else None
                else:
                    f["lastwritetime"] = ArchiveTimestamp(rng.getrandbits(64))
                if which in ("attr", "both"):
                    f["attributes"] = rng.choice(edge_a + [rng.getrandbits(32)]) if da else None
                else:
                    f["attributes"] = rng.getrandbits(32)
                files.append(f)
            want = [(f["filename"], f["lastwritetime"], f["attributes"]) for f in files]
            key = ("vec", n, shape, which)
            rep.count(key + (tuple(want),), nontrivial=True)
            rep.dist("vector_shape", shape)
            partial_t = any(f["lastwritetime"] is None for f in files) and any(f["lastwritetime"] is not None for f in files)
            partial_a = any(f["attributes"] is None for f in files) and any(f["attributes"] is not None for f in files)
            try:
                back, raw = files_roundtrip([dict(f) for f in files])
                got = [(f.get("filename"), f.get("lastwritetime"), f.get("attributes")) for f in back]
                err = None if got == want else "read back differently"
            except Exception as e:  # noqa
                err = "%s: %s" % (type(e).__name__, e)
            if err:
                rep.violation("time/attribute vectors (%d files, %s defined, %s): %s" % (n, shape, which, err),
                              {"kind": "vectors", "files": [[a, None if b is None else int(b), c] for a, b, c in want]},
                              match_keys={"kind": "vectors", "partial": bool(partial_t or partial_a)})
                return


def check_header_roundtrip(ctx, rep, rng, tier):
    """whole-header round trips (serialise, parse) with boundary values in every field and names over BMP/astral/
    control characters, through Header.write / Header._read and against the model writer/parser"""
    from harness import hdr
    model = ctx["model"]
    n = 150 if tier == "quick" else 3000
    for i in range(n):
        t = hdr.gen_py7zr_like_header(rng, with_partial=(i % 2 == 0), with_times=(i % 3 == 1))
        pos = rng.choice([32, 33, 34, 35, 100, 4097])
        rep.count(("hdr", i, repr(t)[:200]), nontrivial=True)
        w1 = hdr.impl_write(t, pos)
        if w1[0] != "ok":
            rep.violation("Header.write raises %s on a header graph with legal values" % w1[1],
                          {"kind": "header", "tree": t, "pos": pos}, match_keys={"kind": "header-write"})
            return
        back = hdr.impl_parse(w1[1])
        if back[0] != "ok":
            rep.violation("the header py7zr wrote cannot be parsed back (%s)" % back[1], {"kind": "header", "tree": t, "pos": pos},
                          match_keys={"kind": "header-roundtrip"})
            return
        # names, emptystream flags, mtime and attributes (undefined staying undefined) must come back as written; creation and
        # access times likewise (their records are written exactly when some entry has a defined value: then an absent key
        # comes back as None, otherwise the key stays absent)
        fl = t[1][0]
        hc = any(f[2] not in ([], [[]]) for f in fl)
        ha = any(f[3] not in ([], [[]]) for f in fl)
        tn = lambda has, x: ([] if not has else ([[]] if x == [] else x))  # noqa: E731
        want = [(f[0], f[1], tn(hc, f[2]), tn(ha, f[3]), f[4] if f[4] != [] else [[]], f[5] if f[5] != [] else [[]]) for f in fl]
        got = [(f[0], f[1], f[2], f[3], f[4], f[5]) for f in back[1][1][0]]
        if hc or ha:
            rep.dist("header_roundtrip_times", "creation/access times defined")
        if want != got:
            k = next(j for j, (a, b) in enumerate(zip(want, got)) if a != b) if len(want) == len(got) else -1
            rep.violation("whole-header round trip changes entry %d: wrote %r read %r" % (k, want[k] if k >= 0 else len(want), got[k] if k >= 0 else len(got)),
                          {"kind": "header", "tree": t, "pos": pos}, match_keys={"kind": "header-roundtrip"})
            return
        # sizes, counts, CRCs of the stream sections
        if t[0] and back[1][0]:
            a, b = t[0][0], back[1][0][0]
            if a[0] and (a[0][0][:3] != b[0][0][:3]):
                rep.violation("pack info changes in a header round trip: %r -> %r" % (a[0][0][:3], b[0][0][:3]),
                              {"kind": "header", "tree": t, "pos": pos}, match_keys={"kind": "header-roundtrip"})
                return
            if a[2] and (a[2][0][0] != b[2][0][0] or a[2][0][2:] != b[2][0][2:]):
                rep.violation("sub-stream info changes in a header round trip", {"kind": "header", "tree": t, "pos": pos},
                              match_keys={"kind": "header-roundtrip"})
                return
        if model is not None:
            mw = hdr.model_write(model, t, pos)
            if mw[0] != "ok" or mw[1] != w1[1]:
                rep.violation("model writer and Header.write differ", {"kind": "header-correspondence", "tree": t, "pos": pos},
                              concrete=False, match_keys={"kind": "correspondence"})
                return
            mp = hdr.model_parse(model, w1[1])
            if mp[0] != "ok" or mp[1] != back[1]:
                rep.violation("model parser and Header._read differ", {"kind": "header-correspondence", "tree": t, "pos": pos},
                              concrete=False, match_keys={"kind": "correspondence"})
                return
    rep.extra["header_roundtrips"] = n


def check_translation(ctx, rep, rng, tier):
    """translation validation: the generated Gallina functions, extracted, against the Python they came from"""
    model = ctx["model"]
    import vlib
    if model is None or "gen_write_uint64" not in vlib.fn_table():
        return
    n = 0
    for v in number_values(rng, "quick")[:: 3 if tier == "quick" else 1]:
        try:
            bs = w(ai.write_uint64, v)
        except Exception:  # noqa  (reported by check_number with the value as replay)
            continue
        g = model.call("gen_write_uint64", v)
        ok = g[0] == 0 and bytes(g[1]) == bs
        r = model.call("gen_read_uint64", list(bs + b"\x01\x02"))
        ok = ok and r[0] == 0 and r[1][0] == v and bytes(r[1][1]) == b"\x01\x02"
        n += 1
        if not ok:
            rep.violation("translated write_uint64/read_uint64 disagree with the Python on %d: %r %r" % (v, g, r),
                          {"kind": "translation", "value": v}, concrete=False)
            return
    for bad in (-1, 1 << 64, (1 << 64) + 5):
        g = model.call("gen_write_uint64", bad)
        try:
            w(ai.write_uint64, bad)
            raised = False
        except Exception:  # noqa
            raised = True
        if (g[0] == 1) != raised:
            rep.violation("translated write_uint64 and the Python disagree on rejecting %d" % bad,
                          {"kind": "translation", "value": bad}, concrete=False)
    for ln in list(range(0, 40)) + [64, 65, 130]:
        bits = [rng.random() < 0.5 for _ in range(ln)]
        for alld in (False, True):
            bs = w(ai.write_boolean, bits, alld)
            g = model.call("gen_write_boolean", [[1 if b else 0 for b in bits], 1 if alld else 0])
            r = model.call("gen_read_boolean", [list(bs + b"\x09"), ln, 1 if alld else 0])
            n += 1
            if not (g[0] == 0 and bytes(g[1]) == bs and r[0] == 0 and [x == 1 for x in r[1][0]] == bits
                    and bytes(r[1][1]) == b"\x09"):
                rep.violation("translated write_boolean/read_boolean disagree with the Python on %r" % (bits,),
                              {"kind": "translation", "bits": bits}, concrete=False)
                return
    rep.extra["translation_validation_cases"] = n


def check_primitives(ctx, rep, rng, tier):
    """the PyPrims-level definitions the translator targets, against CPython (tools/harness/prims.py)"""
    from harness import prims
    prims.check_prims(ctx, rep)


def run(ctx):
    rep, tier = ctx["rep"], ctx["tier"]
    rng = random.Random(ctx["seed"])
    rep.cov["rule"] = ("boundary-directed: all 2^k+-2, every (length, leading byte) class of NUMBER with low-byte patterns, "
                       "random per class; boolean vectors of every length 0..130 x 6 patterns x both modes; names over BMP/"
                       "astral/control; time/attribute vectors with every definedness shape; non-trivial = value >= 128 / "
                       "non-empty vector; distinct by value")
    for part in (check_primitives, check_translation, check_number, check_boolean, check_names, check_fixed, check_vectors,
                 check_header_roundtrip):
        try:
            part(ctx, rep, rng, tier)
        except Exception as e:  # noqa
            import traceback
            rep.violation("%s raised %s: %s" % (part.__name__, type(e).__name__, e),
                          {"kind": "exception", "part": part.__name__, "trace": traceback.format_exc()[-1500:]},
                          match_keys={"kind": "exception"})


def replay(d):
    r = d["replay"]
    if r.get("kind") == "number":
        v = r["value"]
        try:
            bs = w(ai.write_uint64, v)
            back = ai.read_uint64(io.BytesIO(bs))
        except Exception as e:  # noqa
            print("value", v, "raises", type(e).__name__, e)
            return 1
        print("value", v, "bytes", bs.hex(), "read back", back)
        return 0 if back == v else 1
    if r.get("kind") == "vectors":
        files = [{"emptystream": False, "filename": a, "lastwritetime": None if b is None else ArchiveTimestamp(b),
                  "attributes": c} for a, b, c in r["files"]]
        try:
            back, raw = files_roundtrip(files)
            got = [[f.get("filename"), f.get("lastwritetime"), f.get("attributes")] for f in back]
            print(got == r["files"])
            return 0 if got == r["files"] else 1
        except Exception as e:  # noqa
            print("raises", type(e).__name__, e)
            return 1
    print(json_dumps(r))
    return 2


def json_dumps(x):
    import json
    return json.dumps(x, default=str)[:2000]
