"""C10 -- listings tell the truth about the archive.

Three layers, every run:
  * proof:           coq/props/C10.v over coq/theories/Listing.v (model of getnames/namelist/list/files/getinfo/
                     archiveinfo/needs_password on top of Assign.v's model of _real_get_contents)
  * correspondence:  the extracted model and the implementation on the same header (raw header bytes through the
                     parser model, and the object graph py7zr built) -- every listing call, every getinfo probe
  * exploration:     the implementation against the truth about the archive: what the independent reference reader
                     (tools/ref/refreader.py, Spec.v) says it contains, what extraction delivers (factory: bytes; path:
                     directories), and what the generator put in (coder chains, password)
"""
import concurrent.futures
import io
import os
import random
import shutil
import struct
import tempfile
import zlib

import py7zr

from harness import arch, c06
from harness.sandbox import run_sandboxed
from ref import refreader, refwriter

LEVEL = "proof"
TRUSTED_BASE = [
    "Coq 8.16.1 kernel, vm_compute; no axioms",
    "theories/Listing.v: hand model of the listing interfaces, SupportedMethods table and get_methods_names, tied by the "
    "correspondence run below; theories/Assign.v, Header.v (models of _real_get_contents and of the header parser)",
    "theories/Spec.v + tools/ref/refreader.py as the independent statement of what an archive contains; "
    "tools/ref/refwriter.py as independent writer",
    "extraction (ExtrOcamlBasic only) + ocaml/driver.ml",
    "zlib.crc32, py7zr.helpers.filetime_to_dt (only to compare list() timestamps, which are not part of C10)",
]
ASSUMPTIONS = [
    "codec libraries are correct; the bytes a member is listed against are the bytes extractall(factory) delivers",
    "reference-written archives exclude no layout of the generator (directories without attributes / without the directory "
    "attribute and empty files carrying it are generated often)",
    "archiveinfo() is exercised on archives opened by path; FileInfo.compressed, ArchiveInfo.header_size/stat are "
    "outside C10's statement and not checked; timestamps of list() only through the model (carry-over quirk reported)",
]
LIM = 4096

# names SupportedMethods gives the coders the generators use (independent table: filter id / method id -> name)
FILTER_NAMES = {
    py7zr.FILTER_LZMA2: "LZMA2", py7zr.FILTER_LZMA: "LZMA", py7zr.FILTER_BZIP2: "BZip2", py7zr.FILTER_DEFLATE: "DEFLATE",
    py7zr.FILTER_COPY: "COPY", py7zr.FILTER_ZSTD: "ZStandard", py7zr.FILTER_PPMD: "PPMd", py7zr.FILTER_BROTLI: "Brotli",
    py7zr.FILTER_DELTA: "DELTA", py7zr.FILTER_X86: "BCJ", py7zr.FILTER_ARM: "ARM",
    py7zr.FILTER_CRYPTO_AES256_SHA256: "7zAES",
}
METHOD_ID_NAMES = {b"\x00": "COPY", b"\x21": "LZMA2", b"\x03\x01\x01": "LZMA", b"\x04\x01\x08": "DEFLATE",
                   b"\x04\x02\x02": "BZip2", b"\x03": "DELTA"}


def ref_chain_names(chain):
    """names of the coders of a reference-writer chain (whatever chains the shared writer offers)"""
    return [METHOD_ID_NAMES[mid] for mid, _ in refwriter.CODERS[chain]]


def chain_names(chain):
    fs = arch.CHAINS[chain] if isinstance(chain, str) else chain
    return [FILTER_NAMES[f["id"]] for f in fs]


# ------------------------------------------------------------------ the observation (runs in a sandbox child)
def _iso(t):
    return None if t is None else t.isoformat()


def observe(arg):
    """everything the listing interfaces and extraction say about one archive (opened by path)"""
    from harness import hdr
    data = bytes.fromhex(arg["archive"])
    pw = arg.get("password")
    tmp = tempfile.mkdtemp(prefix="c10_")
    out = {}
    try:
        path = os.path.join(tmp, arg.get("fname", "arc.7z"))
        with open(path, "wb") as f:
            f.write(data)
        try:
            z = py7zr.SevenZipFile(path, "r", password=pw)
        except Exception as e:  # noqa
            return {"open": ["err", type(e).__name__, str(e)[:200]]}
        with z:
            out["open"] = ["ok"]
            out["getnames"] = z.getnames()
            out["namelist"] = z.namelist()
            out["list"] = [[x.filename, x.uncompressed, bool(x.archivable), bool(x.is_directory), _iso(x.creationtime), x.crc32]
                           for x in z.list()]
            out["files"] = [[f.filename, f.uncompressed, f.crc32, bool(f.is_directory), bool(f.archivable), bool(f.readonly),
                             bool(f.is_symlink), bool(f.is_junction), bool(f.is_socket), bool(f.emptystream),
                             None if f.lastwritetime is None else int(f.lastwritetime), f.id] for f in z.files]
            gi = []
            for n in arg.get("probes", []):
                try:
                    r = z.getinfo(n)
                    gi.append([n, r.id, r.filename])
                except KeyError:
                    gi.append([n, None, None])
                except Exception as e:  # noqa
                    gi.append([n, "exc", type(e).__name__])
            out["getinfo"] = gi
            try:
                ai = z.archiveinfo()
                out["archiveinfo"] = ["ok", list(ai.method_names), bool(ai.solid), ai.blocks, ai.uncompressed]
            except Exception as e:  # noqa
                out["archiveinfo"] = ["err", type(e).__name__, str(e)[:200]]
            out["needs_password"] = bool(z.needs_password())
            out["header"] = hdr.header_tree(z.header)
        # the same archive opened from a nameless stream: archiveinfo (reported separately, not a C10 verdict)
        try:
            with py7zr.SevenZipFile(io.BytesIO(data), "r", password=pw) as z:
                try:
                    z.archiveinfo()
                    out["archiveinfo_stream"] = "ok"
                except Exception as e:  # noqa
                    out["archiveinfo_stream"] = type(e).__name__
        except Exception as e:  # noqa
            out["archiveinfo_stream"] = "open:" + type(e).__name__
        # needs_password() when no password is supplied
        if pw is not None:
            try:
                with py7zr.SevenZipFile(path, "r") as z:
                    out["needs_password_nopw"] = bool(z.needs_password())
            except Exception as e:  # noqa
                out["needs_password_nopw"] = "open:" + type(e).__name__
        # extraction: bytes through a factory (products in order of creation) ...
        try:
            with py7zr.SevenZipFile(path, "r", password=pw) as z:
                fac = arch.Collect()
                z.extractall(factory=fac)
                out["extract_factory"] = ["ok", [[n, b.hex()] for n, b in fac.as_list()]]
        except Exception as e:  # noqa
            out["extract_factory"] = ["err", type(e).__name__, str(e)[:200]]
        # ... and to a directory: what kind of object each listed name became
        try:
            dest = os.path.join(tmp, "out")
            with py7zr.SevenZipFile(path, "r", password=pw) as z:
                names = z.getnames()
                z.extractall(path=dest)
            kinds = []
            occ = {}
            for n in names:
                k = occ.get(n, 0)      # later members of the same name are extracted as name_0, name_1, ...
                occ[n] = k + 1
                p = os.path.join(dest, n if k == 0 else "%s_%d" % (n, k - 1))
                kinds.append("dir" if os.path.isdir(p) and not os.path.islink(p) else
                             "file:%d" % os.path.getsize(p) if os.path.isfile(p) else "missing")
            out["extract_path"] = ["ok", kinds]
        except Exception as e:  # noqa
            out["extract_path"] = ["err", type(e).__name__, str(e)[:200]]
        return out
    finally:
        for dp, dns, fns in os.walk(tmp):
            for d in dns:
                try:
                    os.chmod(os.path.join(dp, d), 0o700)
                except OSError:
                    pass
        shutil.rmtree(tmp, ignore_errors=True)


# ------------------------------------------------------------------ case generation
def raw_header_of(data):
    ofs, size, _ = struct.unpack("<QQL", data[12:32])
    return data[32 + ofs: 32 + ofs + size]


def gen_data(rng):
    ln = rng.choice([0, 1, 2, 15, 16, 17, 100, 1000, 3000])
    return arch.pattern_bytes(rng, ln, rng.choice(["random", "text", "period"]))


NAME_POOL = ["a", "b.txt", "dir/x", "üml", "sp ace", "\U0001F600z", ".hid", "d/e/f.bin", "Ünï/ç"]


def gen_names(rng, n):
    out = []
    while len(out) < n:
        nm = rng.choice(NAME_POOL) + "%d" % len(out)
        out.append(nm)
    return out


def case_py7zr_sessions(rng, chains, password=None, header_enc=False, encoded=True, open_password="same"):
    """sessions of writestr members: one folder per session"""
    sessions = []
    k = 0
    for ch in chains:
        ms = []
        for _ in range(rng.choice([1, 2, 3])):
            ms.append((rng.choice(NAME_POOL) + "%d" % k, gen_data(rng)))
            k += 1
        sessions.append((ms, ch))
    need = any(arch.needs_pw(ch) for ch in chains) or header_enc
    pw = password if password is not None else ("secret" if need else None)
    data = arch.make_archive(sessions[0][0], chain=sessions[0][1], password=pw, header_enc=header_enc, encoded=encoded,
                             sessions=sessions[1:])
    methods = sorted(set(sum([chain_names(ch) for ch in chains], [])))
    return {"source": "py7zr", "archive": data.hex(), "password": pw if open_password == "same" else open_password,
            "aes": any(arch.needs_pw(ch) for ch in chains), "methods": methods,
            "desc": "py7zr sessions %s%s%s" % ("|".join(chains), " header-encrypted" if header_enc else "",
                                               "" if encoded else " raw-header"),
            "members_written": [[n, "file", d.hex()] for ms, _ in sessions for n, d in ms]}


def case_py7zr_tree(rng, chain, encoded=True):
    """writeall of a small tree: directories, empty files, zero-length and ordinary files"""
    tmp = tempfile.mkdtemp(prefix="c10t_")
    try:
        root = os.path.join(tmp, "tree")
        os.makedirs(os.path.join(root, "sub", "deep"))
        os.makedirs(os.path.join(root, "emptydir"))
        files = {"a.txt": gen_data(rng), os.path.join("sub", "b.bin"): b"", os.path.join("sub", "deep", "c"): gen_data(rng),
                 "ü.dat": gen_data(rng)}
        for rel, d in files.items():
            with open(os.path.join(root, rel), "wb") as f:
                f.write(d)
        pw = "secret" if arch.needs_pw(chain) else None
        target = os.path.join(tmp, "t.7z")
        with py7zr.SevenZipFile(target, "w", filters=arch.CHAINS[chain], password=pw) as z:
            if not encoded:
                z.set_encoded_header_mode(False)
            z.writeall(root, "top")
        data = open(target, "rb").read()
    finally:
        shutil.rmtree(tmp, ignore_errors=True)
    return {"source": "py7zr", "archive": data.hex(), "password": pw, "aes": arch.needs_pw(chain),
            "methods": sorted(set(chain_names(chain))), "desc": "py7zr writeall tree %s%s" % (chain, "" if encoded else " raw-header")}


def case_py7zr_history(rng, ops, encoded=True):
    """a py7zr history  w(op0) a(op1) a(op2) ...  with ops  ("file", chain) = one writestr member of its own size,
    ("files", chain) = two members, ("dir", None) = a session that adds a directory only, ("none", None) = a session
    that adds nothing.  Single-file and directory-only sessions give sub-stream counts like [1, 0, 1, 1] and NO SIZE
    record, so the size of each member is that of its folder"""
    tmp = tempfile.mkdtemp(prefix="c10h_")
    used = []
    try:
        target = os.path.join(tmp, "h.7z")
        k = 0
        for j, (op, ch) in enumerate(ops):
            filters = arch.CHAINS[ch or "copy"]
            with py7zr.SevenZipFile(target, "w" if j == 0 else "a", filters=filters) as z:
                if not encoded:
                    z.set_encoded_header_mode(False)
                if op in ("file", "files"):
                    used.append(ch)
                    for _ in range(1 if op == "file" else 2):
                        # distinct sizes: a size taken from the wrong folder is visible
                        z.writestr(arch.pattern_bytes(rng, 40 + 37 * k + rng.randrange(30), "text"), "%s%d" % (rng.choice(NAME_POOL), k))
                        k += 1
                elif op == "dir":
                    used.append(ch or "copy")          # the session's (empty) folder carries the session's coders
                    d = os.path.join(tmp, "dir%d" % k)
                    os.makedirs(d)
                    z.writeall(d, "folder%d" % k)
                    k += 1
        data = open(target, "rb").read()
    finally:
        shutil.rmtree(tmp, ignore_errors=True)
    return {"source": "py7zr", "special": "history", "archive": data.hex(), "password": None, "aes": False,
            "methods": sorted(set(sum([chain_names(c) for c in used], []))),
            "desc": "py7zr history %s%s" % (" ".join("%s(%s)" % (o, c or "-") for o, c in ops), "" if encoded else " raw-header")}


def gen_history_ops(rng):
    pool = ["copy", "lzma2", "deflate", "bzip2", "zstd", "lzma"]
    ops = [("file", rng.choice(pool))]
    for _ in range(rng.choice([2, 3, 3, 4])):
        ops.append(rng.choice([("file", rng.choice(pool)), ("file", rng.choice(pool)), ("dir", None), ("none", None),
                               ("files", rng.choice(pool))]))
    if not any(o in ("dir", "none") for o, _ in ops[1:-1]):
        ops.insert(rng.randrange(1, len(ops)), ("dir", None))       # an empty folder BETWEEN data folders
        ops.append(("file", rng.choice(pool)))
    return ops


def case_py7zr_empty(rng):
    bio = io.BytesIO()
    with py7zr.SevenZipFile(bio, "w"):
        pass
    return {"source": "py7zr", "archive": bio.getvalue().hex(), "password": None, "aes": False, "methods": [],
            "desc": "py7zr empty archive"}


REF_FEATURES = [None, None, None, "packpos", "partial_crc", "zero_folder", "partial_vectors", "folder_crc"]


def case_ref(rng, special=None, feature=None):
    """a reference-written layout py7zr is expected to read: any folder partition, CRCs at sub-stream / folder level,
    partially defined or absent, PackPos > 0, a folder without sub-streams, partially defined time/attribute vectors,
    no SubStreamsInfo at all (one member per folder, CRCs at folder level or absent)"""
    for _ in range(50):
        members = c06.gen_members(rng)
        if special == "nostreams":
            members = [m for m in members if m["kind"] != "file"] or [
                {"name": "d0", "kind": "dir", "data": b"", "mtime": c06.FT, "attr": 0x10, "ctime": None, "atime": None}]
        if special == "empty":
            members = []
        if special == "slashdir":
            members.insert(rng.randrange(len(members) + 1),
                           {"name": "sub%d/" % len(members), "kind": "dir", "data": b"", "mtime": c06.FT, "attr": 0x10,
                            "ctime": None, "atime": None})
        if special == "nameless":
            members = [m for m in members if m["kind"] == "file"][:1] or members[:1]
        if special == "zero_nosize":
            # one member per folder, different sizes, plus a folder without sub-streams that is not the last one:
            # NumUnpackStream = [1, 0, 1, ...] and no SIZE record
            nfiles = rng.choice([2, 3, 3, 4])
            members = [m for m in members if m["kind"] != "file"][:2]
            for k in range(nfiles):
                members.insert(rng.randrange(len(members) + 1),
                               {"name": "f%d_%s" % (k, rng.choice(["a", "ü", "x.bin"])), "kind": "file",
                                "data": arch.pattern_bytes(rng, 20 + 53 * k + rng.randrange(40), "text"),
                                "mtime": c06.FT + k, "attr": 0x20, "ctime": None, "atime": None})
        if special == "dupnames" and len(members) >= 2:
            members[-1]["name"] = members[0]["name"]
        lay = c06.gen_layout(rng, members, feature if feature in ("packpos", "partial_crc", "zero_folder", "partial_vectors",
                                                                   "no_substreams") else None)
        if feature == "folder_crc":
            lay["crc"] = "folder"
        if special == "zero_nosize":
            nd = sum(1 for m in members if m["kind"] == "file")
            lay["folders"] = [[i] for i in range(nd)]
            lay["coders"] = [rng.choice(["copy", "lzma2", "deflate", "bzip2"]) for _ in range(nd)]
            lay["zero_folder_after"] = rng.randrange(nd - 1)
            lay.pop("no_substreams", None)
            if lay.get("crc") in ("folder", "folder-partial"):
                lay["crc"] = "substream"
        # directory entries without the directory attribute and empty FILES carrying it are in (c06.gen_members makes
        # them often): is_directory is the format's EmptyFile rule since the repair of the C06 finding
        kind_feats = [f for f in c06.classify(members, lay) if f in ("dir_without_dir_attribute", "emptyfile_with_dir_attribute")]
        if special == "nameless":
            lay["header"] = "raw"
        data = refwriter.write_archive(members, lay)
        if special == "nameless":
            # remove the NAME property: py7zr then presents every entry under the stem of the archive's file name
            body = b"\x00" + b"".join(refwriter.utf16(m["name"]) for m in members)
            rec = refwriter.prop(0x11, body)
            ofs, size, _ = struct.unpack("<QQL", data[12:32])
            h = data[32 + ofs: 32 + ofs + size]
            assert h.count(rec) == 1
            h = h.replace(rec, b"")
            start = struct.pack("<QQL", ofs, len(h), zlib.crc32(h))
            data = refwriter.MAGIC + b"\x00\x04" + struct.pack("<L", zlib.crc32(start)) + start + data[32:32 + ofs] + h
            for m in members:
                m["name"] = None
        parts = lay.get("folders") or []
        methods = sorted(set(sum([ref_chain_names(c) for c in (lay.get("coders") or [])], [])
                             + (["COPY"] if lay.get("zero_folder_after") is not None else [])))
        return {"source": "ref", "archive": data.hex(), "password": None, "aes": False, "methods": methods,
                "layout": lay, "crc_mode": lay.get("crc"), "special": special, "feature": feature,
                "kind_feats": kind_feats,
                "desc": "reference-written %s folders=%r coders=%r crc=%s header=%s%s%s" % (
                    special or feature or "plain", parts, lay.get("coders"), lay.get("crc"), lay.get("header"),
                    " packpos=%d" % lay["packpos"] if lay.get("packpos") else "",
                    " zero-folder-after=%d" % lay["zero_folder_after"] if lay.get("zero_folder_after") is not None else ""),
                "members_written": [[m["name"], m["kind"], m["data"].hex()] for m in members]}
    raise RuntimeError("no healthy layout found")


def probes_for(names):
    ps = []
    for n in names:
        ps += [n, n + "/", n + "//", n + "x"]
        if n.endswith("/"):
            ps.append(n[:-1])
    ps += ["nope", "", "/"]
    seen, out = set(), []
    for p in ps:
        if p not in seen:
            seen.add(p)
            out.append(p)
    return out


def gen_cases(rng, tier):
    cases = []
    quick = tier == "quick"
    # (a) py7zr-written: every chain, one session
    for ch in arch.CHAINS:
        if quick and arch.needs_pw(ch) and ch not in ("lzma2+aes", "copy+aes", "aes"):
            continue
        cases.append(case_py7zr_sessions(rng, [ch], encoded=rng.random() < 0.5 or arch.needs_pw(ch)))
    # multi-session = multi-folder, mixed chains
    pool = arch.FAST_CHAINS + ["delta+lzma2", "brotli", "x86+lzma2", "lzma", "ppmd"]
    for i in range(14 if quick else 150):
        chains = [rng.choice(pool) for _ in range(rng.choice([2, 2, 3]))]
        cases.append(case_py7zr_sessions(rng, chains, encoded=i % 2 == 0))
    # trees with directories
    for i, ch in enumerate(["copy", "lzma2", "deflate", "bzip2", "zstd", "delta+lzma2"] if quick else list(arch.CHAINS)):
        if arch.needs_pw(ch) and quick:
            continue
        cases.append(case_py7zr_tree(rng, ch, encoded=i % 2 == 0))
    # passwords: header encryption; password supplied although nothing is encrypted; wrong-free AES with raw header
    cases.append(case_py7zr_sessions(rng, ["lzma2+aes"], header_enc=True))
    cases.append(case_py7zr_sessions(rng, ["copy"], open_password="unneeded"))
    cases.append(case_py7zr_sessions(rng, ["lzma2", "deflate"], open_password="unneeded", encoded=False))
    cases.append(case_py7zr_sessions(rng, ["copy+aes"], encoded=False))
    # mixed archives whose FIRST folder is plain and a later one encrypted (three folders, raw and encoded header)
    cases.append(case_py7zr_sessions(rng, ["lzma2", "copy+aes"], encoded=True))
    cases.append(case_py7zr_sessions(rng, ["copy", "deflate", "lzma2+aes"], encoded=False))
    cases.append(case_py7zr_sessions(rng, ["copy", "zstd+aes", "lzma2"], encoded=True))
    if not quick:
        cases.append(case_py7zr_sessions(rng, ["copy+aes", "lzma2"], encoded=True))
        cases.append(case_py7zr_tree(rng, "lzma2+aes"))
        cases.append(case_py7zr_sessions(rng, ["zstd+aes"], header_enc=True))
    # histories with directory-only / empty sessions between single-file sessions (sub-stream counts with 0, no SIZE record)
    fixed = [[("file", "copy"), ("dir", None), ("file", "copy"), ("file", "lzma2")],
             [("file", "lzma2"), ("none", None), ("file", "deflate")],
             [("file", "copy"), ("dir", None), ("dir", None), ("file", "bzip2"), ("files", "copy")]]
    for i, ops in enumerate(fixed):
        cases.append(case_py7zr_history(rng, ops, encoded=i % 2 == 0))
    for i in range(6 if quick else 120):
        cases.append(case_py7zr_history(rng, gen_history_ops(rng), encoded=i % 2 == 1))
    for i in range(8 if quick else 250):
        cases.append(case_ref(rng, "zero_nosize"))
    cases.append(case_py7zr_empty(rng))
    # (b) reference-written healthy layouts
    for i in range(110 if quick else 2500):
        cases.append(case_ref(rng, feature=REF_FEATURES[i % len(REF_FEATURES)]))
    for sp in ["nostreams", "empty", "slashdir", "dupnames", "nostreams", "slashdir", "dupnames", "nameless"]:
        cases.append(case_ref(rng, sp))
    # archives without SubStreamsInfo: one member per folder, CRCs at folder level (all / every other one / none)
    for i in range(16 if quick else 300):
        cases.append(case_ref(rng, feature="no_substreams"))
    for i, c in enumerate(cases):
        c["idx"] = i
        c["fname"] = "arc%d.7z" % i
    return cases


# ------------------------------------------------------------------ truth
def truth_of(case, model):
    """what the archive contains according to the reference reader (Spec.v + codecs called directly)"""
    data = bytes.fromhex(case["archive"])
    pw = case["password"] if case["aes"] or "header-encrypted" in case["desc"] else None
    try:
        ref = refreader.read_archive(data, model, password=pw)
    except refreader.RefError:
        ref = refreader.read_archive(data, model, password=pw, strict_tiling=False)
    members = [[m["name"], m["kind"], m["data"].hex(), m["crc"]] for m in ref["members"]]
    return {"members": members, "folders": ref["layout"].get("folders", 0), "nums": ref["layout"].get("nums", []),
            "encoded": ref["layout"].get("encoded", 0)}


# ------------------------------------------------------------------ evaluation of one observed case
def names_tree(s):
    return [ord(c) for c in s]


def tree_name(t):
    return "".join(chr(c) for c in t)


def evaluate(case, obs, truth, model):
    """returns a list of (description, match_keys, concrete) -- empty when the listings tell the truth"""
    bad = []

    def v(what, keys, concrete=True):
        bad.append((what, keys, concrete))

    if obs.get("open", ["?"])[0] != "ok":
        v("archive cannot be opened: %r" % (obs.get("open"),), {"kind": "open"})
        return bad
    stem = os.path.splitext(os.path.basename(case["fname"]))[0]
    tm = [[stem if m[0] is None else m[0]] + list(m[1:]) for m in truth["members"]]
    tnames = [m[0] for m in tm]
    # ---- names: stored order, the same everywhere
    for key, got in (("getnames", obs["getnames"]), ("namelist", obs["namelist"]), ("list", [r[0] for r in obs["list"]]),
                     ("files", [r[0] for r in obs["files"]])):
        if got != tnames:
            v("%s() names %r differ from the stored names %r" % (key, got, tnames), {"kind": "names", "interface": key})
    if len(obs["files"]) != len(tm) or len(obs["list"]) != len(tm):
        return bad
    # ---- extraction results
    xf = obs["extract_factory"]
    xp = obs["extract_path"]
    if xf[0] != "ok":
        v("extractall(factory) raises %s: %s" % (xf[1], xf[2]), {"kind": "extraction", "mode": "factory"})
    if xp[0] != "ok":
        if xp[1] == "TypeError" and any(r[10] is None for r in obs["files"]):
            # extractall(path) applies ArchiveTimestamp(None) for a member whose mtime is undefined: an extraction
            # defect (C02/C06), nothing a listing says is wrong; counted in the evidence, directory creation is then
            # only checked through the factory run and the model
            case["_undefined_mtime_path_extraction"] = True
        else:
            v("extractall(path) raises %s: %s" % (xp[1], xp[2]), {"kind": "extraction", "mode": "path"})
    # a product is created under the member's name (second and later members of the same name: name_0, name_1, ...)
    products = {n: b for n, b in xf[1]} if xf[0] == "ok" else None
    occurrences = {}
    for i, (m, frow, lrow) in enumerate(zip(tm, obs["files"], obs["list"])):
        name, kind, datahex, tcrc = m
        data = bytes.fromhex(datahex)
        isdir_listed = frow[3]
        # directory flag: every interface agrees, and it is what the archive says / what extraction creates
        if lrow[3] != isdir_listed:
            v("member %r: list() says is_directory=%r, files says %r" % (name, lrow[3], isdir_listed), {"kind": "directory"})
        if isdir_listed != (kind == "dir"):
            v("member %r is listed with is_directory=%r but the archive stores a %s" % (name, isdir_listed, kind),
              {"kind": "directory"})
        if xp[0] == "ok":
            made = xp[1][i]
            if (made == "dir") != isdir_listed:
                v("member %r: listed is_directory=%r, extraction created %s" % (name, isdir_listed, made), {"kind": "directory"})
            if made.startswith("file:") and int(made[5:]) != frow[1]:
                v("member %r: listed size %r, extracted file has %s bytes" % (name, frow[1], made[5:]), {"kind": "size"})
        # sizes and CRCs against the extracted bytes
        got = None
        k = occurrences.get(name, 0)
        occurrences[name] = k + 1
        if products is not None and not isdir_listed:
            key = name if k == 0 else "%s_%d" % (name, k - 1)
            if key in products:
                got = bytes.fromhex(products[key])
            elif kind != "dir":
                v("member %r is not delivered by extractall(factory)" % name, {"kind": "extraction", "mode": "factory-missing"})
        for label, size, crc in (("files", frow[1], frow[2]), ("list()", lrow[1], lrow[5])):
            if kind == "dir":
                if size != 0:
                    v("directory %r listed by %s with size %r" % (name, label, size), {"kind": "size"})
                continue
            if got is not None:
                if size != len(got):
                    v("member %r: %s reports uncompressed=%r, extraction delivers %d bytes" % (name, label, size, len(got)),
                      {"kind": "size"})
                if crc is not None and crc != zlib.crc32(got):
                    v("member %r: %s reports crc32=%r, the extracted bytes have %d" % (name, label, crc, zlib.crc32(got)),
                      {"kind": "crc"})
            if size != len(data):
                v("member %r: %s reports uncompressed=%r, the archive stores %d bytes" % (name, label, size, len(data)),
                  {"kind": "size"})
            if tcrc is not None and crc is None:
                level = "folder" if str((case.get("layout") or {}).get("crc", "")).startswith("folder") else "substream"
                v("member %r: %s reports crc32=None, the archive stores CRC %d for it (at %s level)" % (name, label, tcrc, level),
                  {"kind": "crc-not-listed", "level": level})
            elif tcrc is not None and crc != tcrc:
                v("member %r: %s reports crc32=%r, the archive stores CRC %d" % (name, label, crc, tcrc), {"kind": "crc"})
            if tcrc is None and crc is not None and crc != zlib.crc32(data):
                v("member %r: %s reports crc32=%r which is not the CRC of its bytes" % (name, label, crc), {"kind": "crc"})
        if got is not None and kind != "dir" and got != data:
            v("member %r: extraction delivers other bytes than the archive stores" % name, {"kind": "extraction", "mode": "bytes"})
    # ---- getinfo
    listed = set(tnames)
    for n, idx, fn in obs["getinfo"]:
        stripped = n[:-1] if n.endswith("/") else n
        # acceptable answers: the first member named exactly n, or the first member named n without one trailing slash
        accept = [(tnames.index(x), x) for x in (n, stripped) if x in listed]
        if idx == "exc":
            v("getinfo(%r) raises %s" % (n, fn), {"kind": "getinfo"})
        elif accept and idx is None:
            if n in listed and stripped not in listed:
                v("getinfo(%r) raises KeyError although %r is listed by getnames()" % (n, n), {"kind": "getinfo-name-ends-with-slash"})
            else:
                v("getinfo(%r) raises KeyError although %r is listed" % (n, stripped), {"kind": "getinfo"})
        elif accept and (idx, fn) not in accept:
            v("getinfo(%r) returns member %r (#%r), expected the first member named %r (#%d)" % (
                n, fn, idx, accept[0][1], accept[0][0]), {"kind": "getinfo"})
        elif not accept and idx is not None:
            v("getinfo(%r) returns member %r although no such name is listed" % (n, fn), {"kind": "getinfo"})
    # ---- archiveinfo
    ai = obs["archiveinfo"]
    total = sum(len(m[2]) // 2 for m in tm)
    if ai[0] != "ok":
        if not tm:
            keys = {"kind": "archiveinfo-empty"}
        elif truth["folders"] == 0:
            keys = {"kind": "archiveinfo-no-main-streams"}
        else:
            keys = {"kind": "archiveinfo", "field": "raises"}
        v("archiveinfo() raises %s (%s) on an archive with %d members in %d folders" % (ai[1], ai[2], len(tm), truth["folders"]),
          keys)
    else:
        _, mnames, solid, blocks, unc = ai
        if unc != total:
            v("archiveinfo().uncompressed=%r, members total %d bytes" % (unc, total), {"kind": "archiveinfo", "field": "uncompressed"})
        if blocks != truth["folders"]:
            v("archiveinfo().blocks=%r, the archive has %d folders" % (blocks, truth["folders"]), {"kind": "archiveinfo", "field": "blocks"})
        if solid != any(n > 1 for n in truth["nums"]):
            v("archiveinfo().solid=%r, sub-streams per folder %r" % (solid, truth["nums"]), {"kind": "archiveinfo", "field": "solid"})
        want = set(case["methods"])
        if case["source"] == "py7zr" and truth["folders"] == 0:
            want = set()
        have = set(mnames)
        for miss in sorted(want - have):
            v("archiveinfo().method_names=%r omits %s although a %s coder is present" % (mnames, miss, miss),
              {"kind": "method-names", "missing": miss})
        for extra in sorted(have - want):
            if case["source"] == "py7zr" and not tm:
                continue
            v("archiveinfo().method_names=%r names %s, no such coder present (%r)" % (mnames, extra, sorted(want)),
              {"kind": "method-names", "extra": extra})
        if len(set(mnames)) != len(mnames):
            v("archiveinfo().method_names=%r repeats a name" % (mnames,), {"kind": "method-names", "extra": "duplicate"})
    # ---- needs_password
    encrypted = case["aes"] or "header-encrypted" in case["desc"]
    want = encrypted or case["password"] is not None
    if obs["needs_password"] != want:
        v("needs_password()=%r; password supplied: %r, encryption coder present: %r" % (
            obs["needs_password"], case["password"] is not None, encrypted), {"kind": "needs-password"})
    if "needs_password_nopw" in obs:
        r = obs["needs_password_nopw"]
        if isinstance(r, bool) and r != case["aes"]:
            v("needs_password()=%r without a password; encryption coder present: %r" % (r, case["aes"]), {"kind": "needs-password"})
        if isinstance(r, str) and "header-encrypted" not in case["desc"]:
            v("opening without a password raises %s" % r, {"kind": "needs-password"})
    # ---- correspondence with the model
    if model is not None:
        bad += correspond(case, obs, model)
    return bad


def correspond(case, obs, model):
    out = []

    def v(what):
        out.append(("model/implementation disagree: " + what, {"kind": "correspondence"}, False))

    from py7zr.helpers import filetime_to_dt
    dflt = names_tree(os.path.splitext(os.path.basename(case["fname"]))[0])
    ht = obs["header"]
    data = bytes.fromhex(case["archive"])
    raw = raw_header_of(data)
    israw = raw[:1] == b"\x01" or len(raw) == 0

    def run(fn_tree, fn_bytes, pre, post):
        rs = [("graph", model.call(fn_tree, pre + [ht] + post))]
        if israw:
            rs.append(("bytes", model.call(fn_bytes, [LIM] + pre + [list(raw)] + post)))
        return rs

    # listing_all
    for src, r in run("listing_all", "listing_all_of_bytes", [dflt], []):
        if r[0] != 0:
            v("[%s] model says the archive does not open (error %r), implementation opened it" % (src, r[1]))
            continue
        gn, nl, ln, fn, rows, frows = r[1]
        for key, got, mod in (("getnames", obs["getnames"], gn), ("namelist", obs["namelist"], nl),
                              ("list", [x[0] for x in obs["list"]], ln), ("files", [x[0] for x in obs["files"]], fn)):
            if [tree_name(t) for t in mod] != got:
                v("[%s] %s: impl %r model %r" % (src, key, got, [tree_name(t) for t in mod]))
        impl_rows = [[x[0], x[1], x[2], x[3], x[4], x[5]] for x in obs["list"]]
        mod_rows = [[tree_name(t[0]), t[1], t[2] == 1, t[3] == 1,
                     (filetime_to_dt(t[4][0]).isoformat() if t[4] else None), (t[5][0] if t[5] else None)] for t in rows]
        if impl_rows != mod_rows:
            v("[%s] list(): impl %r model %r" % (src, impl_rows, mod_rows))
        impl_f = [[x[0], x[1], x[2], x[3], x[4], x[5], x[6], x[7], x[8]] for x in obs["files"]]
        mod_f = [[tree_name(t[0]), t[1], (t[2][0] if t[2] else None)] + [b == 1 for b in t[3:9]] for t in frows]
        if impl_f != mod_f:
            v("[%s] files: impl %r model %r" % (src, impl_f, mod_f))
        # the model's extraction decision against what extraction created
        if obs["extract_path"][0] == "ok":
            for t, made in zip(frows, obs["extract_path"][1]):
                if (t[9] == 0) != (made == "dir"):
                    v("[%s] member %r: model's extraction action %d, extraction created %s" % (src, tree_name(t[0]), t[9], made))
    # getinfo
    for n, idx, _ in obs["getinfo"]:
        for src, r in run("getinfo", "getinfo_bytes", [dflt], [names_tree(n)]):
            mi = None if r[0] != 0 or r[1] == [] else r[1][0]
            if idx != mi:
                v("[%s] getinfo(%r): impl %r model %r" % (src, n, idx, mi))
    # archiveinfo
    for src, r in run("archiveinfo", "archiveinfo_bytes", [1], []):
        ai = obs["archiveinfo"]
        if (r[0] == 0) != (ai[0] == "ok"):
            v("[%s] archiveinfo: impl %r model %r" % (src, ai[:2], r))
        elif r[0] == 0:
            mod = [[tree_name(t) for t in r[1][0]], r[1][1] == 1, r[1][2], r[1][3]]
            if mod != ai[1:]:
                v("[%s] archiveinfo: impl %r model %r" % (src, ai[1:], mod))
    for src, r in run("archiveinfo", "archiveinfo_bytes", [0], []):
        if r[0] == 0 and obs.get("archiveinfo_stream") != "ok":
            v("[%s] archiveinfo on a nameless stream: impl %r, model answers" % (src, obs.get("archiveinfo_stream")))
    # needs_password
    for src, r in run("needs_password", "needs_password_bytes", [1 if case["password"] is not None else 0], []):
        if r[0] != 0 or (r[1] == 1) != obs["needs_password"]:
            v("[%s] needs_password: impl %r model %r" % (src, obs["needs_password"], r))
    if isinstance(obs.get("needs_password_nopw"), bool):
        for src, r in run("needs_password", "needs_password_bytes", [0], []):
            if r[0] != 0 or (r[1] == 1) != obs["needs_password_nopw"]:
                v("[%s] needs_password (no password): impl %r model %r" % (src, obs["needs_password_nopw"], r))
    return out


# ------------------------------------------------------------------ unit-level correspondence
def unit_checks(ctx, rep, rng, tier):
    """get_methods_names / SupportedMethods.needs_password / remove_trailing_slash on arbitrary inputs"""
    model = ctx["model"]
    if model is None:
        return
    from py7zr.compressor import SupportedMethods, get_methods_names
    from py7zr.helpers import remove_trailing_slash
    from harness import hdr
    ids = [m["id"] for m in SupportedMethods.methods] + [b"\x03\x03\x01\x1b", b"\x04\xf7\x11\x04", b"\x04", b"\x07", b"",
                                                          b"\x06\xf1\x07", b"\x06\xf1\x07\x01\x00", b"\x21\x00", b"\xff"]
    n = 300 if tier == "quick" else 5000
    for i in range(n):
        cl = [[{"method": rng.choice(ids), "numinstreams": 1, "numoutstreams": 1, "properties": None}
               for _ in range(rng.choice([0, 1, 1, 2, 3]))] for _ in range(rng.choice([0, 1, 1, 2, 3]))]
        tree = [[hdr.coder_tree(c) for c in cs] for cs in cl]
        rep.count(("methods", repr(cl)), nontrivial=any(cl))
        impl = get_methods_names(cl)
        mod = [tree_name(t) for t in model.call("get_methods_names", tree)]
        if impl != mod:
            rep.violation("model/implementation disagree: get_methods_names(%r): impl %r model %r" % (cl, impl, mod),
                          {"kind": "unit", "fn": "get_methods_names", "coders": [[c["method"].hex() for c in cs] for cs in cl]},
                          concrete=False, match_keys={"kind": "correspondence", "fn": "get_methods_names"})
            break
        stop = False
        for cs, ct in zip(cl, tree):
            try:
                impl_b = ("ok", SupportedMethods.needs_password(cs))
            except Exception as e:  # noqa
                impl_b = ("err", type(e).__name__)
            # the truth: exactly when a 7zAES coder is present
            want = any(c["method"] == b"\x06\xf1\x07\x01" for c in cs)
            if impl_b != ("ok", want):
                rep.violation("SupportedMethods.needs_password(%r) = %r; a 7zAES coder is %s" % (
                    [c["method"].hex() for c in cs], impl_b, "present" if want else "absent"),
                    {"kind": "unit", "fn": "needs_password", "coders": [c["method"].hex() for c in cs]},
                    match_keys={"kind": "needs-password", "level": "coders"})
                stop = True
            r = model.call("coders_need_password", ct)
            mod_b = ("ok", r[1] == 1) if r[0] == 0 else ("err", r[1])
            if impl_b[0] != mod_b[0] or (impl_b[0] == "ok" and impl_b[1] != mod_b[1]):
                rep.violation("model/implementation disagree: SupportedMethods.needs_password(%r): impl %r model %r" % (cs, impl_b, mod_b),
                              {"kind": "unit", "fn": "needs_password", "coders": [c["method"].hex() for c in cs]},
                              concrete=False, match_keys={"kind": "correspondence", "fn": "needs_password"})
                stop = True
        if stop:
            break
    for s in ["", "/", "//", "a", "a/", "a//", "a/b", "a/b/", "/a", "ü/", "\U0001F600/", "a\\", "a/ "]:
        rep.count(("slash", s))
        mod = tree_name(model.call("remove_trailing_slash", names_tree(s)))
        if mod != remove_trailing_slash(s):
            rep.violation("model/implementation disagree: remove_trailing_slash(%r): impl %r model %r" % (s, remove_trailing_slash(s), mod),
                          {"kind": "unit", "fn": "remove_trailing_slash", "arg": s}, concrete=False,
                          match_keys={"kind": "correspondence", "fn": "remove_trailing_slash"})


# ------------------------------------------------------------------ driver
def observe_case(case):
    arg = {"archive": case["archive"], "password": case["password"], "fname": case["fname"], "probes": case["probes"]}
    out = run_sandboxed("harness.c10:observe", arg, timeout=120, mem_mb=3000)
    if out["status"] == "ok":
        return out["value"]
    return {"open": ["err", out["status"], str(out)[:300]]}


def replay_dict(case, truth, kind):
    return {"kind": kind, "archive": case["archive"], "password": case["password"], "fname": case["fname"],
            "probes": case["probes"], "aes": case["aes"], "methods": case["methods"], "source": case["source"],
            "desc": case["desc"], "truth": truth, "layout": case.get("layout")}


def run(ctx):
    rep, tier = ctx["rep"], ctx["tier"]
    rng = random.Random(ctx["seed"])
    model = ctx["model"]
    rep.cov["rule"] = ("archives: (a) written by py7zr -- every coder chain of arch.CHAINS (incl. 7zAES, header encryption), "
                       "2-3 append sessions with mixed chains (one folder each), writeall trees with directories / empty "
                       "files, raw and encoded headers, password supplied or not, the empty archive; (b) written by the "
                       "independent reference writer -- folder partitions, six chains, CRCs at sub-stream / folder level, partial "
                       "or absent, PackPos > 0, a folder without sub-streams, no SubStreamsInfo, partially defined time/attribute vectors, raw/LZMA header, kDummy, Unicode names, directories, empty files, names ending in "
                       "'/', duplicate names, no main streams, no members).  Per archive: getnames, namelist, list, files, "
                       "getinfo (each name, name/, name//, namex, absent), archiveinfo, needs_password with/without password, "
                       "extractall(factory) and extractall(path), all compared with the reference reader's view and with the "
                       "extracted Coq model (graph and raw-header bytes).  non-trivial = at least one member; distinct by archive")
    if model is None:
        rep.violation("extracted model not available", {"kind": "no-model"}, concrete=False, match_keys={"kind": "no-model"})
        return
    unit_checks(ctx, rep, rng, tier)
    cases = gen_cases(rng, tier)
    truths = []
    for c in cases:
        try:
            t = truth_of(c, model)
        except Exception as e:  # noqa
            rep.violation("oracle self-check failed: reference reader rejects %s: %s" % (c["desc"], e),
                          {"kind": "oracle", "archive": c["archive"], "desc": c["desc"]}, concrete=False,
                          match_keys={"kind": "oracle"})
            t = None
        if t is not None and "members_written" in c:
            w = [[a, b, d] for a, b, d in c["members_written"]]
            if [[m[0], m[1], m[2]] for m in t["members"]] != w:
                rep.violation("oracle self-check failed: reference reader reads other members than were written (%s)" % c["desc"],
                              {"kind": "oracle", "archive": c["archive"], "desc": c["desc"]}, concrete=False,
                              match_keys={"kind": "oracle"})
                t = None
        truths.append(t)
        c["probes"] = probes_for([m[0] if m[0] is not None else "arc%d" % c["idx"] for m in t["members"]]) if t else []
    with concurrent.futures.ThreadPoolExecutor(max_workers=min(12, os.cpu_count() or 4)) as ex:
        observations = list(ex.map(observe_case, cases))
    stream_results = {}
    reported = {}
    for c, t, obs in zip(cases, truths, observations):
        if t is None:
            continue
        rep.count(("c10", c["archive"][:4000], c["password"]), nontrivial=bool(t["members"]))
        rep.dist("source", c["source"] + (":" + c["special"] if c.get("special") else "") + (":" + c["feature"] if c.get("feature") else ""))
        rep.dist("folders", t["folders"])
        rep.dist("members", len(t["members"]))
        rep.dist("header", "encoded" if t["encoded"] else "raw")
        for ft in c.get("kind_feats") or (["attributes agree with EmptyFile"] if c["source"] == "ref" else []):
            rep.dist("entries_without_data", ft)
        for m in c["methods"]:
            rep.dist("coder", m)
        if "archiveinfo_stream" in obs:
            stream_results[obs["archiveinfo_stream"]] = stream_results.get(obs["archiveinfo_stream"], 0) + 1
        rep.extra["getinfo_probes"] = rep.extra.get("getinfo_probes", 0) + len(c["probes"])
        try:
            bad = evaluate(c, obs, t, model)
        except Exception as e:  # noqa
            import traceback
            bad = [("harness error while evaluating %s: %s" % (c["desc"], traceback.format_exc()[-800:]), {"kind": "harness"}, False)]
        for what, keys, concrete in bad:
            # one report (and one replay) per failing shape; further archives of the same shape are only counted
            k = tuple(sorted(keys.items()))
            if k in reported:
                reported[k] += 1
                continue
            reported[k] = 1
            rep.violation("%s [%s]" % (what, c["desc"]), replay_dict(c, t, keys.get("kind")), concrete=concrete, match_keys=keys)
        if c.get("_undefined_mtime_path_extraction"):
            rep.extra["extractall_path_TypeError_on_undefined_mtime"] = rep.extra.get("extractall_path_TypeError_on_undefined_mtime", 0) + 1
        if c["idx"] % 40 == 0:
            rep.sample({"desc": c["desc"], "names": [m[0] for m in t["members"]][:6], "archiveinfo": obs.get("archiveinfo")})
        if len(rep.violations) > 15:
            break
    # archiveinfo() on an archive opened from a nameless stream: `assert fname is not None`.  C10 quantifies over
    # archives, not over the way they are opened; recorded here, not judged.
    rep.extra["archiveinfo_on_nameless_stream"] = stream_results
    rep.extra["archives_per_failing_shape"] = {repr(dict(k)): n for k, n in reported.items()}
    try:
        check_open_session_listing(rep, rng, tier)
    except Exception as e:  # noqa
        import traceback
        rep.violation("check_open_session_listing raised %s: %s" % (type(e).__name__, e),
                      {"kind": "harness", "trace": traceback.format_exc()[-800:]}, concrete=False, match_keys={"kind": "harness"})
    rep.extra["note_list_timestamp"] = ("list() carries the previous member's timestamp over to a member without one "
                                        "(lastmodified is not reset per iteration); modelled (list_loop), not part of C10's statement")

def check_open_session_listing(rep, rng, tier):
    """the listing interfaces inside a session that is still writing (modes w and a): after every write call the names are the
    names written so far, in order, and getinfo() finds each of them (and only them) -- asked before and after later writes"""
    n = 12 if tier == "quick" else 200
    for i in range(n):
        chain = rng.choice(["copy", "lzma2", "deflate"])
        names = rng.sample(NAME_POOL, min(len(NAME_POOL), rng.choice([2, 3, 4, 5])))
        names = ["%s-%d" % (nm, j) for j, nm in enumerate(names)]
        cut = rng.randrange(0, len(names))                 # members [0:cut] in session w, the rest in session a
        bio = io.BytesIO()
        written = []
        problems = []

        def look(z, where):
            got = list(z.getnames())
            if got != written:
                problems.append("%s: getnames() = %r, written so far %r" % (where, got, written))
            if list(z.namelist()) != got:
                problems.append("%s: namelist() differs from getnames()" % where)
            for nm in written:
                try:
                    fi = z.getinfo(nm)
                    if fi.filename != nm:
                        problems.append("%s: getinfo(%r).filename = %r" % (where, nm, fi.filename))
                except Exception as e:  # noqa
                    problems.append("%s: getinfo(%r) raises %s" % (where, nm, type(e).__name__))
            try:
                z.getinfo("never-written-name")
                problems.append("%s: getinfo of an absent name returns" % where)
            except KeyError:
                pass
            except Exception as e:  # noqa
                problems.append("%s: getinfo of an absent name raises %s" % (where, type(e).__name__))

        try:
            for mode, part in (("w", names[:cut]), ("a", names[cut:])):
                if mode == "a" and cut == 0:
                    mode = "w"
                bio.seek(0)
                with py7zr.SevenZipFile(bio, mode, filters=arch.CHAINS[chain]) as z:
                    look(z, "%s session, before any write" % mode)
                    for nm in part:
                        z.writestr(arch.pattern_bytes(rng, rng.choice([0, 1, 50, 300]), "text"), nm)
                        written.append(nm)
                        look(z, "%s session, after writing %r" % (mode, nm))
        except Exception as e:  # noqa
            problems.append("session raises %s: %s" % (type(e).__name__, str(e)[:120]))
        rep.count(("open-session", i, chain, tuple(names), cut), nontrivial=len(names) > 1)
        rep.dist("open_session_listing", "w:%d a:%d" % (cut, len(names) - cut))
        if problems:
            rep.violation("listing inside a writing session: %s [chain %s, names %r, w/a cut %d]" % (problems[0], chain, names, cut),
                          {"kind": "open-session", "chain": chain, "names": names, "cut": cut, "problems": problems[:6]},
                          match_keys={"kind": "open-session-listing"})
            return


def replay(d):
    r = d["replay"]
    import sys
    sys.path.insert(0, os.path.dirname(os.path.dirname(os.path.abspath(__file__))))
    import vlib
    if r.get("kind") == "unit":
        from py7zr.compressor import SupportedMethods, get_methods_names
        if r.get("fn") == "needs_password":
            cs = [{"method": bytes.fromhex(m), "numinstreams": 1, "numoutstreams": 1, "properties": None} for m in r["coders"]]
            try:
                got = SupportedMethods.needs_password(cs)
            except Exception as e:  # noqa
                got = type(e).__name__
            want = any(c["method"] == b"\x06\xf1\x07\x01" for c in cs)
            print("SupportedMethods.needs_password(%r) = %r, 7zAES coder present: %r" % (r["coders"], got, want))
            return 0 if got == want else 1
        print(r)
        return 2
    case = {"archive": r["archive"], "password": r["password"], "fname": r["fname"], "probes": r["probes"], "aes": r["aes"],
            "methods": r["methods"], "source": r["source"], "desc": r["desc"], "layout": r.get("layout")}
    model = None
    try:
        model = vlib.Model()
    except Exception:  # noqa
        pass
    try:
        obs = observe_case(case)
        bad = evaluate(case, obs, r["truth"], model)
    finally:
        if model:
            model.close()
    want = d.get("match_keys") or {}
    hit = [b for b in bad if all(b[1].get(k) == x for k, x in want.items())]
    for what, keys, _ in hit or bad:
        print(what[:400])
    if not hit:
        print("no longer fails")
    return 1 if hit else 0
